#!/bin/sh
# lead helper: run every check once (quick tier) against VERIF_REPO or /repo with VERIF_SEED (default 0), 4 at a time;
# prints one line per property; logs in ${SWEEP_DIR:-/tmp/sweep}
cd /verif
D=${SWEEP_DIR:-/tmp/sweep}; mkdir -p $D
ls harness/props/C*.py | sed 's#.*/##; s#\.py##' | xargs -P ${SWEEP_JOBS:-4} -I{} sh -c './check {} > '$D'/{}.log 2>&1; echo "{} rc=$? $(tail -1 '$D'/{}.log | cut -c1-160)"' | sort

"""Regenerate every RxGen table from the current /repo (called by setup.sh; each check regenerates its own too)."""
import importlib
import pkgutil
import sys

import props

for m in pkgutil.iter_modules(props.__path__):
    mod = importlib.import_module(f"props.{m.name}")
    if hasattr(mod, "regenerate"):
        try:
            print(m.name, mod.regenerate())
        except Exception as e:  # fail closed at check time, not at setup
            print(m.name, "regenerate failed:", e, file=sys.stderr)

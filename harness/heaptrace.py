"""Record the *direct* container calls a real pipeline makes on its disposables (C02 / C03 plumbing trace).

Class-level wrappers on the real disposable classes log every call that is made by operator code, handlers or
disposable actions ("direct"), and suppress those a container makes itself while propagating disposal
("propagated": Composite.dispose -> child.dispose, Serial.assign -> old.dispose, ...).  The direct calls are
replayed through the Lean heap model (`Pipe.run`), whose own propagation must reproduce, at every quiescent
point, the `is_disposed` flags of every real object.
"""
from __future__ import annotations

import contextlib


class Tracer:
    def __init__(self):
        self.objs = []          # keep every tracked object alive (ids stay unique)
        self.index = {}         # id(obj) -> node index
        self.kinds = []
        self.ops = []           # direct ops: ["new",kind,items] | ["add",c,x] | ... | ["chk", flags]
        self.stack = []         # "container" | "action"
        self.foreign_done = set()
        self.rejected = 0

    # -- registration
    def node(self, obj, kind=None, items=()):
        i = self.index.get(id(obj))
        if i is None:
            i = len(self.objs)
            self.objs.append(obj)
            self.index[id(obj)] = i
            k = kind or self.kind_of(obj)
            self.kinds.append(k)
            self.ops.append(["new", k, list(items)])
        return i

    def kind_of(self, obj):
        n = type(obj).__name__
        return {"CompositeDisposable": "comp", "SerialDisposable": "serial", "SingleAssignmentDisposable": "single",
                "MultipleAssignmentDisposable": "multi", "RefCountDisposable": "refcount", "InnerDisposable": "inner"}.get(n, "leaf")

    def direct(self, depth=2):
        """a call is *propagated* iff its immediate caller is code of the disposable classes themselves"""
        import sys
        f = sys._getframe(depth)
        fn = f.f_code.co_filename.replace("\\", "/")
        # ScheduledDisposable is not a container of the model: its constructor and its scheduled action are ordinary callers
        return "/reactivex/disposable/" not in fn or fn.endswith("scheduleddisposable.py")

    # -- flags of the real objects
    def flags(self):
        done, rel = [], []
        for i, o in enumerate(self.objs):
            k = self.kinds[i]
            if k == "refcount":
                done.append(bool(o.is_primary_disposed))
                rel.append(bool(o.is_disposed))
            elif k == "inner":
                done.append(o.parent is None)
                rel.append(False)
            elif k == "leaf":
                if type(o).__name__ in ("Disposable", "BooleanDisposable"):
                    done.append(bool(o.is_disposed))
                elif type(o).__name__ == "ScheduledDisposable":
                    done.append(i in self.foreign_done)
                else:
                    done.append(None)   # foreign disposable (not a library container): its state is not observable
                rel.append(False)
            else:
                done.append(bool(o.is_disposed))
                rel.append(False)
        return done, rel

    def checkpoint(self):
        if not self.stack:
            d, r = self.flags()
            self.ops.append(["chk", d, r])


@contextlib.contextmanager
def tracing():
    """Patch the disposable classes; yields the Tracer. Restores the classes afterwards."""
    from reactivex.disposable import (BooleanDisposable, CompositeDisposable, Disposable, MultipleAssignmentDisposable,
                                      RefCountDisposable, ScheduledDisposable, SerialDisposable, SingleAssignmentDisposable)

    tr = Tracer()
    saved = []

    def patch(cls, name, fn):
        saved.append((cls, name, cls.__dict__[name]))
        setattr(cls, name, fn)

    def wrap_container(cls, name, record):
        orig = cls.__dict__[name]

        def w(self, *a):
            is_direct = tr.direct()
            if is_direct:
                record(self, *a)
            tr.stack.append("container")
            try:
                return orig(self, *a)
            except Exception:
                if is_direct and name == "set_disposable":
                    tr.ops.append(["rejected"])
                raise
            finally:
                tr.stack.pop()
                tr.checkpoint()
        patch(cls, name, w)

    # constructors: register nodes with their initial items
    def wrap_init(cls, kind, items_of):
        orig = cls.__dict__["__init__"]

        def w(self, *a, **kw):
            orig(self, *a, **kw)
            tr.node(self, kind, [tr.node(x) for x in items_of(self, *a, **kw)])
        patch(cls, "__init__", w)

    wrap_init(CompositeDisposable, "comp", lambda self, *a: list(self.disposable))
    wrap_init(SerialDisposable, "serial", lambda self: [])
    wrap_init(SingleAssignmentDisposable, "single", lambda self: [])
    wrap_init(MultipleAssignmentDisposable, "multi", lambda self: [])
    wrap_init(RefCountDisposable, "refcount", lambda self, d: [d])
    wrap_init(Disposable, "leaf", lambda self, action=None: [])
    wrap_init(BooleanDisposable, "leaf", lambda self: [])

    wrap_container(CompositeDisposable, "add", lambda s, x: tr.ops.append(["add", tr.node(s), tr.node(x)]))
    wrap_container(CompositeDisposable, "remove", lambda s, x: tr.ops.append(["remove", tr.node(s), tr.node(x)]))
    wrap_container(CompositeDisposable, "clear", lambda s: tr.ops.append(["clear", tr.node(s)]))
    wrap_container(CompositeDisposable, "dispose", lambda s: tr.ops.append(["dispose", tr.node(s)]))
    for cls in (SerialDisposable, SingleAssignmentDisposable, MultipleAssignmentDisposable):
        wrap_container(cls, "set_disposable", lambda s, x: tr.ops.append(["assign", tr.node(s), tr.node(x)]))
        # the property object captured the original function: rebuild it
        saved.append((cls, "disposable", cls.__dict__["disposable"]))
        cls.disposable = property(cls.__dict__["get_disposable"], cls.__dict__["set_disposable"])
        wrap_container(cls, "dispose", lambda s: tr.ops.append(["dispose", tr.node(s)]))
    wrap_container(RefCountDisposable, "dispose", lambda s: tr.ops.append(["dispose", tr.node(s)]))
    wrap_container(RefCountDisposable.InnerDisposable, "dispose", lambda s: tr.ops.append(["dispose", tr.node(s)]))

    # RefCountDisposable.disposable (property): hands out a dependent
    rc_prop = RefCountDisposable.__dict__["disposable"]
    saved.append((RefCountDisposable, "disposable", rc_prop))

    def rc_get(self):
        tr.stack.append("container")
        try:
            r = rc_prop.fget(self)
        finally:
            tr.stack.pop()
        # the fresh object (inner, or an inert Disposable registered by its __init__) becomes the result of getInner
        if id(r) in tr.index and tr.index[id(r)] == len(tr.objs) - 1 and tr.ops[-1][0] == "new":
            tr.ops.pop()          # drop the "new leaf" logged by Disposable.__init__; getInner allocates it in the model
            tr.ops.append(["getInner", tr.node(self)])
        else:
            i = len(tr.objs)
            tr.objs.append(r)
            tr.index[id(r)] = i
            tr.kinds.append("inner")
            tr.ops.append(["getInner", tr.node(self)])
        return r
    RefCountDisposable.disposable = property(rc_get)

    # leaves: Disposable(action) runs user/operator code -> calls inside are direct
    def wrap_action(cls, name):
        orig = cls.__dict__[name]

        def w(self):
            if tr.direct():
                tr.ops.append(["dispose", tr.node(self)])
            i = tr.node(self)
            tr.foreign_done.add(i)
            tr.stack.append("action")
            try:
                return orig(self)
            finally:
                tr.stack.pop()
                tr.checkpoint()
        patch(cls, name, w)

    wrap_action(Disposable, "dispose")
    wrap_action(BooleanDisposable, "dispose")
    wrap_action(ScheduledDisposable, "dispose")
    try:
        yield tr
    finally:
        for cls, name, val in reversed(saved):
            setattr(cls, name, val)


def to_request(tr):
    return {"op": "heap_trace", "ops": tr.ops}


def expected_response(tr):
    """what the model must answer: the flags at every checkpoint, and the rejected count"""
    return {"chk": [[o[1], o[2]] for o in tr.ops if o[0] == "chk"], "rejected": sum(1 for o in tr.ops if o[0] == "rejected")}

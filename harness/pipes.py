"""Generated operator pipelines over logged test sources (shared by C02, C03 and other pipeline-level oracles).

A case is {"sources": [{"hot": bool, "msgs": [[t, notif]..]}..], "stages": [[name, n, src_index], ..]} ; all
windows/groups are flattened inside the pipeline (merge_all / flat_map(to_list)), so the subscriber owns no
group/window observable after the pipeline's terminal.
"""
from __future__ import annotations

from fw import InjectedError, enc, err_name

# stage name -> (uses other source?, description)
STAGES = {
    # element-wise (C05)
    "map": 0, "filter": 0, "take": 0, "skip": 0, "take_while": 0, "skip_while": 0, "distinct": 0,
    "distinct_until_changed": 0, "pairwise": 0, "start_with": 0, "default_if_empty": 0, "ignore_elements": 0,
    "take_last": 0, "skip_last": 0, "take_last_buffer": 0, "element_at_or_default": 0, "find": 0, "map_indexed": 0,
    "materialize_dematerialize": 0, "as_observable": 0, "slice": 0,
    # aggregates (C06)
    "reduce": 0, "scan": 0, "count": 0, "sum": 0, "average": 0, "min": 0, "max_by": 0, "to_list": 0, "to_set": 0,
    "to_dict": 0, "first": 0, "first_or_default": 0, "last": 0, "last_or_default": 0, "single_or_default": 0,
    "all": 0, "some": 0, "contains": 0, "is_empty": 0, "sequence_equal": 1,
    # sequential (C10)
    "concat": 1, "catch": 1, "catch_handler": 1, "on_error_resume_next": 1, "oern_factory": 1, "repeat": 0, "retry": 0, "while_do": 0, "do_while": 0,
    # merge / switch / combine (C11-C13)
    "merge": 1, "merge_maxc": 1, "flat_map": 1, "concat_map": 1, "switch_map": 1, "zip": 1, "zip_iterable": 0,
    "combine_latest": 1, "with_latest_from": 1, "fork_join": 1, "amb": 1,
    "take_until": 1, "skip_until": 1, "sample_obs": 1,
    # timed (C15-C17)
    "delay": 0, "delay_subscription": 0, "delay_with_mapper": 1, "timestamp": 0, "time_interval": 0,
    "debounce": 0, "throttle_first": 0, "throttle_with_mapper": 1, "sample_time": 0,
    "take_with_time": 0, "skip_with_time": 0, "take_until_with_time": 0, "skip_until_with_time": 0,
    "take_last_with_time": 0, "skip_last_with_time": 0, "timeout": 1, "timeout_fail": 0, "timeout_with_mapper": 1,
    # windows / buffers / groups (C18, C19)
    "window_count": 0, "buffer_count": 0, "window_time": 0, "buffer_time": 0, "window_time_or_count": 0,
    "buffer_time_or_count": 0, "window_boundaries": 1, "buffer_boundaries": 1, "window_when": 1, "buffer_when": 1,
    "window_toggle": 1, "group_by": 0, "group_by_until": 1, "group_by_until_self": 0, "window_count_skipwin": 0, "window_boundaries_skipwin": 1, "partition_merge": 0, "group_join_count": 1, "join": 1,
    # multicast (C24), resources (C40), schedulers
    "share": 0, "publish_ref_count": 0, "replay_ref_count": 0, "publish_value_ref_count": 0, "publish_mapper": 0,
    "using": 0, "finally_action": 0, "finally_raises": 0, "do_action": 0, "do_finally": 0, "do_on_dispose": 0,
    "observe_on": 0, "subscribe_on": 0, "expand_take": 1, "exclusive": 1,
}
STAGE_NAMES = sorted(STAGES)
TERMINATORS = ["take", "first", "take_while", "take_until", "element_at_or_default", "amb", "first_or_default", "some", "contains", "timeout_fail"]


def gen_source(rng, hot, allow_never=True):
    t = 200 if hot else 0
    msgs = []
    n = rng.choice([0, 1, 2, 3, 4, 5])
    for _ in range(n):
        t += rng.choice([0, 5, 10, 10, 20, 30])
        msgs.append([t, ["N", rng.choice([0, 1, 2, 3, 1, 2])]])
    r = rng.random()
    t += rng.choice([0, 5, 10, 20])
    if r < 0.6:
        msgs.append([t, ["C"]])
    elif r < 0.8:
        msgs.append([t, ["E", f"s{rng.randrange(3)}"]])
    elif not allow_never:
        msgs.append([t, ["C"]])
    return {"hot": hot, "msgs": msgs}


def _no_sibling_after_failing_cleanup(stages):
    """A `finally_raises` stage makes the disposal of its branch raise.  CompositeDisposable.dispose (and Serial/ADO disposal) is
    not exception-safe: a child whose dispose raises aborts the loop, so sibling subscriptions released AFTER it in the same
    container stay open.  That is outside what C02/C03 quantify over (raising cleanup callbacks), so such a stage is only followed
    by stages that open no further source subscription."""
    seen = False
    for st in stages:
        if seen and STAGES.get(st[0], 0) >= 1:
            st[0] = "take"
        if st[0] == "finally_raises":
            seen = True
    return stages


def gen_case(rng, max_stages=3, names=None):
    names = names or STAGE_NAMES
    nsrc = 4
    stages = []
    for _ in range(rng.randrange(1, max_stages + 1)):
        s = rng.choice(names)
        stages.append([s, rng.randrange(0, 4), rng.randrange(1, nsrc)])
    if rng.random() < 0.3:   # early termination patterns (take/first/amb/take_until/…) at the end of the pipeline
        stages.append([rng.choice(TERMINATORS), rng.randrange(0, 4), rng.randrange(1, nsrc)])
    return {"sources": [gen_source(rng, rng.random() < 0.5) for _ in range(nsrc)], "stages": _no_sibling_after_failing_cleanup(stages)}


def gen_systematic(rng, per_stage=3):
    """every stage kind, alone and followed by an early terminator (so rare stage/terminator pairs are always exercised)"""
    for name in STAGE_NAMES:
        for k in range(per_stage):
            c = gen_case(rng, 1, [name])
            c["stages"] = c["stages"][:1]
            if k:
                c["stages"].append([rng.choice(TERMINATORS[:4]), rng.randrange(1, 4), rng.randrange(1, 4)])
            _no_sibling_after_failing_cleanup(c["stages"])
            yield c


class Recorder:
    def __init__(self, sched):
        self.sched = sched
        self.log = []

    def on_next(self, v):
        self.log.append([int(self.sched.clock), ["N", _plain(v)]])

    def on_error(self, e):
        self.log.append([int(self.sched.clock), ["E", err_name(e)]])

    def on_completed(self):
        self.log.append([int(self.sched.clock), ["C"]])


def _plain(v):
    try:
        e = enc(v)
    except Exception:
        return "obj"
    import json
    s = json.dumps(e)
    return e if len(s) < 200 and ".obj" not in s else "obj"


class Built:
    pass


def build(case, sched, callback_log=None):
    """Build the observable of `case` on TestScheduler `sched`. Returns Built(obs, sources, cb_times).
    Every user callback handed to an operator logs (virtual time, stage index) into `cb_times`."""
    import reactivex as rx
    from reactivex import operators as ops
    from reactivex.disposable import Disposable
    from reactivex.testing import ReactiveTest

    cb_times = callback_log if callback_log is not None else []

    def mk(src):
        rec = []
        for t, n in src["msgs"]:
            if n[0] == "N":
                rec.append(ReactiveTest.on_next(t, n[1]))
            elif n[0] == "C":
                rec.append(ReactiveTest.on_completed(t))
            else:
                rec.append(ReactiveTest.on_error(t, InjectedError(n[1])))
        return sched.create_hot_observable(*rec) if src["hot"] else sched.create_cold_observable(*rec)

    srcs = [mk(s) for s in case["sources"]]

    def cb(idx, f):
        def g(*a):
            cb_times.append([int(sched.clock), idx])
            return f(*a)
        return g

    o = srcs[0]
    for idx, (name, n, si) in enumerate(case["stages"]):
        other = srcs[si]
        d = 5 * n
        if name == "map": o = o.pipe(ops.map(cb(idx, lambda x: x)))
        elif name == "filter": o = o.pipe(ops.filter(cb(idx, lambda x: x != 1)))
        elif name == "take": o = o.pipe(ops.take(n))
        elif name == "skip": o = o.pipe(ops.skip(n))
        elif name == "take_while": o = o.pipe(ops.take_while(cb(idx, lambda x: x != 3)))
        elif name == "skip_while": o = o.pipe(ops.skip_while(cb(idx, lambda x: x == 1)))
        elif name == "distinct": o = o.pipe(ops.distinct(cb(idx, lambda x: x)))
        elif name == "distinct_until_changed": o = o.pipe(ops.distinct_until_changed(cb(idx, lambda x: x)))
        elif name == "pairwise": o = o.pipe(ops.pairwise(), ops.map(lambda p: p[1]))
        elif name == "start_with": o = o.pipe(ops.start_with(9))
        elif name == "default_if_empty": o = o.pipe(ops.default_if_empty(7))
        elif name == "ignore_elements": o = o.pipe(ops.ignore_elements())
        elif name == "take_last": o = o.pipe(ops.take_last(n))
        elif name == "skip_last": o = o.pipe(ops.skip_last(n))
        elif name == "take_last_buffer": o = o.pipe(ops.take_last_buffer(n), ops.map(len))
        elif name == "element_at_or_default": o = o.pipe(ops.element_at_or_default(n, 8))
        elif name == "find": o = o.pipe(ops.find(cb(idx, lambda x, i, s: x == 2)))
        elif name == "map_indexed": o = o.pipe(ops.map_indexed(cb(idx, lambda x, i: i)))
        elif name == "materialize_dematerialize": o = o.pipe(ops.materialize(), ops.dematerialize())
        elif name == "as_observable": o = o.pipe(ops.as_observable())
        elif name == "slice": o = o.pipe(ops.slice(n - 2, None if n == 0 else n + 1, 1 + n % 2))
        elif name == "reduce": o = o.pipe(ops.reduce(cb(idx, lambda a, x: x), 0))
        elif name == "scan": o = o.pipe(ops.scan(cb(idx, lambda a, x: x), 0))
        elif name == "count": o = o.pipe(ops.count())
        elif name == "sum": o = o.pipe(ops.map(lambda x: 1), ops.sum())
        elif name == "average": o = o.pipe(ops.map(lambda x: 1), ops.average())
        elif name == "min": o = o.pipe(ops.map(lambda x: 1), ops.min())
        elif name == "max_by": o = o.pipe(ops.max_by(cb(idx, lambda x: 1)), ops.map(len))
        elif name == "to_list": o = o.pipe(ops.to_list(), ops.map(len))
        elif name == "to_set": o = o.pipe(ops.map(lambda x: 1), ops.to_set(), ops.map(len))
        elif name == "to_dict": o = o.pipe(ops.to_dict(cb(idx, lambda x: 1)), ops.map(len))
        elif name == "first": o = o.pipe(ops.first())
        elif name == "first_or_default": o = o.pipe(ops.first_or_default(None, 5))
        elif name == "last": o = o.pipe(ops.last())
        elif name == "last_or_default": o = o.pipe(ops.last_or_default(5))
        elif name == "single_or_default": o = o.pipe(ops.single_or_default(None, 5))
        elif name == "all": o = o.pipe(ops.all(cb(idx, lambda x: x != 3)))
        elif name == "some": o = o.pipe(ops.some(cb(idx, lambda x: x == 2)))
        elif name == "contains": o = o.pipe(ops.contains(2))
        elif name == "is_empty": o = o.pipe(ops.is_empty())
        elif name == "sequence_equal": o = o.pipe(ops.sequence_equal(other))
        elif name == "concat": o = o.pipe(ops.concat(other))
        elif name == "catch": o = o.pipe(ops.catch(other))
        elif name == "catch_handler": o = o.pipe(ops.catch(cb(idx, lambda e, s: other)))
        elif name == "on_error_resume_next": o = o.pipe(ops.on_error_resume_next(other))
        elif name == "oern_factory": o = rx.on_error_resume_next(o, cb(idx, lambda e, other=other: other), cb(idx, lambda e: rx.empty()))
        elif name == "repeat": o = o.pipe(ops.repeat(n + 1))
        elif name == "retry": o = o.pipe(ops.retry(n + 1))
        elif name == "while_do":
            cnt = [0]
            def cond(_, cnt=cnt, n=n):
                cnt[0] += 1
                return cnt[0] <= n
            o = o.pipe(ops.while_do(cb(idx, cond)))
        elif name == "do_while":
            cnt2 = [0]
            def cond2(_, cnt=cnt2, n=n):
                cnt[0] += 1
                return cnt[0] <= n
            o = o.pipe(ops.do_while(cb(idx, cond2)))
        elif name == "merge": o = o.pipe(ops.merge(other))
        elif name == "merge_maxc": o = o.pipe(ops.map(lambda x: other), ops.merge(max_concurrent=1 + n % 2))
        elif name == "flat_map": o = o.pipe(ops.flat_map(cb(idx, lambda x: other)))
        elif name == "concat_map": o = o.pipe(ops.concat_map(cb(idx, lambda x: other)))
        elif name == "switch_map": o = o.pipe(ops.switch_map(cb(idx, lambda x: other)))
        elif name == "zip": o = o.pipe(ops.zip(other), ops.map(lambda t: t[0]))
        elif name == "zip_iterable": o = o.pipe(ops.zip_with_iterable([1, 2, 3][: n + 1]), ops.map(lambda t: t[0]))
        elif name == "combine_latest": o = o.pipe(ops.combine_latest(other), ops.map(lambda t: t[0]))
        elif name == "with_latest_from": o = o.pipe(ops.with_latest_from(other), ops.map(lambda t: t[0]))
        elif name == "fork_join": o = o.pipe(ops.fork_join(other), ops.map(lambda t: t[0]))
        elif name == "amb": o = o.pipe(ops.amb(other))
        elif name == "take_until": o = o.pipe(ops.take_until(other))
        elif name == "skip_until": o = o.pipe(ops.skip_until(other))
        elif name == "sample_obs": o = o.pipe(ops.sample(other))
        elif name == "delay": o = o.pipe(ops.delay(d))
        elif name == "delay_subscription": o = o.pipe(ops.delay_subscription(d))
        elif name == "delay_with_mapper": o = o.pipe(ops.delay_with_mapper(None, cb(idx, lambda x: other)))
        elif name == "timestamp": o = o.pipe(ops.timestamp(), ops.map(lambda t: t.value))
        elif name == "time_interval": o = o.pipe(ops.time_interval(), ops.map(lambda t: t.value))
        elif name == "debounce": o = o.pipe(ops.debounce(d))
        elif name == "throttle_first": o = o.pipe(ops.throttle_first(d))
        elif name == "throttle_with_mapper": o = o.pipe(ops.throttle_with_mapper(cb(idx, lambda x: other)))
        elif name == "sample_time": o = o.pipe(ops.sample(10 + d), ops.take(6))
        elif name == "take_with_time": o = o.pipe(ops.take_with_time(10 * n))
        elif name == "skip_with_time": o = o.pipe(ops.skip_with_time(10 * n))
        elif name == "take_until_with_time": o = o.pipe(ops.take_until_with_time(230 + 10 * n))
        elif name == "skip_until_with_time": o = o.pipe(ops.skip_until_with_time(230 + 10 * n))
        elif name == "take_last_with_time": o = o.pipe(ops.take_last_with_time(10 * n))
        elif name == "skip_last_with_time": o = o.pipe(ops.skip_last_with_time(10 * n))
        elif name == "timeout": o = o.pipe(ops.timeout(10 + 10 * n, other))
        elif name == "timeout_fail": o = o.pipe(ops.timeout(10 + 10 * n))
        elif name == "timeout_with_mapper": o = o.pipe(ops.timeout_with_mapper(other, cb(idx, lambda x: other), other))
        elif name == "window_count": o = o.pipe(ops.window_with_count(n + 1, 1 + (n * 2) % 3), ops.merge_all())
        elif name == "buffer_count": o = o.pipe(ops.buffer_with_count(n + 1, 1 + (n * 2) % 3), ops.map(len))
        elif name == "window_time": o = o.pipe(ops.window_with_time(20 + d, 10 + d), ops.take(8), ops.merge_all())
        elif name == "buffer_time": o = o.pipe(ops.buffer_with_time(20 + d, 10 + d), ops.take(8), ops.map(len))
        elif name == "window_time_or_count": o = o.pipe(ops.window_with_time_or_count(20 + d, n + 1), ops.take(8), ops.merge_all())
        elif name == "buffer_time_or_count": o = o.pipe(ops.buffer_with_time_or_count(20 + d, n + 1), ops.take(8), ops.map(len))
        elif name == "window_boundaries": o = o.pipe(ops.window(other), ops.merge_all())
        elif name == "buffer_boundaries": o = o.pipe(ops.buffer(other), ops.map(len))
        elif name == "window_when": o = o.pipe(ops.window_when(cb(idx, lambda: other)), ops.take(8), ops.merge_all())
        elif name == "buffer_when": o = o.pipe(ops.buffer_when(cb(idx, lambda: other)), ops.take(8), ops.map(len))
        elif name == "window_toggle": o = o.pipe(ops.window_toggle(other, cb(idx, lambda x: rx.timer(15))), ops.merge_all())
        elif name == "group_by": o = o.pipe(ops.group_by(cb(idx, lambda x: x == 1)), ops.merge_all())
        elif name == "group_by_until": o = o.pipe(ops.group_by_until(cb(idx, lambda x: x == 1), None, cb(idx, lambda g: other)), ops.merge_all())
        elif name == "group_by_until_self":   # duration derived from the group itself
            o = o.pipe(ops.group_by_until(cb(idx, lambda x: x == 1), None, cb(idx, lambda g, n=n: g.pipe(ops.skip(n)))), ops.merge_all())
        elif name == "window_count_skipwin":   # some windows are handed out but never subscribed
            o = o.pipe(ops.window_with_count(n + 1), ops.skip(1), ops.merge_all())
        elif name == "window_boundaries_skipwin":
            o = o.pipe(ops.window(other), ops.filter_indexed(lambda w, i: i % 2 == 1), ops.merge_all())
        elif name == "partition_merge":
            a, b = o.pipe(ops.partition(cb(idx, lambda x: x == 1)))
            o = rx.merge(a, b)
        elif name == "group_join_count":
            o = o.pipe(ops.group_join(other, cb(idx, lambda x: rx.timer(15)), cb(idx, lambda y: rx.timer(5))), ops.flat_map(lambda t: t[1].pipe(ops.count())))
        elif name == "join":
            o = o.pipe(ops.join(other, cb(idx, lambda x: rx.timer(15)), cb(idx, lambda y: rx.timer(5))), ops.map(lambda t: t[0]))
        elif name == "share": o = o.pipe(ops.share())
        elif name == "publish_ref_count": o = o.pipe(ops.publish(), ops.ref_count())
        elif name == "replay_ref_count": o = o.pipe(ops.replay(buffer_size=2), ops.ref_count())
        elif name == "publish_value_ref_count": o = o.pipe(ops.publish_value(6), ops.ref_count())
        elif name == "publish_mapper": o = o.pipe(ops.publish(cb(idx, lambda s: s.pipe(ops.merge(s)))))
        elif name == "using":
            inner = o
            o = rx.using(cb(idx, lambda: Disposable()), cb(idx, lambda r, inner=inner: inner))
        elif name == "finally_action": o = o.pipe(ops.finally_action(lambda: None))
        elif name == "finally_raises":
            # a cleanup callback that fails on its first call: the source subscription must be released all the same
            first = [True]

            def failing_cleanup(first=first):
                if first[0]:
                    first[0] = False
                    raise SubscriberFailure("finally action failed")
            o = o.pipe(ops.finally_action(failing_cleanup))
        elif name == "do_action": o = o.pipe(ops.do_action(cb(idx, lambda x: None)))
        elif name == "do_finally":
            from reactivex.operators import _do
            o = _do.do_finally(lambda: None)(o)
        elif name == "do_on_dispose":
            from reactivex.operators import _do
            o = _do.do_on_dispose(o, lambda: None)
        elif name == "observe_on": o = o.pipe(ops.observe_on(sched))
        elif name == "subscribe_on": o = o.pipe(ops.subscribe_on(sched))
        elif name == "expand_take": o = o.pipe(ops.expand(cb(idx, lambda x: other)), ops.take(10))
        elif name == "exclusive": o = o.pipe(ops.map(lambda x: other), ops.exclusive())
        else:
            raise ValueError(name)
    b = Built()
    b.obs, b.sources, b.cb_times = o, srcs, cb_times
    return b


def run(case, dispose_at=None, dispose_early=False, horizon=2000, subscribe_at=200, dispose_in=None, sub_raises=False):
    """Run one case on a fresh TestScheduler. Returns recorder log, per-source subscription lists, callback times,
    exceptions that escaped into the scheduler, and (if disposing) the dispose time."""
    from reactivex.testing import TestScheduler

    sched = TestScheduler()
    handle = {}
    escaped = []
    if dispose_at is not None and dispose_early:
        # scheduled before the hot sources are created -> runs before same-instant source notifications
        sched.schedule_absolute(dispose_at, lambda s, st: _do_dispose(handle, sched))
    b = build(case, sched)
    rec = Recorder(sched)

    seen = [0]

    def hooked(f):
        # dispose_in = k: the subscriber disposes its subscription from INSIDE its k-th notification (re-entrant dispose)
        def g(*a):
            f(*a)
            if dispose_in is not None and seen[0] == dispose_in:
                _do_dispose(handle, sched)
            seen[0] += 1
        return g

    def raising(f):
        # sub_raises: the subscriber's terminal handler raises after having received the notification
        def g(*a):
            f(*a)
            raise SubscriberFailure("subscriber's terminal handler failed")
        return g

    def sub(s, st):
        on_e, on_c = hooked(rec.on_error), hooked(rec.on_completed)
        if sub_raises:
            on_e, on_c = raising(on_e), raising(on_c)
        try:
            handle["d"] = b.obs.subscribe(hooked(rec.on_next), on_e, on_c, scheduler=sched)
        except SubscriberFailure:
            escaped.append("SubscriberFailure")   # the terminal was delivered inside subscribe()
        if handle.get("pending"):
            handle["d"].dispose()
            handle["disposed_at"] = int(sched.clock)
            handle["log_len"] = len(rec.log)
            handle["cb_len"] = len(b.cb_times)

    sched.schedule_absolute(subscribe_at, sub)
    handle["rec"], handle["b"] = rec, b
    if dispose_at is not None and not dispose_early:
        sched.schedule_absolute(dispose_at, lambda s, st: _do_dispose(handle, sched))
    for _ in range(50):
        try:
            sched.advance_to(horizon)
            break
        except Exception as e:  # exceptions escaping into the scheduler are C09's business; keep running
            escaped.append(err_name(e))
            sched._is_enabled = False   # the scheduler stays "enabled" after an escaped exception; reset so the run continues
    out = {
        "log": rec.log,
        "subs": [[[int(s.subscribe), (None if s.unsubscribe >= 2 ** 62 else int(s.unsubscribe))] for s in src.subscriptions] for src in b.sources],
        "cb_times": b.cb_times,
        "escaped": escaped[:5],
        "queue_left": len(sched.queue) if hasattr(sched, "queue") else 0,
    }
    if dispose_at is not None or dispose_in is not None:
        out["disposed_at"] = handle.get("disposed_at")
        out["log_len_at_dispose"] = handle.get("log_len")
        out["cb_len_at_dispose"] = handle.get("cb_len")
    return out


class SubscriberFailure(Exception):
    pass


def _do_dispose(handle, sched):
    if "d" not in handle:
        handle["pending"] = True  # dispose requested before the subscription exists: dispose right after subscribe
        return
    handle["d"].dispose()
    handle["disposed_at"] = int(sched.clock)
    handle["log_len"] = len(handle["rec"].log)
    handle["cb_len"] = len(handle["b"].cb_times)


def event_times(out, subscribe_at=200):
    ts = {subscribe_at}
    for t, _ in out["log"]:
        ts.add(t)
    for subs in out["subs"]:
        for a, b in subs:
            ts.add(a)
            if b is not None:
                ts.add(b)
    for t, _ in out["cb_times"]:
        ts.add(t)
    return sorted(ts)

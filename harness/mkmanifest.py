"""Regenerate /verif/MANIFEST.json from the property modules (run after adding/changing a property module)."""
import importlib
import json
import sys
from pathlib import Path

sys.path.insert(0, str(Path(__file__).resolve().parent))
import fw  # noqa

VERIF = Path(__file__).resolve().parent.parent
props = [json.loads(l) for l in (VERIF / "properties.jsonl").read_text().splitlines() if l.strip()]
checks, na = [], []
pending = json.loads((VERIF / "harness" / "not_claimed.json").read_text())
claimed = set(json.loads((VERIF / "harness" / "claimed.json").read_text()))
for p in props:
    pid = p["id"]
    f = VERIF / "harness" / "props" / f"{pid}.py"
    if not f.exists() or pid in pending or pid not in claimed:
        na.append({"property_id": pid, "reason": pending.get(pid, "check not built yet (see DESIGN.md §10 build order)")})
        continue
    mod = importlib.import_module(f"props.{pid}")
    checks.append({
        "property_id": pid,
        "quick_cmd": f"./check {pid} --tier quick",
        "thorough_cmd": f"./check {pid} --tier thorough",
        "evidence_file": f"evidence/{pid}.json",
        "replay_cmd_template": f"./check {pid} --replay {{path}}",
        "engine": "lean4-proof+correspondence",
        "level_claimed": {"category": "proof", "text": mod.LEVEL_TEXT, "design_ref": f"DESIGN.md §5 {pid}"},
        "level_note": mod.LEVEL_NOTE,
        "technique": getattr(mod, "TECHNIQUE", "Lean 4 theorems about a hand-written executable model; differential correspondence model vs implementation on every run"),
    })
man = {
    "version": 1,
    "setup_cmd": "./setup.sh",
    "hooks": {
        "guard": "REACTIVEX_RXPY_VERIF",
        "enable": "no source hooks: instrumentation is monkey-patched from the harness process (locks, timers, clocks); the harness sets REACTIVEX_RXPY_VERIF=1 for completeness",
        "baseline_off_cmd": "cd /repo && env -u REACTIVEX_RXPY_VERIF /venv/bin/python -m pytest -ra -q -p no:cacheprovider --timeout=900 --continue-on-collection-errors",
        "source_commits": [],
        "add_only": True,
    },
    "engines": [
        {"name": "lean4-proof+correspondence", "path": "lean/ + harness/",
         "serves_properties": [c["property_id"] for c in checks],
         "kind_free_text": "Lean 4 (4.33.0) machine-checked theorems over hand-written executable models and over tables regenerated from /repo by AST translators; "
                           "every run rebuilds the proofs, audits axioms, and differentially executes model and implementation on generated cases (compiled lean_exe drivers, JSON line protocol)"}
    ],
    "checks": checks,
    "not_applicable": na,
    "notes": "Exit codes: 0 held, 1 violation (VIOLATION line), 2 harness error/timeout (never a violation). VERIF_SEED seeds all random choices. Known findings: known_findings.json.",
}
(VERIF / "MANIFEST.json").write_text(json.dumps(man, indent=1) + "\n")
print(f"{len(checks)} checks, {len(na)} not claimed")

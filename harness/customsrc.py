"""User-defined sources (reactivex.create / Observable(subscribe)) whose subscribe function returns its teardown in one of the forms
the library accepts (Observable.subscribe: fix_subscriber): a Disposable, any object with .dispose, None, or any callable.
C02/C03: the teardown runs exactly once — when the subscriber's terminal is delivered, or when dispose() is called — for every form.

case = {"op": "custom", "form": F, "ctor": "create"|"Observable", "stages": [...], "n": elements pushed, "end": "C"|"E"|None,
        "dispose_after": k | None}   # dispose from the main program after k pushed elements (None = never)
"""
from __future__ import annotations

import functools

FORMS = ["disposable", "obj_with_dispose", "def", "lambda", "bound_method", "partial", "callable_object", "builtin_method", "none"]
STAGES = ["map", "filter", "take2", "scan", "merge_never", "share", "do", "start_with"]


class _Res:
    def __init__(self, log):
        self.log = log

    def close(self):
        self.log.append("teardown")

    def __call__(self):
        self.log.append("teardown")


class _HasDispose:
    def __init__(self, log):
        self.log = log

    def dispose(self):
        self.log.append("teardown")


def run(case):
    import reactivex as rx
    from reactivex import Observable
    from reactivex import operators as ops
    from reactivex.disposable import Disposable

    log = []            # "teardown" entries and ("N"/"E"/"C", ...) notifications
    sinks = []
    form = case["form"]

    def subscribe(observer, scheduler=None):
        sinks.append(observer)
        res = _Res(log)
        if form == "disposable":
            return Disposable(res.close)
        if form == "obj_with_dispose":
            return _HasDispose(log)
        if form == "def":
            def teardown():
                log.append("teardown")
            return teardown
        if form == "lambda":
            return lambda: log.append("teardown")
        if form == "bound_method":
            return res.close
        if form == "partial":
            return functools.partial(log.append, "teardown")
        if form == "callable_object":
            return res
        return None

    if form == "builtin_method":
        # a builtin bound method taking no argument: list.clear of a marker list whose emptiness we watch
        marker = ["open"]

        def subscribe(observer, scheduler=None):  # noqa: F811
            sinks.append(observer)
            return marker.clear
    src = rx.create(subscribe) if case["ctor"] == "create" else Observable(subscribe)
    o = src
    for st in case["stages"]:
        o = o.pipe({"map": ops.map(lambda x: x), "filter": ops.filter(lambda x: True), "take2": ops.take(2), "scan": ops.scan(lambda a, x: x, 0),
                    "merge_never": ops.merge(rx.never()), "share": ops.share(), "do": ops.do_action(lambda x: None),
                    "start_with": ops.start_with(-1)}[st])
    got = []
    d = o.subscribe(lambda v: got.append(["N", v]), lambda e: got.append(["E", type(e).__name__]), lambda: got.append(["C"]))
    disposed = False
    for i in range(case["n"]):
        if case.get("dispose_after") is not None and i == case["dispose_after"] and not disposed:
            d.dispose()
            disposed = True
        for s in list(sinks):
            s.on_next(i)
    if case.get("dispose_after") is not None and not disposed:
        d.dispose()
        disposed = True
    if case["end"] == "C":
        for s in list(sinks):
            s.on_completed()
    elif case["end"] == "E":
        for s in list(sinks):
            s.on_error(ValueError("end"))
    n_td = log.count("teardown") if form != "builtin_method" else (1 if not marker else 0)
    return {"teardowns": n_td, "got": got, "disposed": disposed, "subscribed": len(sinks)}


def oracle(case, out):
    ended = out["disposed"] or any(g[0] in ("E", "C") for g in out["got"])
    if not ended or case["form"] == "none" or out["subscribed"] == 0:
        return None
    want = out["subscribed"]
    if case["form"] == "builtin_method":
        want = 1
    if out["teardowns"] != want:
        return (f"teardown returned as {case['form']} ran {out['teardowns']} time(s) for {out['subscribed']} source subscription(s) "
                f"after the subscription ended ({'dispose()' if out['disposed'] else 'terminal'})")
    return None


def gen(rng):
    return {"op": "custom", "form": rng.choice(FORMS), "ctor": rng.choice(["create", "Observable"]),
            "stages": [rng.choice(STAGES) for _ in range(rng.randrange(0, 3))], "n": rng.randrange(0, 4),
            "end": rng.choice(["C", "E", None]), "dispose_after": rng.choice([None, None, 0, 1, 2])}

"""Wall-clock watchdog for ./check: after LIMIT seconds kill the process group led by PID (the check's own session)."""
import os
import signal
import sys
import time

pid, limit = int(sys.argv[1]), float(sys.argv[2])
end = time.time() + limit
while time.time() < end:
    time.sleep(min(1.0, max(0.0, end - time.time())))
    try:
        os.kill(pid, 0)
    except OSError:
        sys.exit(0)  # the check is gone
for sig in (signal.SIGTERM, signal.SIGKILL):
    try:
        os.killpg(pid, sig)
    except OSError:
        break
    time.sleep(3)

"""Shared pieces of the pipeline-level checks C02 (termination releases) and C03 (dispose silences and frees)."""
from __future__ import annotations

import json
from pathlib import Path

import fw
import heaptrace
import pipes
from xlate import ownership

_expected = {}

# operator source file stem -> pipeline stages that exercise it (for the failing-input search)
FILE_STAGES = {
    "_merge": ["merge", "merge_maxc", "flat_map", "concat_map", "window_count", "group_by", "window_time"],
    "_flatmap": ["flat_map", "concat_map", "switch_map"], "_switchlatest": ["switch_map"], "_amb": ["amb"],
    "zip": ["zip"], "_zip": ["zip_iterable", "map_indexed"], "combinelatest": ["combine_latest"], "withlatestfrom": ["with_latest_from"],
    "forkjoin": ["fork_join"], "concat": ["concat", "repeat", "while_do", "do_while"], "catch": ["catch", "retry"],
    "_catch": ["catch_handler"], "onerrorresumenext": ["on_error_resume_next", "oern_factory"],
    "_takeuntil": ["take_until"], "_skipuntil": ["skip_until"], "_sample": ["sample_obs", "sample_time"],
    "_delay": ["delay"], "_delaywithmapper": ["delay_with_mapper", "delay_subscription"], "_debounce": ["debounce", "throttle_with_mapper"],
    "_timeout": ["timeout", "timeout_fail"], "_timeoutwithmapper": ["timeout_with_mapper"],
    "_takewithtime": ["take_with_time"], "_skipwithtime": ["skip_with_time"], "_takeuntilwithtime": ["take_until_with_time"],
    "_skipuntilwithtime": ["skip_until_with_time"], "_window": ["window_boundaries", "window_when", "window_toggle", "buffer_boundaries", "buffer_when"],
    "_windowwithcount": ["window_count", "buffer_count"], "_windowwithtime": ["window_time", "buffer_time"],
    "_windowwithtimeorcount": ["window_time_or_count", "buffer_time_or_count"], "_groupbyuntil": ["group_by", "group_by_until", "group_by_until_self"], "utils": ["window_count_skipwin", "window_boundaries_skipwin", "window_count", "window_boundaries"],
    "_groupjoin": ["group_join_count", "window_toggle"], "_join": ["join"], "_multicast": ["share", "publish_ref_count", "publish_mapper"],
    "_refcount": ["share", "publish_ref_count", "replay_ref_count"], "connectableobservable": ["share", "publish_ref_count"],
    "using": ["using"], "_finallyaction": ["finally_action", "finally_raises"], "_do": ["do_action", "do_finally", "do_on_dispose"],
    "_subscribeon": ["subscribe_on"], "_observeon": ["observe_on"], "_sequenceequal": ["sequence_equal"],
    "_expand": ["expand_take"], "_exclusive": ["exclusive"], "_partition": ["partition_merge"],
}


def regenerate():
    rows = ownership.analyse(fw.REPO)
    ownership.emit_lean(rows, fw.LEAN / "RxGen" / "Ownership.lean")
    bad = [r for r in rows if r["cls"] not in ("returned", "owned", "nested_return")]
    return {"ownership_rows": len(rows), "ownership_not_owned": [f"{r['file']}:{r['recv']}.{r['callee']}:{r['cls']}" for r in bad]}


def traced_run(case):
    with heaptrace.tracing() as tr:
        out = pipes.run(case["pipeline"], dispose_at=case.get("dispose_at"), dispose_early=case.get("dispose_early", False),
                        dispose_in=case.get("dispose_in"), sub_raises=case.get("sub_raises", False))
    return out, tr


def model_request(case):
    if case["op"] != "pipeline":
        return case
    if any(st[0] == "finally_raises" for st in case["pipeline"]["stages"]):
        # a cleanup callback that raises aborts the propagation of that dispose() call half-way (the containers are not
        # exception-safe); the heap model has no raising leaves, so these cases are judged by the release oracle only
        return None
    out, tr = traced_run(case)
    if len(tr.ops) > 1500:
        return None
    _expected[fw.key(case)] = heaptrace.expected_response(tr)
    return heaptrace.to_request(tr)


def canon_model(case, resp):
    if case["op"] != "pipeline":
        return resp
    exp = _expected.get(fw.key(case))
    if exp is None or "error" in resp:
        return resp
    # mask entries whose real state is not observable (foreign disposables)
    chk = []
    for (md, mr), (rd, rr) in zip(resp["chk"], exp["chk"]):
        chk.append([[None if b is None else a for a, b in zip(md, rd)] + md[len(rd):], mr])
    return {"chk": chk + resp["chk"][len(exp["chk"]):], "rejected": resp["rejected"]}


def canon_impl(case, out):
    if case["op"] != "pipeline":
        return out
    exp = _expected.get(fw.key(case))
    return exp if exp is not None else out


def stages_for_rows(bad_rows):
    st = set()
    for r in bad_rows:
        stem = Path(r.split(":")[0]).stem
        st.update(FILE_STAGES.get(stem, []))
    return sorted(st)


# ---- from_iterable polling (C03 / C14)
def from_iter_impl(case):
    import reactivex as rx
    from reactivex import operators as ops

    xs = [fw.dec(x) for x in case["xs"]]
    pulls = [0]
    seen = []

    def gen():
        for x in xs:
            pulls[0] += 1
            yield x
        pulls[0] += 1   # the next() that raises StopIteration

    o = rx.from_iterable(gen()).pipe(ops.do_action(lambda v: seen.append(["N", fw.enc(v)]), lambda e: seen.append(["E", fw.err_name(e)]), lambda: seen.append(["C"])))
    if case.get("k") is not None:
        o = o.pipe(ops.take(case["k"] + 1))
    o.subscribe()
    return {"out": seen, "pulls": pulls[0]}

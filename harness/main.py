import argparse
import os
import sys

sys.setrecursionlimit(10000)
import fw


def main():
    ap = argparse.ArgumentParser()
    ap.add_argument("property")
    ap.add_argument("--tier", default=os.environ.get("VERIF_TIER", "quick"), choices=["quick", "thorough"])
    ap.add_argument("--replay", default=None)
    a = ap.parse_args()
    seed = int(os.environ.get("VERIF_SEED", "0") or 0)
    try:
        rc = fw.run_check(a.property, a.tier, seed, a.replay)
    except SystemExit:
        raise
    except BaseException as e:  # harness crash is never a violation
        import traceback

        traceback.print_exc()
        print(f"HARNESS-ERROR property={a.property} {type(e).__name__}: {e}")
        sys.exit(2)
    sys.exit(rc)


main()

"""Shared machinery of the RxPY verification harness.

A property check (`./check Cxx`) is:
  1. regenerate RxGen tables from /repo (if the property has translators),
  2. `lake build` the property's proof modules and its model driver,
  3. audit: `#print axioms` for every property theorem, grep for sorry/axiom/native_decide,
  4. correspondence: run the real code and the Lean model on the same generated cases, diff,
  5. oracle: the property's own oracle on the real code's outputs,
  6. verdict + evidence + replay (see DESIGN.md §2).

Property modules live in harness/props/Cxx.py and expose the attributes documented in
harness/README.md.
"""
from __future__ import annotations

import hashlib
import importlib
import json
import multiprocessing as mp
import os
import random
import re
import subprocess
import sys
import time
import traceback
from pathlib import Path

VERIF = Path(__file__).resolve().parent.parent
LEAN = VERIF / "lean"
REPO = Path(os.environ.get("VERIF_REPO", "/repo")).resolve()
os.environ.setdefault("REACTIVEX_RXPY_VERIF", "1")
if str(REPO) not in sys.path:
    sys.path.insert(0, str(REPO))

ALLOWED_AXIOMS = {"propext", "Classical.choice", "Quot.sound"}
TRUSTED_BASE = [
    "Lean 4.33.0 kernel (lake build; leanchecker in the thorough tier)",
    "axioms per theorem audited on this run: subset of {propext, Classical.choice, Quot.sound}",
    "hand-written Lean model; tied to /repo by the differential correspondence run of this check",
    "correspondence harness: generators, adapters, canonicalisation, JSON line protocol, Lean driver",
    "CPython semantics of the primitives the model abstracts (see DESIGN.md §3)",
]


# --------------------------------------------------------------------------- values
class Tup(tuple):
    pass


def enc(v):
    """Python value -> JSON-able encoding understood by Driver/Common.lean."""
    if v is None or isinstance(v, bool) or isinstance(v, str):
        return v
    if isinstance(v, int):
        return v
    if isinstance(v, float):
        return {"f": repr(v)}
    if isinstance(v, tuple):
        return {"t": [enc(x) for x in v]}
    if isinstance(v, list):
        return [enc(x) for x in v]
    if isinstance(v, dict):
        return {"d": [[enc(k), enc(x)] for k, x in v.items()]}
    if isinstance(v, (set, frozenset)):
        return {"t": [".set"] + sorted((enc(x) for x in v), key=lambda e: json.dumps(e, sort_keys=True))}
    if isinstance(v, BaseException):
        return {"t": [".exc", err_name(v)]}
    return {"t": [".obj", type(v).__name__, repr(v)]}


def dec(j):
    if j is None or isinstance(j, (bool, str, int)):
        return j
    if isinstance(j, list):
        return [dec(x) for x in j]
    if isinstance(j, dict):
        if "f" in j:
            return float(j["f"])
        if "t" in j:
            return tuple(dec(x) for x in j["t"])
        if "d" in j:
            return {hashable(dec(k)): dec(v) for k, v in j["d"]}
    raise ValueError(f"bad encoded value {j!r}")


def hashable(v):
    return v


def key(j) -> str:
    """canonical string of a JSON-able thing (type-and-repr equality)."""
    return json.dumps(j, sort_keys=True, separators=(",", ":"))


class InjectedError(Exception):
    """Exception raised by generated user callbacks / sources; carries a stable name."""

    def __init__(self, name):
        super().__init__(name)
        self.name = name

    def __eq__(self, other):
        return isinstance(other, InjectedError) and other.name == self.name

    def __hash__(self):
        return hash(self.name)


def err_name(e) -> str:
    if isinstance(e, InjectedError):
        return e.name
    return type(e).__name__


class FnTab:
    """A user callback as a finite table, evaluated identically by Python and by the Lean driver.
    json form: {"tab": [[arg, res], ...], "dflt": res}; res is an encoded value or {"raise": name}.
    n-ary callbacks are keyed on the tuple of their arguments."""

    def __init__(self, tab, dflt):
        self.tab = tab  # list of (encoded arg, encoded res)
        self.dflt = dflt
        self._idx = {key(a): r for a, r in reversed(tab)}
        self.calls = []

    def to_json(self):
        return {"tab": [[a, r] for a, r in self.tab], "dflt": self.dflt}

    @staticmethod
    def from_json(j):
        return FnTab([(a, r) for a, r in j["tab"]], j["dflt"])

    def __call__(self, *args):
        a = enc(args[0]) if len(args) == 1 else enc(tuple(args))
        self.calls.append(a)
        r = self._idx.get(key(a), self.dflt)
        if isinstance(r, dict) and "raise" in r:
            raise InjectedError(r["raise"])
        return dec(r)


# --------------------------------------------------------------------------- notifications
def notif_json(kind, value=None):
    if kind == "N":
        return ["N", enc(value)]
    if kind == "E":
        return ["E", err_name(value)]
    return ["C"]


def messages_json(messages):
    """reactivex.testing Recorded list -> [[time, ["N", v]], ...]"""
    out = []
    for m in messages:
        n = m.value
        if n.kind == "N":
            out.append([int(m.time), ["N", enc(n.value)]])
        elif n.kind == "E":
            out.append([int(m.time), ["E", err_name(n.exception)]])
        else:
            out.append([int(m.time), ["C"]])
    return out


def subs_json(subscriptions):
    INF = 9223372036854775807
    return [[int(s.subscribe), None if s.unsubscribe >= INF else int(s.unsubscribe)] for s in subscriptions]


# --------------------------------------------------------------------------- lean
def sh(cmd, cwd=None, timeout=None, input=None):
    p = subprocess.run(cmd, cwd=cwd, capture_output=True, text=True, timeout=timeout, input=input)
    return p.returncode, p.stdout, p.stderr


_BUILD_LOCK = LEAN / ".lake" / "verif-build.lock"


def lake_build(targets, timeout=3000):
    """`lake build targets…` in /verif/lean (serialised across concurrent checks). Returns (ok, log)."""
    import fcntl

    (LEAN / ".lake").mkdir(exist_ok=True)
    with open(_BUILD_LOCK, "w") as lk:
        fcntl.flock(lk, fcntl.LOCK_EX)
        try:
            rc, out, err = sh(["lake", "build", *targets], cwd=LEAN, timeout=timeout)
        finally:
            fcntl.flock(lk, fcntl.LOCK_UN)
    return rc == 0, out + err


def lean_audit(modules, theorems, tag):
    """Run `#print axioms` on every theorem; returns dict name -> set(axioms) | None (missing)."""
    d = LEAN / ".lake" / "audit"
    d.mkdir(parents=True, exist_ok=True)
    f = d / f"Audit_{tag}.lean"
    src = "".join(f"import {m}\n" for m in modules) + "".join(f"#print axioms {t}\n" for t in theorems)
    f.write_text(src)
    rc, out, err = sh(["lake", "env", "lean", str(f)], cwd=LEAN, timeout=900)
    res = {t: None for t in theorems}
    text = out + err
    for m in re.finditer(r"'([^']+)' depends on axioms: \[([^\]]*)\]", text):
        res[m.group(1)] = {a.strip() for a in m.group(2).replace("\n", " ").split(",") if a.strip()}
    for m in re.finditer(r"'([^']+)' does not depend on any axioms", text):
        res[m.group(1)] = set()
    return res, text


FORBIDDEN = re.compile(r"\b(sorry|admit|native_decide|bv_decide|implemented_by|unsafe)\b|^\s*axiom\s|maxHeartbeats\s+0")


def strip_lean_comments(src: str) -> str:
    src = re.sub(r"/-.*?-/", lambda m: "\n" * m.group(0).count("\n"), src, flags=re.S)
    src = re.sub(r"--.*", "", src)
    src = re.sub(r'"(?:[^"\\]|\\.)*"', '""', src)
    return src


def grep_forbidden(paths):
    hits = []
    for p in paths:
        for i, line in enumerate(strip_lean_comments(Path(p).read_text()).splitlines(), 1):
            if FORBIDDEN.search(line):
                hits.append(f"{Path(p).relative_to(LEAN)}:{i}: {line.strip()}")
    return hits


def lean_sources_of(modules):
    """Transitive closure of project-local imports of the given modules (files under /verif/lean)."""
    seen, todo = {}, list(modules)
    while todo:
        m = todo.pop()
        if m in seen:
            continue
        p = LEAN / (m.replace(".", "/") + ".lean")
        if not p.exists():
            continue
        seen[m] = p
        for mm in re.findall(r"^import\s+([\w.]+)", p.read_text(), flags=re.M):
            todo.append(mm)
    return seen


def run_driver(exe, requests, timeout=1200):
    """Pipe JSON requests (one per line) through a compiled model driver; return decoded responses."""
    path = LEAN / ".lake" / "build" / "bin" / exe
    data = "".join(json.dumps(r, separators=(",", ":")) + "\n" for r in requests)
    p = subprocess.run([str(path)], input=data, capture_output=True, text=True, timeout=timeout)
    lines = p.stdout.splitlines()
    if p.returncode != 0 or len(lines) != len(requests):
        raise RuntimeError(f"driver {exe}: rc={p.returncode}, {len(lines)} responses for {len(requests)} requests; stderr={p.stderr[:2000]}")
    return [json.loads(l) for l in lines]


# --------------------------------------------------------------------------- isolation
def _child(fn, args, conn):
    try:
        conn.send(("ok", fn(*args)))
    except BaseException as e:  # noqa
        conn.send(("exc", f"{type(e).__name__}: {e}\n{traceback.format_exc()}"))
    finally:
        conn.close()


def run_with_timeout(fn, args=(), timeout=10.0):
    """Run fn(*args) in a forked child; returns ("ok", result) | ("exc", text) | ("timeout", None)."""
    ctx = mp.get_context("fork")
    a, b = ctx.Pipe(duplex=False)
    p = ctx.Process(target=_child, args=(fn, args, b), daemon=True)
    p.start()
    b.close()
    try:
        if a.poll(timeout):
            try:
                r = a.recv()
            except EOFError:
                r = ("exc", "child died")
        else:
            r = ("timeout", None)
    finally:
        if p.is_alive():
            p.kill()
        p.join(5)
    return r


def _pmap_worker(args):
    modname, fname, chunk = args
    import gc

    gc.freeze()  # forked worker: do not let a full collection walk the parent's (copy-on-write) case list
    mod = importlib.import_module(modname)
    fn = getattr(mod, fname)
    out = []
    for c in chunk:
        try:
            out.append(fn(c))
        except BaseException as e:  # noqa
            out.append({"harness_exception": f"{type(e).__name__}: {e}", "tb": traceback.format_exc()[-1500:]})
    return out


def pmap(modname, fname, items, procs=None, chunk=64):
    """Order-preserving parallel map of module-level function `fname` of module `modname` over items."""
    procs = procs or min(16, os.cpu_count() or 4)
    if len(items) < 2 * chunk or procs <= 1:
        return _pmap_worker((modname, fname, items))
    chunks = [items[i : i + chunk] for i in range(0, len(items), chunk)]
    from concurrent.futures import ProcessPoolExecutor

    ctx = mp.get_context("fork")
    # ProcessPoolExecutor workers are not daemonic, so `impl` may itself fork watchdog children (run_with_timeout)
    with ProcessPoolExecutor(max_workers=procs, mp_context=ctx) as pool:
        res = list(pool.map(_pmap_worker, [(modname, fname, c) for c in chunks]))
    return [x for r in res for x in r]


# --------------------------------------------------------------------------- known findings
def load_known():
    p = VERIF / "known_findings.json"
    if not p.exists():
        return []
    return json.loads(p.read_text())["findings"]


# --------------------------------------------------------------------------- the check runner
class Failure:
    def __init__(self, kind, case, detail, finding=None):
        self.kind = kind  # "oracle" | "correspondence" | "proof"
        self.case = case
        self.detail = detail
        self.finding = finding


def tier_scale(tier, quick, thorough):
    return thorough if tier == "thorough" else quick


def run_check(pid: str, tier: str, seed: int, replay: str | None = None) -> int:
    t0 = time.time()
    modname = f"props.{pid}"
    mod = importlib.import_module(modname)
    rng = random.Random(seed * 1000003 + int(hashlib.sha1(pid.encode()).hexdigest()[:6], 16))
    lines = []  # stdout lines
    proof_failures = []  # strings
    failures: list[Failure] = []
    cov = {}

    def say(s):
        print(s, flush=True)

    # -- replay mode: run the recorded case(s) only
    if replay:
        rp = json.loads(Path(replay).read_text())
        cases = [rp["case"]] if rp.get("case") is not None else []
        for c in cases:
            out = mod.impl(c)
            verdict = mod.oracle(c, out) if hasattr(mod, "oracle") else None
            say(json.dumps({"case": c, "impl": out, "oracle": verdict}, indent=1)[:6000])
            if verdict:
                say(f"VIOLATION property={pid} replay={replay}")
                return 1
        if not cases:
            say(f"replay names a broken obligation: {rp.get('broken')}")
        return 0

    # -- 1. regenerate tables
    if hasattr(mod, "regenerate"):
        try:
            cov["regenerated"] = mod.regenerate()
        except Exception as e:  # translator failed closed
            proof_failures.append(f"translator failed: {type(e).__name__}: {e}")

    # -- 2. build
    targets = list(getattr(mod, "LEAN_TARGETS", [])) + ([mod.DRIVER] if getattr(mod, "DRIVER", None) else [])
    if tier == "thorough" and os.environ.get("VERIF_CLEAN_BUILD") == "1":
        pass
    ok, log = lake_build(targets)
    build_ok = ok
    if not ok:
        errs = [l for l in log.splitlines() if "error" in l][:20]
        proof_failures.append("lake build failed: " + " | ".join(errs))

    # -- 3. audit
    theorems = list(getattr(mod, "THEOREMS", []))
    discharged = 0
    audit_detail = {}
    if build_ok:
        mods = list(getattr(mod, "LEAN_TARGETS", []))
        ax, text = lean_audit(mods, theorems, pid)
        for t in theorems:
            a = ax.get(t)
            if a is None:
                proof_failures.append(f"theorem {t} not found / not checked")
            elif not a <= ALLOWED_AXIOMS:
                proof_failures.append(f"theorem {t} depends on inadmissible axioms {sorted(a - ALLOWED_AXIOMS)}")
            else:
                discharged += 1
                audit_detail[t] = sorted(a)
        srcs = lean_sources_of(mods + ([f"Driver.{mod.DRIVER_ROOT}"] if getattr(mod, "DRIVER_ROOT", None) else []))
        hits = grep_forbidden(srcs.values())
        if hits:
            proof_failures.append("forbidden constructs in Lean sources: " + "; ".join(hits[:10]))
        cov["lean_files"] = sorted(str(p.relative_to(LEAN)) for p in srcs.values())
        if tier == "thorough" and not os.environ.get("VERIF_SKIP_LEANCHECKER"):
            rc, out, err = sh(["lake", "env", "leanchecker", *mods], cwd=LEAN, timeout=3000)
            cov["leanchecker"] = "ok" if rc == 0 else (out + err)[-500:]
            if rc != 0:
                proof_failures.append("leanchecker rejected: " + (out + err)[-300:])

    # -- 4/5. correspondence + oracle
    cases = []
    corpus = VERIF / "harness" / "corpus" / f"{pid}.jsonl"
    if corpus.exists():
        cases += [json.loads(l) for l in corpus.read_text().splitlines() if l.strip()]
    n_corpus = len(cases)
    if hasattr(mod, "cases"):
        cases += list(mod.cases(rng, tier))
    impl_outs = pmap(modname, "impl", cases, procs=getattr(mod, "PROCS", None)) if cases else []
    model_outs = [None] * len(cases)
    corr_checked = 0
    if build_ok and getattr(mod, "DRIVER", None) and cases:
        reqs, idx = [], []
        for i, c in enumerate(cases):
            r = mod.model_request(c) if hasattr(mod, "model_request") else c
            if r is not None:
                reqs.append(r)
                idx.append(i)
        try:
            resps = run_driver(mod.DRIVER, reqs)
            for i, r in zip(idx, resps):
                model_outs[i] = r
        except Exception as e:
            proof_failures.append(f"model driver failed: {e}")
    canon_impl = getattr(mod, "canon_impl", lambda c, o: o)
    canon_model = getattr(mod, "canon_model", lambda c, o: o)
    distinct = set()
    nontrivial = 0
    hist = {}
    for i, c in enumerate(cases):
        io = impl_outs[i]
        if isinstance(io, dict) and "harness_exception" in io:
            say(f"HARNESS-ERROR property={pid} case={key(c)[:300]} {io['harness_exception']}")
            say(io.get("tb", ""))
            return 2
        k = key(c)
        if k not in distinct:
            distinct.add(k)
            try:
                if mod.nontrivial(c, io):
                    nontrivial += 1
            except Exception:
                pass
        if hasattr(mod, "bucket"):
            for b in mod.bucket(c, io):
                hist[b] = hist.get(b, 0) + 1
        if model_outs[i] is not None:
            corr_checked += 1
            a, b = canon_impl(c, io), canon_model(c, model_outs[i])
            if key(a) != key(b):
                failures.append(Failure("correspondence", c, {"impl": a, "model": b}))
        if hasattr(mod, "oracle"):
            v = mod.oracle(c, io)
            if v:
                fid = mod.classify(c, v) if hasattr(mod, "classify") else None
                failures.append(Failure("oracle", c, v, fid))

    for f in failures:
        f.main = True   # produced by the generated-case loop above (re-confirmable through mod.impl)

    # -- extra property-specific checks (e.g. thread interleavings, exhaustive tables)
    if hasattr(mod, "extra"):
        ex = mod.extra(rng, tier)
        for f in ex.get("failures", []):
            failures.append(f)
        cov.update(ex.get("coverage", {}))
        proof_failures += ex.get("proof_failures", [])

    # -- 6. verdict
    known = {f["id"]: f for f in load_known() if f["property"] == pid}
    violations = 0
    reported_known = set()
    rdir = VERIF / "replays"
    rdir.mkdir(exist_ok=True)

    def write_replay(name, obj):
        p = rdir / f"{pid}_{name}.json"
        p.write_text(json.dumps(obj, indent=1))
        return str(p.relative_to(VERIF))

    # -- 5b. re-confirmation: a failure seen in a pool worker while the machine is heavily loaded (wall-clock watchdogs, starved
    # threads) must reproduce when the case is run again, alone, in this process; a failure that does not reproduce is dropped and
    # counted (deterministic failures always reproduce, so nothing real is lost)
    dropped = 0
    if hasattr(mod, "impl") and not os.environ.get("VERIF_NO_RECONFIRM"):
        def reproduces(f):
            try:
                out2 = mod.impl(f.case)
                if f.kind == "oracle":
                    return bool(mod.oracle(f.case, out2)) if hasattr(mod, "oracle") else True
                if isinstance(f.detail, dict) and "model" in f.detail:
                    return key(canon_impl(f.case, out2)) != key(f.detail["model"])
            except Exception:
                return True
            return True
        cand = [f for f in failures if getattr(f, "main", False) and f.kind in ("oracle", "correspondence") and f.case is not None and not f.finding]
        if 0 < len(cand) <= 40:
            keep = []
            for f in failures:
                if f in cand and not reproduces(f):
                    dropped += 1
                else:
                    keep.append(f)
            failures = keep
    cov["failures_not_reproduced"] = dropped

    oracle_fail = [f for f in failures if f.kind == "oracle"]
    corr_fail = [f for f in failures if f.kind == "correspondence"]
    fresh = []
    for f in oracle_fail:
        kf = known.get(f.finding) if f.finding else None
        if kf and kf.get("status") == "known":
            if f.finding not in reported_known:
                reported_known.add(f.finding)
                say(f"KNOWN-FINDING: property={pid} {f.finding}: {kf['what']}")
        else:
            fresh.append(f)
    if fresh:
        f = min(fresh, key=lambda f: len(key(f.case)))
        if hasattr(mod, "shrink"):
            f = shrink_failure(mod, f)
        path = write_replay("violation", {"property": pid, "kind": "oracle", "case": f.case, "detail": f.detail, "seed": seed, "tier": tier,
                                          "returned_finding": f.finding, "others": len(fresh) - 1})
        say(f"VIOLATION property={pid} replay={path}")
        violations += len(fresh)
    elif corr_fail or proof_failures:
        # broken correspondence / proof obligation and the oracle found nothing on the cases so far:
        # failing-input search on the real code around the disagreeing cases
        found = None
        if hasattr(mod, "search"):
            found = mod.search(rng, tier, [f.case for f in corr_fail])
        elif hasattr(mod, "oracle") and hasattr(mod, "shrink"):
            for f in corr_fail[:20]:
                for c2 in list(mod.shrink(f.case))[:200]:
                    v = mod.oracle(c2, mod.impl(c2))
                    if v and not (hasattr(mod, "classify") and known.get(mod.classify(c2, v), {}).get("status") == "known"):
                        found = Failure("oracle", c2, v)
                        break
                if found:
                    break
        if found:
            path = write_replay("violation", {"property": pid, "kind": "oracle", "case": found.case, "detail": found.detail, "seed": seed, "tier": tier})
            say(f"VIOLATION property={pid} replay={path}")
        else:
            broken = {"proof_obligations": proof_failures,
                      "correspondence": [{"case": f.case, "detail": f.detail} for f in corr_fail[:5]],
                      "n_correspondence_mismatches": len(corr_fail)}
            path = write_replay("broken", {"property": pid, "kind": "broken-obligation", "case": None, "broken": broken, "seed": seed, "tier": tier})
            say(f"VIOLATION property={pid} replay={path} no-failing-input-found")
        violations += max(1, len(corr_fail))

    # -- 7. evidence
    samples = []
    for i in list(range(min(2, len(cases)))) + ([len(cases) - 1] if len(cases) > 2 else []):
        samples.append({"case": cases[i], "impl": canon_impl(cases[i], impl_outs[i])})
    if not samples:
        samples = [{"theorems": theorems[:5]}]
    coverage = {
        "obligations": len(theorems),
        "discharged": discharged,
        "checker_cmd": f"cd lean && lake build {' '.join(getattr(mod, 'LEAN_TARGETS', []))} && lake env lean .lake/audit/Audit_{pid}.lean  (#print axioms)",
        "trusted_base": TRUSTED_BASE + list(getattr(mod, "TRUSTED_EXTRA", [])),
        "theorems": audit_detail,
        "evaluations": len(cases),
        "distinct_nontrivial": nontrivial,
        "rule": getattr(mod, "RULE", "generated cases; distinct by canonical serialisation; non-trivial per property module"),
        "samples": samples[:4],
        "corpus_cases": n_corpus,
        "correspondence_cases": corr_checked,
        "correspondence_mismatches": len(corr_fail),
        "oracle_failures": len(oracle_fail),
        "known_findings_reported": sorted(reported_known),
        "branch_histogram": dict(sorted(hist.items())),
        "proof_failures": proof_failures,
        **cov,
    }
    ev = {
        "property_id": pid,
        "tier": tier,
        "seed": seed,
        "level": "proof",
        "coverage": coverage,
        "assumptions": list(getattr(mod, "ASSUMPTIONS", [])),
        "wall_s": round(time.time() - t0, 2),
        "violations": violations,
    }
    (VERIF / "evidence").mkdir(exist_ok=True)
    (VERIF / "evidence" / f"{pid}.json").write_text(json.dumps(ev, indent=1))
    say(f"{pid}: theorems {discharged}/{len(theorems)} cases {len(cases)} (nontrivial {nontrivial}) correspondence {corr_checked} mismatches {len(corr_fail)} oracle-failures {len(oracle_fail)} known {sorted(reported_known)} wall {ev['wall_s']}s")
    return 1 if violations else 0


def shrink_failure(mod, f: Failure, budget=300) -> Failure:
    cur = f
    improved = True
    n = 0
    while improved and n < budget:
        improved = False
        for c2 in mod.shrink(cur.case):
            n += 1
            if n > budget:
                break
            try:
                v = mod.oracle(c2, mod.impl(c2))
            except Exception:
                continue
            if v and (not hasattr(mod, "classify") or mod.classify(c2, v) == cur.finding):
                cur = Failure("oracle", c2, v, cur.finding)
                improved = True
                break
    return cur

"""C04 / C44 translator: capture analysis of every operator / factory -> lean/RxGen/Captures.lean.

For every module-level function (and every method of a class) in reactivex/operators/**, reactivex/observable/*.py and
reactivex/__init__.py, every *mutable object* is classified by the scope level that creates it and by the deepest scope
level that mutates / consumes it.

Levels (when does the code of a scope run):
  0  factory call           body of a plain factory `def op_(args)`, of a source factory `def range_(...)`, of a method
  1  application to source  body of a @curry_flip function; the inner `def op(source)` that a plain factory returns
  2  subscription           a function passed to `Observable(...)` / `defer(...)`
  3  event                  everything nested deeper (handlers, scheduled actions, callbacks handed to other code)

Mutable objects:
  oneshot     built by iter/map/filter/zip/enumerate/reversed, a generator expression, a generator function (`infinite()`),
              itertools.* (also names imported `from itertools import ...`)  -- "used" by ANY reference from a deeper scope
  object      instance of a class defined in the same file whose methods write `self` state (e.g. `HashSet`)
              -- used by any reference from a deeper scope
  subject     Subject/ReplaySubject/BehaviorSubject/AsyncSubject(...)          -- used by any reference from a deeper scope
  container   list/dict/set display or comprehension, list()/dict()/set()/deque()/OrderedDict()/defaultdict()
              -- used when a deeper scope calls a mutating method on it or stores/deletes a subscript
  disposable  Composite/Serial/SingleAssignment/MultipleAssignment/RefCount/Boolean Disposable(...)
              -- used when a deeper scope assigns `.disposable`, or calls add/remove/clear/dispose
  cell        any local variable or parameter -- used when a deeper scope declares it `nonlocal` AND assigns it
Escape: a oneshot/subject (named, or built in place as a call argument) that is passed, at level < 2, to any call that is
not a known same-level consumer (list, tuple, len, next, ...) -- e.g. `concat_with_iterable(it)`,
`ops.zip_with_iterable(infinite())`, `ops.multicast(subject=rs)`.

The translator judges nothing; `Struct.Captures.coldOk / factoryOk` (Lean) do, including the allow-list.
Fail closed: a scope shape the walker does not understand (class nested in a function, `global` writes, star-imports
rebinding tracked names) is emitted as an entry of kind `unknown` created at level 0 and used at level 3.
"""
from __future__ import annotations

import ast
from pathlib import Path

ONESHOT_BUILTINS = {"iter", "map", "filter", "zip", "enumerate", "reversed"}
GENERATOR_FUNCS = {"infinite"}  # extended at run time with every module-level generator function of reactivex/internal/*.py
ONESHOT_CALLS = set(ONESHOT_BUILTINS) | GENERATOR_FUNCS
MODULE_BOUND = set()  # names bound at module level of the file being analysed (they shadow the builtins)
ITERTOOLS_NAMES = set()  # names imported `from itertools import ...` in the file being analysed (count, cycle, chain, ...)
STATEFUL_CLASSES = set()  # classes defined in the file being analysed whose methods write `self` state (HashSet, ...)
SUBJECT_CALLS = {"Subject", "ReplaySubject", "BehaviorSubject", "AsyncSubject"}
CONTAINER_CALLS = {"list", "dict", "set", "deque", "OrderedDict", "defaultdict", "bytearray"}
DISPOSABLE_CALLS = {"CompositeDisposable", "SerialDisposable", "SingleAssignmentDisposable", "MultipleAssignmentDisposable",
                    "RefCountDisposable", "BooleanDisposable"}
MUTATORS = {"append", "appendleft", "pop", "popleft", "clear", "remove", "add", "extend", "insert", "update", "discard",
            "setdefault", "sort", "reverse", "popitem", "__setitem__", "__delitem__"}
DISP_MUTATORS = {"add", "remove", "clear", "dispose"}
SAFE_CONSUMERS = {"list", "tuple", "len", "sorted", "next", "isinstance", "cast", "set", "frozenset", "dict", "min", "max",
                  "sum", "any", "all", "bool", "repr", "str", "id", "type"}


def callee_name(f):
    if isinstance(f, ast.Name):
        return f.id
    if isinstance(f, ast.Attribute):
        return f.attr
    return None


def kind_of_expr(e):
    """mutable-object kind created by evaluating expression e, or None"""
    if isinstance(e, (ast.List, ast.Dict, ast.Set, ast.ListComp, ast.DictComp, ast.SetComp)):
        return "container"
    if isinstance(e, ast.GeneratorExp):
        return "oneshot"
    if isinstance(e, ast.Call):
        n = callee_name(e.func)
        if isinstance(e.func, ast.Attribute) and isinstance(e.func.value, ast.Name) and e.func.value.id == "itertools":
            return "oneshot"
        if isinstance(e.func, ast.Subscript):  # Subject[int]()
            n = callee_name(e.func.value)
        if n in GENERATOR_FUNCS:
            return "oneshot"
        if isinstance(e.func, ast.Name) and n in ITERTOOLS_NAMES:
            return "oneshot"
        if isinstance(e.func, ast.Name) and n in STATEFUL_CLASSES:
            return "object"
        if n in ONESHOT_BUILTINS and isinstance(e.func, ast.Name) and n not in MODULE_BOUND:
            return "oneshot"
        if n in SUBJECT_CALLS:
            return "subject"
        if n in CONTAINER_CALLS:
            return "container"
        if n in DISPOSABLE_CALLS:
            return "disposable"
    return None


FUNC = (ast.FunctionDef, ast.AsyncFunctionDef, ast.Lambda)


def own_nodes(fn):
    """all AST nodes of the body of scope `fn`, not descending into nested functions/lambdas/classes
    (the nested function nodes themselves are yielded)"""
    body = fn.body if isinstance(fn.body, list) else [fn.body]
    stack = list(reversed(body))
    while stack:
        n = stack.pop()
        yield n
        if isinstance(n, FUNC) or isinstance(n, ast.ClassDef):
            # decorators / defaults are evaluated in the enclosing scope
            if not isinstance(n, ast.ClassDef):
                for d in getattr(n, "decorator_list", []):
                    stack.append(d)
                for d in n.args.defaults + [k for k in n.args.kw_defaults if k is not None]:
                    stack.append(d)
            continue
        stack.extend(reversed(list(ast.iter_child_nodes(n))))


class Scope:
    def __init__(self, node, level, parent, name):
        self.node, self.level, self.parent, self.name = node, level, parent, name
        a = node.args
        self.params = {x.arg for x in a.posonlyargs + a.args + a.kwonlyargs} | ({a.vararg.arg} if a.vararg else set()) | (
            {a.kwarg.arg} if a.kwarg else set())
        self.assigned, self.nonlocals, self.globals_ = set(), set(), set()
        self.children = []
        self.unknown = []
        for n in own_nodes(node):
            if isinstance(n, ast.Name) and isinstance(n.ctx, (ast.Store, ast.Del)):
                self.assigned.add(n.id)
            elif isinstance(n, (ast.FunctionDef, ast.AsyncFunctionDef)):
                self.assigned.add(n.name)
            elif isinstance(n, ast.ClassDef):
                self.assigned.add(n.name)  # its methods are walked as nested scopes by build()
            elif isinstance(n, ast.Nonlocal):
                self.nonlocals |= set(n.names)
            elif isinstance(n, ast.Global):
                self.globals_ |= set(n.names)
            elif isinstance(n, (ast.Import, ast.ImportFrom)):
                for al in n.names:
                    self.assigned.add((al.asname or al.name).split(".")[0])
            elif isinstance(n, ast.ExceptHandler) and n.name:
                self.assigned.add(n.name)

    def path(self):
        return (self.parent.path() + "/" if self.parent else "") + self.name

    def binds(self, x):
        return x in self.params or (x in self.assigned and x not in self.nonlocals and x not in self.globals_)


def _subtree_nodes(fn):
    body = fn.body if isinstance(fn.body, list) else [fn.body]
    for st in body:
        yield from ast.walk(st)


def child_level(parent: Scope, child, curry_root: bool):
    """levels at which the body of nested function `child` may run"""
    s = parent.level
    name = getattr(child, "name", None)
    sub, ret, called_here = False, False, False
    call_funcs, sub_args, ret_vals = set(), set(), set()
    for n in own_nodes(parent.node):
        if isinstance(n, ast.Call):
            cn = callee_name(n.func) or ""
            if n.args:
                a0 = n.args[0]
                is_child = (a0 is child) or (name is not None and isinstance(a0, ast.Name) and a0.id == name)
                if is_child and (cn.endswith("Observable") or cn == "defer"):
                    sub = True
                    sub_args.add(id(a0))
            if name is not None and isinstance(n.func, ast.Name) and n.func.id == name:
                called_here = True
                call_funcs.add(id(n.func))
        if isinstance(n, ast.Return) and n.value is not None and name is not None:
            if isinstance(n.value, ast.Name) and n.value.id == name:
                ret = True
                ret_vals.add(id(n.value))
    is_app = ret and s == 0 and not curry_root and parent.parent is None
    # any other reference (handed to other code as a value, or used from a nested function that may run later)?
    other = isinstance(child, ast.Lambda) and not sub
    if name is not None:
        for n in _subtree_nodes(parent.node):
            if n is child:
                continue
            if isinstance(n, ast.Name) and n.id == name and isinstance(n.ctx, ast.Load):
                if id(n) in call_funcs or id(n) in sub_args or (is_app and id(n) in ret_vals):
                    continue
                other = True
        # references from inside the child itself (recursion) do not count
        for n in _subtree_nodes(child):
            pass
    levels = []
    if sub:
        levels.append(2 if s < 2 else 3)
    if is_app:
        levels.append(1)
    if called_here:
        levels.append(s)
    if other or not levels:
        levels.append(3)  # a callback handed to other code / a handler: may run at event time
    return sorted(set(levels))


def build(node, level, parent, name, curry_root, out_scopes):
    sc = Scope(node, level, parent, name)
    out_scopes.append(sc)
    for n in own_nodes(node):
        if isinstance(n, FUNC):
            cname = getattr(n, "name", None) or f"<lambda@{n.lineno}>"
            lvs = child_level(sc, n, curry_root)
            for lv in lvs:
                build(n, lv, sc, cname if len(lvs) == 1 else f"{cname}@L{lv}", curry_root, out_scopes)
        elif isinstance(n, ast.ClassDef):
            for m in ast.walk(n):
                if isinstance(m, (ast.FunctionDef, ast.AsyncFunctionDef)) and m in n.body:
                    build(m, 3, sc, f"{n.name}.{m.name}", curry_root, out_scopes)
                elif isinstance(m, (ast.ClassDef,)) and m is not n:
                    sc.unknown.append(f"class {m.name} nested in class {n.name}")
    if parent is not None:
        parent.children.append(sc)
    return sc


def descendants(sc):
    for c in sc.children:
        yield c
        yield from descendants(c)


def refers_to(sc: Scope, owner: Scope, x: str) -> bool:
    """does a reference to name x inside scope sc resolve to owner's binding of x?"""
    cur = sc
    while cur is not None and cur is not owner:
        if cur.binds(x):
            return False
        cur = cur.parent
    return cur is owner


def uses_in(sc: Scope, x: str, kind: str):
    """is object x (of the given kind) used/mutated in the own body of scope sc?"""
    for n in own_nodes(sc.node):
        if kind in ("oneshot", "subject", "unknown", "object"):
            if isinstance(n, ast.Name) and n.id == x and isinstance(n.ctx, ast.Load):
                return True
        elif kind == "container":
            if isinstance(n, ast.Call) and isinstance(n.func, ast.Attribute) and n.func.attr in MUTATORS \
                    and isinstance(n.func.value, ast.Name) and n.func.value.id == x:
                return True
            if isinstance(n, ast.Subscript) and isinstance(n.ctx, (ast.Store, ast.Del)) and isinstance(n.value, ast.Name) and n.value.id == x:
                return True
            if isinstance(n, ast.AugAssign) and isinstance(n.target, ast.Name) and n.target.id == x:
                return True
        elif kind == "disposable":
            if isinstance(n, ast.Call) and isinstance(n.func, ast.Attribute) and n.func.attr in DISP_MUTATORS \
                    and isinstance(n.func.value, ast.Name) and n.func.value.id == x:
                return True
            if isinstance(n, ast.Attribute) and isinstance(n.ctx, ast.Store) and isinstance(n.value, ast.Name) and n.value.id == x:
                return True
        elif kind == "cell":
            if x in sc.nonlocals and isinstance(n, ast.Name) and n.id == x and isinstance(n.ctx, (ast.Store, ast.Del)):
                return True
            if x in sc.nonlocals and isinstance(n, ast.AugAssign) and isinstance(n.target, ast.Name) and n.target.id == x:
                return True
    return False


def escapes_in(sc: Scope, x: str):
    """is name x passed (possibly inside a tuple/list/starred) to a call that is not a same-level consumer, in sc's own body?"""
    for n in own_nodes(sc.node):
        if isinstance(n, ast.Call):
            cn = callee_name(n.func)
            if cn in SAFE_CONSUMERS or kind_of_expr(n) == "oneshot":
                continue  # wrapping into another one-shot is tracked under the new object's own name
            if isinstance(n.func, ast.Attribute) and isinstance(n.func.value, ast.Name) and n.func.value.id == "itertools":
                continue
            if isinstance(n.func, ast.Attribute) and isinstance(n.func.value, ast.Name) and n.func.value.id == x:
                continue  # a method call ON the object (x.on_next(..)) is a use, not an escape
            for a in list(n.args) + [k.value for k in n.keywords]:
                for m in ast.walk(a):
                    if isinstance(m, FUNC):
                        break
                    if isinstance(m, ast.Name) and m.id == x and isinstance(m.ctx, ast.Load):
                        return ast.unparse(n.func)
    return None


def analyze_root(fn, file, root_name, is_operator):
    curry = any((isinstance(d, ast.Name) and d.id == "curry_flip") or (isinstance(d, ast.Attribute) and d.attr == "curry_flip")
                for d in getattr(fn, "decorator_list", []))
    scopes = []
    root = build(fn, 1 if curry else 0, None, root_name, curry, scopes)
    entries = []
    for sc in scopes:
        for u in sc.unknown:
            entries.append(dict(file=file, func=root_name, path=sc.path(), name=u, kind="unknown", created=0, used=3, escapes=True,
                                line=sc.node.lineno, via=""))
        if sc.globals_:
            entries.append(dict(file=file, func=root_name, path=sc.path(), name="global " + ",".join(sorted(sc.globals_)), kind="unknown",
                                created=0, used=3, escapes=True, line=sc.node.lineno, via=""))
        created = []  # (name, kind, line)
        for n in own_nodes(sc.node):
            tgt, val = None, None
            if isinstance(n, ast.Assign) and len(n.targets) == 1:
                tgt, val = n.targets[0], n.value
            elif isinstance(n, ast.AnnAssign) and n.value is not None:
                tgt, val = n.target, n.value
            elif isinstance(n, ast.NamedExpr):
                tgt, val = n.target, n.value
            if tgt is not None and isinstance(tgt, ast.Name):
                k = kind_of_expr(val)
                if k:
                    created.append((tgt.id, k, n.lineno))
            # anonymous one-shot / subject built in place as a call argument
            if isinstance(n, ast.Call):
                cn = callee_name(n.func)
                if cn in SAFE_CONSUMERS or kind_of_expr(n) == "oneshot":
                    continue
                for a in list(n.args) + [k.value for k in n.keywords]:
                    a = a.value if isinstance(a, ast.Starred) else a
                    k = kind_of_expr(a)
                    if k in ("oneshot", "subject"):
                        entries.append(dict(file=file, func=root_name, path=sc.path(), name=f"<{ast.unparse(a)[:40]}>", kind=k,
                                            created=sc.level, used=None, escapes=True, line=n.lineno, via=ast.unparse(n.func)))
        # cells: every local/param of this scope that some deeper scope writes under `nonlocal`
        cell_names = set()
        for d in descendants(sc):
            for x in d.nonlocals:
                if sc.binds(x) and refers_to(d, sc, x) and uses_in(d, x, "cell"):
                    cell_names.add(x)
        for x in sorted(cell_names):
            created.append((x, "cell", sc.node.lineno))
        seen = set()
        for x, k, line in created:
            if (x, k) in seen:
                continue
            seen.add((x, k))
            used = None
            for d in descendants(sc):
                if refers_to(d, sc, x) and uses_in(d, x, k):
                    used = d.level if used is None else max(used, d.level)
            esc = None
            if k in ("oneshot", "subject", "object") and sc.level < 2:
                esc = escapes_in(sc, x)
            entries.append(dict(file=file, func=root_name, path=sc.path(), name=x, kind=k, created=sc.level, used=used,
                                escapes=esc is not None, line=line, via=esc or ""))
    return entries


def module_level_entries(tree, file):
    """mutable objects created at import time and used inside functions"""
    out = []
    names = {}
    for st in tree.body:
        tgt, val = None, None
        if isinstance(st, ast.Assign) and len(st.targets) == 1:
            tgt, val = st.targets[0], st.value
        elif isinstance(st, ast.AnnAssign) and st.value is not None:
            tgt, val = st.target, st.value
        if isinstance(tgt, ast.Name):
            k = kind_of_expr(val)
            if k and tgt.id != "__all__":
                names[tgt.id] = (k, st.lineno)
    for x, (k, line) in names.items():
        used = None
        for fn in ast.walk(tree):
            if isinstance(fn, FUNC):
                for n in ast.walk(fn):
                    if isinstance(n, ast.Name) and n.id == x and k in ("oneshot", "subject"):
                        used = 3
                    if k == "container" and isinstance(n, ast.Call) and isinstance(n.func, ast.Attribute) and n.func.attr in MUTATORS \
                            and isinstance(n.func.value, ast.Name) and n.func.value.id == x:
                        used = 3
                    if k == "container" and isinstance(n, ast.Subscript) and isinstance(n.ctx, (ast.Store, ast.Del)) \
                            and isinstance(n.value, ast.Name) and n.value.id == x:
                        used = 3
        out.append(dict(file=file, func="<module>", path="<module>", name=x, kind=k, created=0, used=used, escapes=False, line=line, via=""))
    return out


def _writes_self_state(cls: ast.ClassDef) -> bool:
    """does a method other than __init__ mutate the instance (assign / augment `self.x`, or call a mutator on `self.x`)?"""
    for m in cls.body:
        if not isinstance(m, (ast.FunctionDef, ast.AsyncFunctionDef)) or m.name == "__init__":
            continue
        for n in ast.walk(m):
            if isinstance(n, ast.Attribute) and isinstance(n.ctx, (ast.Store, ast.Del)) and isinstance(n.value, ast.Name) and n.value.id == "self":
                return True
            if isinstance(n, ast.Call) and isinstance(n.func, ast.Attribute) and n.func.attr in MUTATORS:
                v = n.func.value
                if isinstance(v, ast.Attribute) and isinstance(v.value, ast.Name) and v.value.id == "self":
                    return True
            if isinstance(n, ast.Subscript) and isinstance(n.ctx, (ast.Store, ast.Del)):
                v = n.value
                if isinstance(v, ast.Attribute) and isinstance(v.value, ast.Name) and v.value.id == "self":
                    return True
    return False


def files_of(repo: Path):
    r = repo / "reactivex"
    fs = sorted((r / "operators").glob("*.py")) + sorted((r / "operators" / "connectable").glob("*.py")) \
        + sorted((r / "observable").glob("*.py")) + [r / "__init__.py"]
    return [f for f in fs if f.exists()]


def extract(repo: Path):
    repo = Path(repo)
    entries, roots = [], 0
    GENERATOR_FUNCS.clear()
    GENERATOR_FUNCS.add("infinite")
    for g in sorted((repo / "reactivex" / "internal").glob("*.py")):
        for st in ast.parse(g.read_text()).body:
            if isinstance(st, ast.FunctionDef) and any(isinstance(n, (ast.Yield, ast.YieldFrom)) for n in ast.walk(st)):
                GENERATOR_FUNCS.add(st.name)
    for f in files_of(repo):
        rel = str(f.relative_to(repo / "reactivex"))
        tree = ast.parse(f.read_text())
        is_op = rel.startswith("operators/")
        MODULE_BOUND.clear()
        ITERTOOLS_NAMES.clear()
        STATEFUL_CLASSES.clear()
        for st in tree.body:
            if isinstance(st, ast.ImportFrom) and st.module == "itertools":
                ITERTOOLS_NAMES.update(al.asname or al.name for al in st.names)
            if isinstance(st, ast.ClassDef) and _writes_self_state(st):
                STATEFUL_CLASSES.add(st.name)
        for st in tree.body:
            if isinstance(st, (ast.FunctionDef, ast.AsyncFunctionDef, ast.ClassDef)):
                MODULE_BOUND.add(st.name)
            elif isinstance(st, (ast.Import, ast.ImportFrom)):
                MODULE_BOUND.update((al.asname or al.name).split(".")[0] for al in st.names)
            elif isinstance(st, (ast.Assign, ast.AnnAssign)):
                for t in (st.targets if isinstance(st, ast.Assign) else [st.target]):
                    if isinstance(t, ast.Name):
                        MODULE_BOUND.add(t.id)
        entries += module_level_entries(tree, rel)
        for st in tree.body:
            if isinstance(st, (ast.FunctionDef, ast.AsyncFunctionDef)):
                if any(isinstance(d, ast.Name) and d.id == "overload" for d in st.decorator_list):
                    continue
                roots += 1
                entries += analyze_root(st, rel, st.name, is_op)
            elif isinstance(st, ast.ClassDef):
                for m in st.body:
                    if isinstance(m, (ast.FunctionDef, ast.AsyncFunctionDef)) and not any(
                            isinstance(d, ast.Name) and d.id == "overload" for d in m.decorator_list):
                        roots += 1
                        entries += analyze_root(m, rel, f"{st.name}.{m.name}", is_op)
    # dedupe (a helper analysed at two levels can yield the same row twice)
    uniq, seen = [], set()
    for e in entries:
        k = (e["file"], e["path"], e["name"], e["kind"], e["created"], e["used"], e["escapes"])
        if k not in seen:
            seen.add(k)
            uniq.append(e)
    return {"entries": uniq, "roots": roots, "files": len(files_of(repo))}


# ----------------------------------------------------------------------------- Lean emission
def ls(s: str) -> str:
    return '"' + s.replace("\\", "\\\\").replace('"', '\\"').replace("\n", "\\n") + '"'


def emit_lean(tab) -> str:
    L = ["import RxModel.StructCaptures",
         "/-! GENERATED by harness/xlate/captures.py from reactivex/operators/**, reactivex/observable/*.py, reactivex/__init__.py.",
         "Do not edit; regenerated on every `./check C04` / `./check C44`. -/",
         "namespace RxGen.Captures", "open Struct.Captures", ""]
    rows = []
    for e in tab["entries"]:
        used = "none" if e["used"] is None else f"(some {e['used']})"
        rows.append(f"  ⟨{ls(e['file'])}, {ls(e['func'])}, {ls(e['path'])}, {ls(e['name'])}, .{e['kind']}, {e['created']}, {used}, "
                    f"{'true' if e['escapes'] else 'false'}, {'true' if e['file'].startswith('operators/') else 'false'}⟩")
    # chunks keep the list literals small (elaboration of one huge literal is slow)
    chunks = [rows[i:i + 16] for i in range(0, len(rows), 16)] or [[]]
    for k, ch in enumerate(chunks):
        L.append(f"def t{k} : List Entry := [")
        L.append(",\n".join(ch))
        L.append("]")
        L.append("")
    L.append("def table : List Entry :=\n  " + " ++ ".join(f"t{k}" for k in range(len(chunks))))
    L.append("")
    L.append("end RxGen.Captures")
    return "\n".join(L) + "\n"


def regenerate(repo: Path, lean_dir: Path):
    from .fluent import write_if_changed

    tab = extract(repo)
    changed = write_if_changed(Path(lean_dir) / "RxGen" / "Captures.lean", emit_lean(tab))
    ents = tab["entries"]
    flagged = [e for e in ents if e["created"] < 2 and ((e["used"] is not None and e["used"] >= e["created"] + 1) or e["escapes"])]
    return tab, {"entries": len(ents), "roots": tab["roots"], "files": tab["files"], "created_above_subscription": len(
        [e for e in ents if e["created"] < 2]), "flagged_before_allow_list": [f"{e['file']}:{e['path']}.{e['name']}" for e in flagged],
        "table_changed": changed}

"""AST ownership analysis (C02/C03): where does every subscription / scheduled-action disposable go?

For every function named `subscribe` in reactivex/operators and reactivex/observable, every call that *acquires* a
disposable (`X.subscribe(...)`, `X.subscribe_safe(...)`, `X.schedule*(...)`, `X.connect(...)`) is classified:

  returned       the value is the return value of `subscribe` itself (possibly inside a returned container constructor)
  owned          stored (`.disposable =`, `.add(...)`, container constructor, list that is later wrapped) in a holder
                 that is transitively returned by `subscribe`
  nested_return  returned by a nested function (a scheduled action / helper): its caller receives the disposable
  dropped        the value is discarded (expression statement)
  unknown        any other shape (fail closed)

Emits lean/RxGen/Ownership.lean.  A new `dropped`/`unknown` row that is not on the justified allow-list in
RxProofs/C03.lean breaks the `ownership_ok` obligation.
"""
from __future__ import annotations

import ast
from pathlib import Path

ACQUIRE = {"subscribe", "subscribe_safe", "schedule", "schedule_relative", "schedule_absolute", "schedule_periodic", "connect"}
CONTAINERS = {"CompositeDisposable", "RefCountDisposable", "SerialDisposable", "SingleAssignmentDisposable", "ScheduledDisposable", "Disposable"}


def _parents(tree):
    par = {}
    for n in ast.walk(tree):
        for c in ast.iter_child_nodes(n):
            par[c] = n
    return par


def _name(n):
    if isinstance(n, ast.Name):
        return n.id
    if isinstance(n, ast.Attribute):
        b = _name(n.value)
        return f"{b}.{n.attr}" if b else None
    if isinstance(n, ast.Subscript):
        return _name(n.value)
    return None


def _flow(e, local_funcs=()):
    """names whose values may flow out of expression `e` (lists, concatenations, container constructors, local helper calls)"""
    if e is None:
        return []
    if isinstance(e, ast.Starred):
        return _flow(e.value, local_funcs)
    if isinstance(e, (ast.List, ast.Tuple, ast.Set)):
        return [x for el in e.elts for x in _flow(el, local_funcs)]
    if isinstance(e, ast.BinOp) and isinstance(e.op, ast.Add):
        return _flow(e.left, local_funcs) + _flow(e.right, local_funcs)
    if isinstance(e, (ast.ListComp, ast.GeneratorExp)):
        return _flow(e.elt, local_funcs)
    if isinstance(e, ast.Call):
        fn = _name(e.func)
        if fn in CONTAINERS:
            return [x for a in e.args for x in _flow(a, local_funcs)]
        if fn in local_funcs:
            return [fn]
        return []
    nm = _name(e)
    return [nm] if nm else []


def _enclosing_func(node, par):
    n = par.get(node)
    while n is not None and not isinstance(n, (ast.FunctionDef, ast.Lambda, ast.AsyncFunctionDef)):
        n = par.get(n)
    return n


class FuncAnalysis:
    def __init__(self, func, par):
        self.func, self.par = func, par
        self.holds = {}   # holder name -> set of held names
        self.returned = set()  # names returned by `subscribe` itself (or inside a returned container constructor)
        self._scan()

    def _hold(self, holder, item):
        if holder and item:
            self.holds.setdefault(holder, set()).add(item)

    def _ctor_items(self, call):
        """names passed to a container constructor call"""
        out = []
        for a in call.args:
            if isinstance(a, ast.Starred):
                a = a.value
            nm = _name(a)
            if nm:
                out.append(nm)
            elif isinstance(a, (ast.List, ast.Tuple)):
                out += [x for x in (_name(e) for e in a.elts) if x]
        return out

    def _scan(self):
        f, par = self.func, self.par
        nested = [n for n in ast.walk(f) if isinstance(n, ast.FunctionDef) and n is not f]
        local = {g.name for g in nested}
        self.local = local
        for g in nested:
            for n in ast.walk(g):
                # a nested function that disposes X holds X (closure-dispose pattern: `Disposable(dispose)`)
                if isinstance(n, ast.Call) and isinstance(n.func, ast.Attribute) and n.func.attr == "dispose":
                    self._hold(g.name, _name(n.func.value))
                # a nested helper returns X: calls to the helper carry X
                if isinstance(n, ast.Return) and _enclosing_func(n, par) is g:
                    for nm in _flow(n.value, local):
                        self._hold(g.name, nm)
        for n in ast.walk(f):
            if isinstance(n, ast.Return) and n.value is not None and _enclosing_func(n, par) is f:
                for nm in _flow(n.value, local):
                    self.returned.add(nm)
            if isinstance(n, (ast.Assign, ast.AnnAssign)) and getattr(n, "value", None) is not None:
                t = n.targets[0] if isinstance(n, ast.Assign) else n.target
                v = n.value
                if isinstance(t, ast.Attribute) and t.attr == "disposable":
                    for nm in _flow(v, local):
                        self._hold(_name(t.value), nm)
                elif isinstance(t, ast.Subscript):
                    for nm in _flow(v, local):
                        self._hold(_name(t.value), nm)
                else:
                    tn = _name(t)
                    for nm in _flow(v, local):
                        self._hold(tn, nm)
            if isinstance(n, ast.Call) and isinstance(n.func, ast.Attribute) and n.func.attr in ("add", "append") and n.args:
                for nm in _flow(n.args[0], local):
                    self._hold(_name(n.func.value), nm)

    def rooted(self, name, seen=None):
        seen = seen or set()
        if name in seen or name is None:
            return False
        seen.add(name)
        if name in self.returned:
            return True
        return any(name in items and self.rooted(h, seen) for h, items in self.holds.items())


def classify(call, fa: FuncAnalysis):
    par, f = fa.par, fa.func
    p = par.get(call)
    # unwrap: value passed through a container constructor / list literal / comprehension
    node = call
    via_ctor = False
    while True:
        p = par.get(node)
        if isinstance(p, ast.Call) and node in p.args and _name(p.func) in CONTAINERS:
            node, via_ctor = p, True
            continue
        if isinstance(p, (ast.List, ast.Tuple, ast.Starred)) or isinstance(p, (ast.ListComp, ast.GeneratorExp)):
            node = p
            continue
        if isinstance(p, ast.comprehension):
            node = par.get(p)
            continue
        break
    if isinstance(p, ast.Return):
        return ("returned" if _enclosing_func(p, par) is f else "nested_return"), ""
    if isinstance(p, ast.Expr):
        return "dropped", ""
    if isinstance(p, ast.Assign) and len(p.targets) == 1:
        t = p.targets[0]
        if isinstance(t, ast.Attribute) and t.attr == "disposable":
            h = _name(t.value)
            return ("owned" if fa.rooted(h) else "held_unrooted"), h or ""
        tn = _name(t)
        if tn:
            return ("owned" if fa.rooted(tn) else "held_unrooted"), tn
    if isinstance(p, ast.AnnAssign) and p.value is node:
        tn = _name(p.target)
        return ("owned" if fa.rooted(tn) else "held_unrooted"), tn or ""
    if isinstance(p, ast.Call) and isinstance(p.func, ast.Attribute) and p.func.attr in ("add", "append") and node in p.args:
        h = _name(p.func.value)
        return ("owned" if fa.rooted(h) else "held_unrooted"), h or ""
    return "unknown", type(p).__name__


def analyse(repo: Path):
    rows = []
    files = sorted((repo / "reactivex/operators").glob("_*.py")) + sorted((repo / "reactivex/operators/connectable").glob("_*.py")) \
        + sorted(p for p in (repo / "reactivex/observable").glob("*.py") if p.name != "__init__.py")
    for path in files:
        tree = ast.parse(path.read_text())
        par = _parents(tree)
        funcs = [n for n in ast.walk(tree) if isinstance(n, ast.FunctionDef) and n.name in ("subscribe", "_subscribe_core")]
        # only outermost subscribe functions (a nested `subscribe` helper is analysed as part of its parent)
        outer = [f for f in funcs if not any(g is not f and f in set(ast.walk(g)) for g in funcs)]
        for fi, f in enumerate(outer):
            fa = FuncAnalysis(f, par)
            si = 0
            for n in ast.walk(f):
                if isinstance(n, ast.Call) and isinstance(n.func, ast.Attribute) and n.func.attr in ACQUIRE:
                    recv = _name(n.func.value) or "expr"
                    if recv in ("self",) and n.func.attr == "subscribe":
                        pass
                    cls, holder = classify(n, fa)
                    rows.append({"file": str(path.relative_to(repo / "reactivex")), "func": fi, "site": si, "recv": recv,
                                 "callee": n.func.attr, "cls": cls, "holder": holder})
                    si += 1
    return rows


def emit_lean(rows, out: Path):
    def q(s):
        return '"' + s.replace("\\", "\\\\").replace('"', '\\"') + '"'
    lines = ["/-! GENERATED by harness/xlate/ownership.py from /repo — do not edit. -/", "namespace RxGen.Ownership", "",
             "structure Row where", "  file : String", "  func : Nat", "  site : Nat", "  recv : String", "  callee : String",
             "  cls : String", "  holder : String", "deriving Repr, DecidableEq", "", "def table : List Row := ["]
    body = [f"  ⟨{q(r['file'])}, {r['func']}, {r['site']}, {q(r['recv'])}, {q(r['callee'])}, {q(r['cls'])}, {q(r['holder'])}⟩" for r in rows]
    lines.append(",\n".join(body))
    lines += ["]", "", "end RxGen.Ownership", ""]
    new = "\n".join(lines)
    if not out.exists() or out.read_text() != new:
        out.write_text(new)


if __name__ == "__main__":
    import collections
    import sys
    rows = analyse(Path(sys.argv[1] if len(sys.argv) > 1 else "/repo"))
    print(collections.Counter(r["cls"] for r in rows))
    for r in rows:
        if r["cls"] not in ("returned", "owned", "nested_return"):
            print(r)

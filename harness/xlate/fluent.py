"""C39 translator: reactivex/observable/mixins/*.py + reactivex/operators/__init__.py -> lean/RxGen/Fluent.lean.

For every public, non-@overload method of every mixin class it records the parameters (name, kind, default source
text) and the *shape* of the body: a chain `if p is V: return CALL ... return CALL` where CALL is
`self._as_observable().pipe(ops.NAME(args))`, `ops.NAME(args)(self._as_observable())` (through `cast(...)` and
single-assignment locals) or `self.other_method(args)`.  Anything else is emitted as `unknown` (fail closed: the Lean
`decide` obligation `fluent_forwarding_ok` then fails).  The operator signatures are read from the AST of
reactivex/operators/__init__.py (last non-overload `def`, module-level `a = b` aliases resolved).

The translator is deliberately dumb: it does not judge anything; `Struct.Fluent.ok` (Lean) does.
"""
from __future__ import annotations

import ast
from pathlib import Path


# ----------------------------------------------------------------------------- signatures
def params_of(fn: ast.FunctionDef, drop_self: bool):
    a = fn.args
    out = []
    if a.posonlyargs:
        # not used in the pinned tree; positional-only parameters are not modelled -> make the row fail
        out.append({"name": "<posonly>", "kind": "pos", "dflt": None, "unsupported": True})
    pos = list(a.args)
    defaults = [None] * (len(pos) - len(a.defaults)) + list(a.defaults)
    if drop_self:
        pos, defaults = pos[1:], defaults[1:]
    for arg, d in zip(pos, defaults):
        out.append({"name": arg.arg, "kind": "pos", "dflt": None if d is None else ast.unparse(d)})
    if a.vararg:
        out.append({"name": a.vararg.arg, "kind": "vararg", "dflt": None})
    for arg, d in zip(a.kwonlyargs, a.kw_defaults):
        out.append({"name": arg.arg, "kind": "kwonly", "dflt": None if d is None else ast.unparse(d)})
    if a.kwarg:
        out.append({"name": a.kwarg.arg, "kind": "varkw", "dflt": None})
    return out


def is_overload(fn):
    return any((isinstance(d, ast.Name) and d.id == "overload") or (isinstance(d, ast.Attribute) and d.attr == "overload")
               for d in fn.decorator_list)


def op_signatures(repo: Path):
    src = (repo / "reactivex/operators/__init__.py").read_text()
    tree = ast.parse(src)
    sigs, aliases = {}, {}
    for node in tree.body:
        if isinstance(node, ast.FunctionDef) and not is_overload(node):
            sigs[node.name] = params_of(node, drop_self=False)  # the last definition wins, as in Python
            aliases.pop(node.name, None)
        elif isinstance(node, ast.Assign) and len(node.targets) == 1 and isinstance(node.targets[0], ast.Name) \
                and isinstance(node.value, ast.Name):
            aliases[node.targets[0].id] = node.value.id
            sigs.pop(node.targets[0].id, None)
    out = []
    for n, ps in sigs.items():
        if not n.startswith("_"):
            out.append({"name": n, "params": ps, "alias_of": None})
    for a, b in aliases.items():
        seen = set()
        while b in aliases and b not in seen:
            seen.add(b)
            b = aliases[b]
        if b in sigs and not a.startswith("_"):
            out.append({"name": a, "params": sigs[b], "alias_of": b})
    return out


# ----------------------------------------------------------------------------- mixin bodies
class Unknown(Exception):
    pass


def strip_cast(e):
    while isinstance(e, ast.Call) and isinstance(e.func, ast.Name) and e.func.id == "cast" and len(e.args) == 2 and not e.keywords:
        e = e.args[1]
    return e


class BodyReader:
    def __init__(self, fn: ast.FunctionDef, as_obs_ok: bool):
        self.fn = fn
        self.params = {p["name"]: p for p in params_of(fn, drop_self=True)}
        self.locals = {}  # name -> expr (single assignment)
        self.ops_alias = None  # local name bound to reactivex.operators
        self.as_obs_ok = as_obs_ok
        self.recv_self = True

    # -- expressions
    def resolve(self, e, depth=0):
        e = strip_cast(e)
        if depth < 8 and isinstance(e, ast.Name) and e.id in self.locals and e.id not in self.params:
            return self.resolve(self.locals[e.id], depth + 1)
        return e

    def is_self(self, e):
        e = self.resolve(e)
        if isinstance(e, ast.Name) and e.id == "self":
            return True
        if (isinstance(e, ast.Call) and isinstance(e.func, ast.Attribute) and e.func.attr == "_as_observable"
                and isinstance(e.func.value, ast.Name) and e.func.value.id == "self" and not e.args and not e.keywords):
            return self.as_obs_ok
        return False

    def arg(self, e):
        if isinstance(e, ast.Starred):
            v = e.value
            if isinstance(v, ast.Name) and v.id in self.params and v.id not in self.locals:
                return {"k": "star", "v": v.id}
            return {"k": "other", "v": ast.unparse(e)}
        r = self.resolve(e)
        if isinstance(r, ast.Name) and r.id in self.params and r.id not in self.locals:
            return {"k": "param", "v": r.id}
        return {"k": "other", "v": ast.unparse(e)}

    def opcall(self, e):
        e = self.resolve(e)
        if (isinstance(e, ast.Call) and isinstance(e.func, ast.Attribute) and isinstance(e.func.value, ast.Name)
                and self.ops_alias is not None and e.func.value.id == self.ops_alias):
            kws = []
            for k in e.keywords:
                if k.arg is None:
                    raise Unknown("**kwargs in operator call: " + ast.unparse(e))
                kws.append([k.arg, self.arg(k.value)])
            return {"target": {"k": "op", "v": e.func.attr}, "pos": [self.arg(a) for a in e.args], "kw": kws}
        raise Unknown("not an ops.NAME(...) call: " + ast.unparse(e))

    def call(self, e):
        """normalise a returned expression to an operator application on self"""
        e0 = e
        e = self.resolve(e)
        if not isinstance(e, ast.Call):
            raise Unknown("return of a non-call: " + ast.unparse(e0))
        f = e.func
        # RECV.pipe(OP)
        if isinstance(f, ast.Attribute) and f.attr == "pipe":
            if len(e.args) != 1 or e.keywords or isinstance(e.args[0], ast.Starred):
                raise Unknown("pipe with other than exactly one operator: " + ast.unparse(e0))
            if not self.is_self(f.value):
                self.recv_self = False
            return self.opcall(e.args[0])
        # self.method(args)
        if isinstance(f, ast.Attribute) and isinstance(f.value, ast.Name) and f.value.id == "self":
            kws = []
            for k in e.keywords:
                if k.arg is None:
                    raise Unknown("**kwargs: " + ast.unparse(e0))
                kws.append([k.arg, self.arg(k.value)])
            return {"target": {"k": "self", "v": f.attr}, "pos": [self.arg(a) for a in e.args], "kw": kws}
        # OP(RECV)
        if len(e.args) == 1 and not e.keywords and not isinstance(e.args[0], ast.Starred):
            c = self.opcall(f)
            if not self.is_self(e.args[0]):
                self.recv_self = False
            return c
        raise Unknown("unrecognised return shape: " + ast.unparse(e0))

    def guard(self, test):
        """(param, value, positive): `p is V` -> positive, `p is not V` / `not (p is V)` -> negative"""
        if isinstance(test, ast.UnaryOp) and isinstance(test.op, ast.Not):
            p, v, pos = self.guard(test.operand)
            return p, v, not pos
        if (isinstance(test, ast.Compare) and len(test.ops) == 1 and isinstance(test.ops[0], (ast.Is, ast.IsNot))
                and isinstance(test.left, ast.Name) and test.left.id in self.params and test.left.id not in self.locals):
            c = test.comparators[0]
            pos = isinstance(test.ops[0], ast.Is)
            if isinstance(c, ast.Constant) and c.value is None:
                return (test.left.id, "None", pos)
            if isinstance(c, ast.Name) and c.id not in self.params and c.id not in self.locals:
                return (test.left.id, c.id, pos)
        raise Unknown("unrecognised guard: " + ast.unparse(test))

    # -- statements
    def read(self):
        branches = []
        negs = []
        self._block(self.fn.body, negs, branches, top=True)
        return branches

    def _simple(self, st):
        """handles import / assignment / docstring; returns True if consumed"""
        if isinstance(st, ast.Expr) and isinstance(st.value, ast.Constant) and isinstance(st.value.value, str):
            return True
        if isinstance(st, ast.ImportFrom):
            for al in st.names:
                if st.module == "reactivex" and al.name == "operators" and st.level == 0:
                    self.ops_alias = al.asname or al.name
                elif (al.asname or al.name) in self.params or (al.asname or al.name) == self.ops_alias:
                    raise Unknown("import rebinding a used name: " + ast.unparse(st))
            return True
        if isinstance(st, ast.Import):
            for al in st.names:
                if al.name == "reactivex.operators" and al.asname:
                    self.ops_alias = al.asname
            return True
        if isinstance(st, (ast.Assign, ast.AnnAssign)):
            tgts = st.targets if isinstance(st, ast.Assign) else [st.target]
            if len(tgts) != 1 or not isinstance(tgts[0], ast.Name) or st.value is None:
                raise Unknown("unrecognised assignment: " + ast.unparse(st))
            n = tgts[0].id
            if n in self.locals or n in self.params or n == "self" or n == self.ops_alias:
                raise Unknown("re-assignment of " + n)
            self.locals[n] = st.value
            return True
        return False

    def _block(self, stmts, negs, branches, top):
        """stmts must be: simple*, (if G: simple* return)*, simple*, return"""
        for i, st in enumerate(stmts):
            if self._simple(st):
                continue
            if isinstance(st, ast.If):
                p, v, positive = self.guard(st.test)
                rest = stmts[i + 1:]
                if st.orelse:
                    if rest:
                        raise Unknown("code after if/else")
                    rest = st.orelse  # `if G: return A else: return B` == `if G: return A` + `return B`
                then, other = (st.body, rest) if positive else (rest, st.body)
                if not positive and st.orelse == [] and not rest:
                    raise Unknown("if without continuation")
                # normal form: the `p is V` arm first; the other arm continues under `not (p is V)`.
                # For a flipped test (`p is not V`) the arms are swapped, which is only done when the
                # arm that becomes the continuation is a plain block (no further branching is reordered).
                saved = dict(self.locals)
                inner = []
                self._block(then, negs + [["is", p, v]], inner, top=False)
                if len(inner) != 1:
                    raise Unknown("nested branching")
                branches.append(inner[0])
                self.locals = dict(saved)
                negs.append(["not", p, v])
                if positive and not st.orelse:
                    continue  # the statements after the `if` are the continuation: keep walking
                cont = []
                self._block(other, negs, cont, top=False)
                if not positive and len(cont) != 1:
                    raise Unknown("flipped test with further branching")
                branches.extend(cont)
                return
            if isinstance(st, ast.Return):
                if i != len(stmts) - 1 or st.value is None:
                    raise Unknown("code after return / bare return")
                branches.append({"guards": [list(g) for g in negs], "call": self.call(st.value)})
                return
            raise Unknown("unrecognised statement: " + ast.unparse(st)[:80])
        raise Unknown("block without return")


def guarded_params(fn: ast.FunctionDef):
    """parameters that the body tests with `is` / `is not` / `==` / truthiness anywhere (independent of whether the body's shape
    is recognised): the dynamic oracle tries sentinel-like values for them"""
    names = {a.arg for a in fn.args.args[1:] + fn.args.kwonlyargs}
    out = []
    for n in ast.walk(fn):
        tests = []
        if isinstance(n, ast.Compare):
            tests = [n.left] + list(n.comparators)
        elif isinstance(n, (ast.If, ast.IfExp, ast.While)):
            tests = [n.test]
        elif isinstance(n, ast.BoolOp):
            tests = list(n.values)
        elif isinstance(n, ast.UnaryOp) and isinstance(n.op, ast.Not):
            tests = [n.operand]
        for t in tests:
            if isinstance(t, ast.Name) and t.id in names and t.id not in out:
                out.append(t.id)
    return out


def iterable_params(fn: ast.FunctionDef):
    """parameters annotated as (possibly one-shot) iterables: the dynamic oracle also passes iterators/generators for them"""
    out = []
    for a in fn.args.args[1:] + fn.args.kwonlyargs:
        if a.annotation is not None:
            t = ast.unparse(a.annotation)
            if "Iterable" in t or "Iterator" in t:
                out.append(a.arg)
    return out


def as_observable_ok(cls: ast.ClassDef) -> bool:
    for f in cls.body:
        if isinstance(f, ast.FunctionDef) and f.name == "_as_observable":
            body = [s for s in f.body if not (isinstance(s, ast.Expr) and isinstance(s.value, ast.Constant))]
            if len(body) == 1 and isinstance(body[0], ast.Return) and body[0].value is not None:
                v = strip_cast(body[0].value)
                return isinstance(v, ast.Name) and v.id == "self" and len(f.args.args) == 1
            return False
    return False


def extract(repo: Path):
    repo = Path(repo)
    mixdir = repo / "reactivex/observable/mixins"
    methods = []
    classes = []
    for fn in sorted(mixdir.glob("*.py")):
        if fn.name == "__init__.py":
            continue
        tree = ast.parse(fn.read_text())
        for cls in [c for c in tree.body if isinstance(c, ast.ClassDef)]:
            classes.append(cls.name)
            aok = as_observable_ok(cls)
            for f in cls.body:
                if not isinstance(f, ast.FunctionDef) or f.name.startswith("_") or is_overload(f):
                    continue
                row = {"name": f.name, "cls": cls.name, "file": fn.name, "params": params_of(f, drop_self=True),
                       "recv_self": True, "branches": [], "guarded": guarded_params(f), "iterables": iterable_params(f)}
                br = BodyReader(f, aok)
                try:
                    if any(p.get("unsupported") for p in row["params"]):
                        raise Unknown("positional-only parameters")
                    if [d for d in f.decorator_list]:
                        raise Unknown("decorated method: " + ", ".join(ast.unparse(d) for d in f.decorator_list))
                    row["branches"] = br.read()
                    row["recv_self"] = br.recv_self
                except Unknown as u:
                    row["branches"] = [{"guards": [], "call": {"target": {"k": "unknown", "v": str(u)}, "pos": [], "kw": []}}]
                methods.append(row)
    # class Observable: bases and own methods
    otree = ast.parse((repo / "reactivex/observable/observable.py").read_text())
    obs = next((c for c in otree.body if isinstance(c, ast.ClassDef) and c.name == "Observable"), None)
    bases, own = [], []
    if obs is not None:
        for b in obs.bases:
            b = b.value if isinstance(b, ast.Subscript) else b
            bases.append(b.attr if isinstance(b, ast.Attribute) else getattr(b, "id", ast.unparse(b)))
        own = [f.name for f in obs.body if isinstance(f, (ast.FunctionDef, ast.AsyncFunctionDef))]
        own += [t.id for s in obs.body if isinstance(s, ast.Assign) for t in s.targets if isinstance(t, ast.Name)]
    names = [m["name"] for m in methods]
    shadowed = sorted({n for n in names if names.count(n) > 1} | {n for n in names if n in own})
    not_inherited = sorted(c for c in classes if c not in bases) if obs is not None else ["<class Observable not found>"]
    return {"methods": methods, "ops": op_signatures(repo), "shadowed": shadowed, "not_inherited": not_inherited,
            "mixin_classes": classes}


# ----------------------------------------------------------------------------- Lean emission
def ls(s: str) -> str:
    return '"' + s.replace("\\", "\\\\").replace('"', '\\"').replace("\n", "\\n").replace("\t", "\\t") + '"'


def lean_param(p):
    d = "none" if p["dflt"] is None else f"(some {ls(p['dflt'])})"
    return f"⟨{ls(p['name'])}, .{p['kind']}, {d}⟩"


def lean_arg(a):
    return f".{a['k']} {ls(a['v'])}"


def lean_call(c):
    t = c["target"]
    pos = ", ".join(lean_arg(a) for a in c["pos"])
    kw = ", ".join(f"({ls(k)}, {lean_arg(a)})" for k, a in c["kw"])
    return f"⟨.{t['k']} {ls(t['v'])}, [{pos}], [{kw}]⟩"


def lean_guard(g):
    return (".isVal " if g[0] == "is" else ".notVal ") + ls(g[1]) + " " + ls(g[2])


def emit_lean(tab) -> str:
    L = ["import RxModel.StructFluent",
         "/-! GENERATED by harness/xlate/fluent.py from reactivex/observable/mixins/*.py and reactivex/operators/__init__.py.",
         "Do not edit; regenerated on every `./check C39`. -/",
         "namespace RxGen.Fluent", "open Struct.Fluent", ""]
    names = []
    for i, m in enumerate(tab["methods"]):
        nm = f"m{i}"
        names.append(nm)
        ps = ", ".join(lean_param(p) for p in m["params"])
        bs = ",\n     ".join("⟨[" + ", ".join(lean_guard(g) for g in b["guards"]) + "], " + lean_call(b["call"]) + "⟩" for b in m["branches"])
        L.append(f"/-- `{m['cls']}.{m['name']}` ({m['file']}) -/")
        L.append(f"def {nm} : Method :=\n  ⟨{ls(m['name'])}, {ls(m['cls'])}, [{ps}],\n    [{bs}],\n    {'true' if m['recv_self'] else 'false'}⟩")
    L.append("")
    L.append("def methods : List Method :=\n  [" + ", ".join(names) + "]")
    L.append("")
    ops = []
    for o in tab["ops"]:
        ps = ", ".join(lean_param(p) for p in o["params"])
        ops.append(f"⟨{ls(o['name'])}, [{ps}]⟩")
    L.append("def ops : List OpSig :=\n  [" + ",\n   ".join(ops) + "]")
    L.append("")
    L.append("def table : Table :=\n  ⟨methods, ops, [" + ", ".join(ls(s) for s in tab["shadowed"]) + "], ["
             + ", ".join(ls(s) for s in tab["not_inherited"]) + "]⟩")
    L.append("")
    L.append("end RxGen.Fluent")
    return "\n".join(L) + "\n"


def write_if_changed(path: Path, text: str) -> bool:
    if path.exists() and path.read_text() == text:
        return False
    tmp = path.with_suffix(path.suffix + ".tmp")
    tmp.write_text(text)
    tmp.replace(path)
    return True


def regenerate(repo: Path, lean_dir: Path):
    tab = extract(repo)
    changed = write_if_changed(Path(lean_dir) / "RxGen" / "Fluent.lean", emit_lean(tab))
    unknown = [m["name"] for m in tab["methods"] if any(b["call"]["target"]["k"] == "unknown" for b in m["branches"])]
    return tab, {"methods": len(tab["methods"]), "ops": len(tab["ops"]), "unknown_shapes": unknown,
                 "shadowed": tab["shadowed"], "not_inherited": tab["not_inherited"], "table_changed": changed}

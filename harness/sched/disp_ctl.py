"""Deterministic interleaving controller for the disposable family (C25-C27).

Derived from the prototype sched/ctl.py.  Real Python threads, exactly one runs at a time.  A running thread hands
control back to the controller at every *visible operation* on the object under test:

  * acquiring an instrumented lock (the `RLock` name of every reactivex.disposable module is patched),
  * an unlocked read/write of a traced attribute (`is_disposed`, `current`, `count`, the item list, ... - the object
    under test is an instance of a generated subclass whose attributes are logging properties),
  * a call-out (`item.dispose()`, the Disposable action, `scheduler.schedule`),

and, with `lines=True`, additionally at every source line of reactivex/disposable (sys.settrace), also inside lock
blocks.  In the default mode a thread is never preempted while it holds a lock, so a `with self.lock:` block is one
atomic step - exactly the step granularity of the Lean models (RxModel/Disp.lean); the recorded event sequence is then
replayed step by step in the model.  Schedules are ENUMERATED (all schedules with at most k preemptions; a switch
away from a thread that could continue costs one preemption), never sampled.

The controller is a search / validation instrument, not an argument (DESIGN.md section 3).
"""
import sys
import threading

CUR = [None]  # the controller of the execution in progress (None: instrumentation is inert)


class Deadlock(Exception):
    pass


class _PoolThread:
    """persistent OS thread: creating a thread per run costs milliseconds on a loaded machine"""

    def __init__(self):
        import queue

        self.q = queue.SimpleQueue()
        self.th = threading.Thread(target=self._loop, daemon=True)
        self.th.start()

    def _loop(self):
        while True:
            ct = self.q.get()
            threading.current_thread()._ct = ct
            try:
                ct._main()
            finally:
                threading.current_thread()._ct = None


_POOL = []


class CT:
    def __init__(self, ctl, idx, fn):
        self.ctl, self.idx, self.fn = ctl, idx, fn
        self.done = False
        self.exited = False
        self.blocked_on = None
        self.pred = None
        self.held = 0
        self.exc = None

    def can_run(self):
        if self.done:
            return False
        if self.blocked_on is not None and self.blocked_on.owner is not None and self.blocked_on.owner is not self:
            return False
        if self.pred is not None and not self.pred():
            return False
        return True

    def _tracer(self, frame, event, arg):
        if self.ctl.target in frame.f_code.co_filename:
            if event == "line":
                self.ctl._switch(self)
            return self._tracer
        return None

    def _main(self):
        ctl = self.ctl
        try:
            with ctl.cv:
                while ctl.current is not self:
                    if ctl.error:
                        return
                    ctl.cv.wait()
            if ctl.lines:
                sys.settrace(self._tracer)
            try:
                self.fn()
            except Deadlock:
                pass
            except BaseException as e:  # noqa - reported by the caller
                self.exc = f"{type(e).__name__}: {e}"
            finally:
                sys.settrace(None)
                self.done = True
                try:
                    ctl._switch(self)
                except Deadlock:
                    pass
        finally:
            self.exited = True
            with ctl.cv:
                ctl.cv.notify_all()


class Ctl:
    def __init__(self, plan=(), lines=False, target="reactivex/disposable"):
        self.plan = list(plan)
        self.lines = lines
        self.target = target
        self.threads = []
        self.cv = threading.Condition()
        self.current = None
        self.error = None
        self.trace = []  # (tid, event tuple); tid 0 = the set-up code on the main thread
        self.decisions = []  # (chosen, runnable tids, tid of the thread that could have continued or None)
        self.recording = True
        self.main_held = 0
        self.lock_names = {}

    # ---- identity / logging
    def me(self):
        return getattr(threading.current_thread(), "_ct", None)

    def tid(self):
        me = self.me()
        return me.idx if me is not None else 0

    def log(self, *ev):
        if self.recording:
            self.trace.append((self.tid(), tuple(ev)))

    def held(self):
        me = self.me()
        return me.held if me is not None else self.main_held

    # ---- scheduling
    def spawn(self, fn):
        ct = CT(self, len(self.threads) + 1, fn)
        self.threads.append(ct)
        return ct

    def _choose(self, me):
        R = [t for t in self.threads if t.can_run()]
        if not R:
            return None
        if len(R) == 1:
            return R[0]
        prev = me.idx if (me is not None and me in R) else None
        k = len(self.decisions)
        ids = sorted(t.idx for t in R)
        if k < len(self.plan) and self.plan[k] in ids:
            ch = self.plan[k]
        elif prev is not None:
            ch = prev
        else:
            ch = ids[0]
        self.decisions.append((ch, tuple(ids), prev))
        return next(t for t in R if t.idx == ch)

    def _switch(self, me):
        with self.cv:
            nxt = self._choose(me)
            if nxt is None:
                if all(t.done for t in self.threads):
                    self.current = None
                    self.cv.notify_all()
                    return
                self.error = "deadlock"
                self.cv.notify_all()
                raise Deadlock()
            if nxt is me:
                return
            self.current = nxt
            self.cv.notify_all()
            if me is not None and not me.done:
                while self.current is not me:
                    if self.error:
                        raise Deadlock()
                    self.cv.wait()

    def point(self):
        """yield point before a visible operation of the running thread"""
        me = self.me()
        if me is None:
            return
        if me.held == 0 or self.lines:
            self._switch(me)

    def wait_until(self, pred):
        me = self.me()
        me.pred = pred
        while not pred():
            self._switch(me)
        me.pred = None

    def run(self, timeout=20.0):
        import time

        while len(_POOL) < len(self.threads):
            _POOL.append(_PoolThread())
        for t, p in zip(self.threads, _POOL):
            p.q.put(t)
        with self.cv:
            nxt = self._choose(None)
            self.current = nxt
            self.cv.notify_all()
            end = time.time() + timeout
            while not all(t.exited for t in self.threads):
                left = end - time.time()
                if left <= 0:
                    break
                self.cv.wait(left)
            if not all(t.exited for t in self.threads):
                self.error = self.error or "timeout"
                self.cv.notify_all()
                del _POOL[:]  # the stuck threads are abandoned (daemon)
        return self.error is None

    def preemptions(self):
        return sum(1 for ch, R, prev in self.decisions if prev is not None and ch != prev)


class ILock:
    """Cooperative re-entrant lock; inert (a counter) when no controller is active or on the main thread."""

    def __init__(self):
        self.owner = None
        self.count = 0

    def acquire(self, blocking=True, timeout=-1):
        ctl = CUR[0]
        me = ctl.me() if ctl is not None else None
        if me is None:
            self.count += 1
            if ctl is not None:
                if self.count == 1:
                    ctl.main_held += 1
                    ctl.log("L", ctl.lock_names.get(id(self), 99))
            return True
        if self.owner is me:
            self.count += 1
            return True
        ctl.point()
        while self.owner is not None:
            me.blocked_on = self
            ctl._switch(me)
        me.blocked_on = None
        self.owner = me
        self.count = 1
        me.held += 1
        ctl.log("L", ctl.lock_names.get(id(self), 99))
        return True

    def release(self):
        ctl = CUR[0]
        me = ctl.me() if ctl is not None else None
        self.count -= 1
        if me is None:
            if ctl is not None and self.count == 0:
                ctl.main_held -= 1
            return
        if self.count == 0:
            self.owner = None
            me.held -= 1
            ctl.log("U", ctl.lock_names.get(id(self), 99))  # end of the lock block (not a step event)

    def __enter__(self):
        self.acquire()
        return self

    def __exit__(self, *a):
        self.release()


# ---- traced attributes ---------------------------------------------------------------------------------------
def _abstract(name, v):
    if name in ("current", "parent"):
        return v is not None
    if name == "disposable":
        return len(v) > 0
    if name == "count":
        return v != 0
    return bool(v)


def _mk_prop(name):
    key = "_tr_" + name

    def getter(self):
        ctl = CUR[0]
        if ctl is not None and ctl.recording and ctl.held() == 0:
            ctl.point()
            v = self.__dict__[key]
            ctl.log("R", _abstract(name, v))
            return v
        return self.__dict__[key]

    def setter(self, v):
        ctl = CUR[0]
        if ctl is not None and ctl.recording and ctl.held() == 0:
            ctl.point()
            self.__dict__[key] = v
            ctl.log("W")
            return
        self.__dict__[key] = v

    return property(getter, setter)


def traced_class(cls, attrs, extra=None):
    """subclass of `cls` whose instance attributes `attrs` are logging properties (values live in __dict__['_tr_'+name])"""
    ns = dict(extra or {})
    for a in attrs:
        ns[a] = _mk_prop(a)
    return type("Traced" + cls.__name__, (cls,), ns)


def raw(obj, name):
    d = obj.__dict__
    return d["_tr_" + name] if ("_tr_" + name) in d else d[name]


# ---- lock patching -------------------------------------------------------------------------------------------
_MODS = ["disposable", "booleandisposable", "compositedisposable", "serialdisposable", "singleassignmentdisposable",
         "multipleassignmentdisposable", "refcountdisposable", "scheduleddisposable"]


class patched_locks:
    def __enter__(self):
        import importlib

        self.saved = []
        for m in _MODS:
            mod = importlib.import_module("reactivex.disposable." + m)
            self.saved.append((mod, mod.RLock))
            mod.RLock = ILock
        return self

    def __exit__(self, *a):
        for mod, v in self.saved:
            mod.RLock = v
        CUR[0] = None


# ---- enumeration ---------------------------------------------------------------------------------------------
def explore(run_plan, bound, max_runs):
    """Enumerate every schedule with at most `bound` preemptions.  run_plan(plan) -> dict with key "decisions".
    Yields each result; stops after max_runs executions (the caller reports truncation)."""
    stack = [[]]
    n = 0
    while stack:
        if n >= max_runs:
            yield {"truncated": len(stack)}
            return
        plan = stack.pop()
        res = run_plan(plan)
        n += 1
        yield res
        decs = res["decisions"]
        pre = 0
        for j, (ch, R, prev) in enumerate(decs):
            if j >= len(plan):
                for t in R:
                    if t != ch:
                        cost = pre + (1 if (prev is not None and t != prev) else 0)
                        if cost <= bound:
                            stack.append([d[0] for d in decs[:j]] + [t])
            if prev is not None and ch != prev:
                pre += 1

"""Deterministic thread-interleaving controller (family Thr2: C43, C33, C34).

Extension of the design prototype `sched/ctl.py`:

* real Python threads, exactly one running at a time; a `sys.settrace` line hook in frames whose
  file name contains one of `targets` hands control back to the controller (a *yield point*);
* every blocking primitive used by the code under test is cooperative: a thread that waits for a
  lock / event / future / point in (controlled) time is simply not schedulable
  (`Controller.wait_until(pred)`), so the controller never blocks for real;
* schedules are *enumerated*, not sampled: a schedule is `first` (thread that starts) plus a list
  of preemptions `[step, to]` ("at global yield point number `step` switch to thread `to`");
  without a preemption the running thread keeps running until it blocks or ends, then the lowest
  runnable index continues.  A schedule is replayable from that compact description; the full
  list of thread indices chosen at each yield point is recorded in `Controller.choices`;
* threads may be spawned while the run is in progress (threading.Timer / thread factories);
* a controlled clock (`Controller.clock`, integer ticks) that advances only through
  `advance_clock` or, when `auto_clock` is set, when every live thread is blocked and at least one
  waits for a point in time.

Outcome of `run()`: "ok" | "deadlock" | "steps" (step budget exhausted) | "hang" (a thread did not come
back within the wall-clock watchdog: a harness problem, never a property verdict).
"""
from __future__ import annotations

import os
import sys
import threading
import time as _time

_REAL_RLOCK = threading.RLock
_REAL_LOCK = threading.Lock

CURRENT: "Controller | None" = None  # the controller of the run in progress in this process


class Abort(BaseException):
    """Raised inside controlled threads to unwind them when a run is abandoned."""


class _Worker:
    """A pooled OS thread that runs one controlled thread (`CT`) after the other."""

    def __init__(self):
        self.job = None
        self.wake = _REAL_LOCK()
        self.wake.acquire()
        self.th = threading.Thread(target=self.loop, daemon=True, name="thr2-worker")
        self.th._ct = None
        self.th.start()

    def loop(self):
        while True:
            self.wake.acquire()
            ct = self.job
            self.th._ct = ct
            try:
                ct._main()
            finally:
                self.th._ct = None
                self.job = None
                ct.ended.set()
                _POOL.append(self)


_POOL: list = []
os.register_at_fork(after_in_child=_POOL.clear)


class CT:
    """A controlled thread.  It runs only while it holds the baton (`gate` released to it)."""

    def __init__(self, ctl, idx, fn, name):
        self.ctl, self.idx, self.fn, self.name = ctl, idx, fn, name
        self.done = False
        self.started = False
        self.pred = None  # blocking predicate (callable -> bool) or None
        self.wake_at = None  # controlled-clock instant at which `pred` may become true by itself
        self.exc = None
        self.gate = _REAL_LOCK()
        self.gate.acquire()
        self.ended = threading.Event()

    def start(self):
        w = _POOL.pop() if _POOL else _Worker()
        w.job = self
        w.wake.release()

    def _tracer(self, frame, event, arg):
        fn = frame.f_code.co_filename
        for t, kind, funcs in self.ctl.target_kinds:
            if t in fn:
                if funcs is not None and frame.f_code.co_name not in funcs:
                    return None
                if event == "line":
                    self.ctl.yield_point(self, kind)
                return self._tracer
        return None

    def _wait_baton(self):
        ctl = self.ctl
        if not self.gate.acquire(timeout=4 * ctl.wall):
            ctl._abort("hang")
        if ctl.aborted:
            raise Abort()

    def _main(self):
        ctl = self.ctl
        try:
            self._wait_baton()
            sys.settrace(self._tracer)
            self.fn()
        except Abort:
            pass
        except BaseException as e:  # noqa: recorded, reported by the caller
            self.exc = e
        finally:
            sys.settrace(None)
            self.done = True
            if not ctl.aborted:
                ctl._handoff(self, finished=True)


class Controller:
    def __init__(self, targets, first=0, pre=(), max_steps=20000, wall=8.0, auto_clock=False):
        # a target is a file-name fragment, or (fragment, {function names}) to gate only those functions
        self.targets = tuple(t if isinstance(t, str) else t[0] for t in targets)
        self.target_kinds = tuple(
            (t if isinstance(t, str) else t[0],
             "ado" if "autodetachobserver" in (t if isinstance(t, str) else t[0])
             else "lock" if "concurrency" in (t if isinstance(t, str) else t[0])
             else "aio" if "asyncio/" in (t if isinstance(t, str) else t[0]) else "op",
             None if isinstance(t, str) else frozenset(t[1])) for t in targets)
        self.kinds: list[str] = []  # kind of every yield point, parallel to `choices`
        self.first = first
        self.pre = {int(s): int(t) for s, t in pre}
        self.max_steps = max_steps
        self.wall = wall
        self.auto_clock = auto_clock
        self.threads: list[CT] = []
        self.current: CT | None = None
        self.steps = 0
        self.choices: list[int] = []
        self.log: list = []  # event log appended by instrumentation (global order = real order)
        self.clock = 0
        self.aborted = False
        self.outcome = None
        self.preempted = 0  # preemptions that actually switched thread
        self.locks_made = 0
        self.op_sites = ()  # file-name fragments: acquisitions made from these files are tagged "op"
        self.role_fn = None  # origin -> role label for locks whose acquire/release is logged
        self.finished = threading.Event()
        self.no_preempt = False  # while set, the schedule's preemptions are ignored (yield points still counted)

    # ------------------------------------------------------------------ threads
    def me(self) -> CT | None:
        return getattr(threading.current_thread(), "_ct", None)

    def spawn(self, fn, name="t") -> CT:
        ct = CT(self, len(self.threads), fn, name)
        self.threads.append(ct)
        if self.outcome == "running":  # spawned while running
            ct.started = True
            ct.start()
        return ct

    def _runnable(self, t: CT) -> bool:
        if t.done:
            return False
        if t.pred is None:
            return True
        try:
            return bool(t.pred())
        except Exception:
            return True

    def _pick(self, me: CT | None, preempt_to=None) -> CT | None:
        r = [t for t in self.threads if self._runnable(t)]
        if not r and self.auto_clock:
            w = [t.wake_at for t in self.threads if not t.done and t.wake_at is not None and t.wake_at > self.clock]
            if w:
                self.clock = min(w)
                self.log.append(("clock", self.clock))
                r = [t for t in self.threads if self._runnable(t)]
        if not r:
            return None
        if preempt_to is not None:
            c = [t for t in r if t.idx == preempt_to]
            if c:
                return c[0]
        if me is not None and me in r:
            return me
        return r[0]

    def _handoff(self, me: CT, finished=False, preempt_to=None, record=False):
        """Called by the thread holding the baton.  Choose who runs next, pass the baton and (unless
        finished) wait until it comes back."""
        nxt = self._pick(None if finished else me, preempt_to)
        if record:
            self.choices.append(nxt.idx if nxt is not None else -1)
        if nxt is None:
            if all(t.done for t in self.threads):
                self.current = None
                self.finished.set()
                return
            self._abort("deadlock")
            if finished:
                return
            raise Abort()
        if nxt is not me:
            if preempt_to is not None and not finished:
                self.preempted += 1
            self.current = nxt
            nxt.gate.release()
            if finished:
                return
            me._wait_baton()

    def _abort(self, why):
        if not self.aborted:
            self.aborted = True
            self.outcome = why
            for t in self.threads:
                try:
                    t.gate.release()
                except RuntimeError:
                    pass
            self.finished.set()

    def yield_point(self, me: CT | None = None, kind="x"):
        """A scheduling point of the running thread."""
        me = me or self.me()
        if me is None:
            return
        if self.aborted:
            raise Abort()
        self.kinds.append(kind)
        s = self.steps
        self.steps += 1
        if self.steps > self.max_steps:
            self._abort("steps")
            raise Abort()
        to = None if self.no_preempt else self.pre.get(s)
        self._handoff(me, preempt_to=to if to != me.idx else None, record=True)

    def wait_until(self, pred, wake_at=None):
        """Block the calling controlled thread until pred() holds (cooperatively)."""
        me = self.me()
        if me is None:
            if not pred():
                raise RuntimeError("uncontrolled thread would block on an instrumented primitive")
            return
        if pred():
            return
        me.pred, me.wake_at = pred, wake_at
        try:
            if self.aborted:
                raise Abort()
            self._handoff(me)
        finally:
            me.pred, me.wake_at = None, None

    def advance_clock(self, to):
        if to > self.clock:
            self.clock = to
            self.log.append(("clock", self.clock))

    def run(self):
        global CURRENT
        CURRENT = self
        self.outcome = "running"
        try:
            for t in self.threads:
                if not t.started:
                    t.started = True
                    t.start()
            f = [t for t in self.threads if t.idx == self.first and self._runnable(t)]
            nxt = f[0] if f else self._pick(None)
            if nxt is None:
                if not all(t.done for t in self.threads):
                    self._abort("deadlock")
                else:
                    self.finished.set()
            else:
                self.current = nxt
                nxt.gate.release()
            if not self.finished.wait(self.wall):
                self._abort("hang")
            i = 0
            while i < len(self.threads):  # threads may have been appended while running
                t = self.threads[i]
                if not t.ended.wait(2.0) and self.outcome == "running":
                    self._abort("hang")
                i += 1
            if self.outcome == "running":
                self.outcome = "ok"
            return self.outcome
        finally:
            CURRENT = None

    # ------------------------------------------------------------------ instrumented primitives
    def make_rlock(self, origin=None):
        return ILock(self, origin)


class ILock:
    """Cooperative re-entrant lock (also used for plain `Lock`: the code under test never relies on
    self-deadlock).  Works for uncontrolled threads too (setup phase in the main thread)."""

    __slots__ = ("ctl", "owner", "count", "origin", "seq", "role")

    def __init__(self, ctl, origin=None):
        self.ctl = ctl
        self.owner = None
        self.count = 0
        self.origin = origin
        self.role = ctl.role_fn(origin) if (ctl is not None and ctl.role_fn is not None) else None
        if ctl is not None:
            ctl.locks_made += 1
            self.seq = ctl.locks_made
        else:
            self.seq = 0
        if self.role == "OBS":
            self.role = f"OBS{self.seq}"

    def _who(self):
        ctl = self.ctl
        me = ctl.me() if ctl is not None else None
        return me if me is not None else ("T", threading.get_ident())

    def acquire(self, blocking=True, timeout=-1):
        who = self._who()
        if self.owner is not None and self.owner != who:
            if not blocking:
                return False
            if isinstance(who, tuple):
                raise RuntimeError("uncontrolled thread would block on an instrumented lock")
            self.ctl.wait_until(lambda: self.owner is None or self.owner == who)
        self.owner = who
        self.count += 1
        if self.count == 1:
            HELD.setdefault(threading.get_ident(), []).append(self)
            if self.role is not None and self.ctl is not None:
                f = sys._getframe(1)
                if f.f_code.co_name == "__enter__":
                    f = f.f_back
                fn = f.f_code.co_filename
                site = "op" if any(t in fn for t in self.ctl.op_sites) else "x"
                self.ctl.log.append((getattr(who, "idx", -1), "acq", self.role, site))
        return True

    def release(self):
        self.count -= 1
        if self.count == 0:
            who = self.owner
            self.owner = None
            h = HELD.get(threading.get_ident())
            if h and self in h:
                h.remove(self)
            if self.role is not None and self.ctl is not None:
                self.ctl.log.append((getattr(who, "idx", -1), "rel", self.role))

    def __enter__(self):
        self.acquire()
        return self

    def __exit__(self, *a):
        self.release()

    def locked(self):
        return self.owner is not None

    def _is_owned(self):  # threading.Condition support
        return self.owner == self._who()


class CEvent:
    """threading.Event, cooperative, with timeouts on the controlled clock (1 s = 1 tick)."""

    def __init__(self, ctl):
        self.ctl = ctl
        self.flag = False

    def _log(self, what, val=None):
        me = self.ctl.me()
        self.ctl.log.append(("EV", me.idx if me is not None else -1, what, val))

    def set(self):
        self.flag = True
        self._log("set")

    def clear(self):
        self.flag = False

    def is_set(self):
        self._log("isset", self.flag)
        return self.flag

    def wait(self, timeout=None):
        ctl = self.ctl
        self._log("wait")
        if timeout is None:
            ctl.wait_until(lambda: self.flag)
        else:
            deadline = ctl.clock + max(0.0, float(timeout))
            ctl.wait_until(lambda: self.flag or ctl.clock >= deadline, wake_at=int(-(-deadline // 1)))
        self._log("waitret", self.flag)
        return self.flag


class CCondition:
    """threading.Condition over a cooperative lock; wait(timeout) on the controlled clock."""

    def __init__(self, ctl, lock=None):
        self.ctl = ctl
        self.lock = lock if isinstance(lock, ILock) else ILock(ctl, None)
        self.gen = 0

    def __enter__(self):
        self.lock.acquire()
        return self

    def __exit__(self, *a):
        self.lock.release()

    def acquire(self, *a, **k):
        return self.lock.acquire(*a, **k)

    def release(self):
        self.lock.release()

    def wait(self, timeout=None):
        ctl = self.ctl
        gen = self.gen
        n = self.lock.count
        who = self.lock.owner
        self.lock.count = 1
        self.lock.release()
        if timeout is None:
            ctl.wait_until(lambda: self.gen != gen)
        else:
            deadline = ctl.clock + max(0.0, float(timeout))
            ctl.wait_until(lambda: self.gen != gen or ctl.clock >= deadline, wake_at=int(-(-deadline // 1)))
        notified = self.gen != gen
        self.lock.acquire()
        self.lock.count = n
        me = ctl.me()
        ctl.log.append(("W", me.idx if me is not None else -1, not notified))
        return notified

    def notify(self, n=1):
        self.gen += 1

    def notify_all(self):
        self.gen += 1


HELD: dict = {}  # thread ident -> list of ILocks held (outermost acquisitions, in order)


def held_locks():
    return list(HELD.get(threading.get_ident(), ()))


# ---------------------------------------------------------------------- patching reactivex
class _ThreadingProxy:
    """Stands in for the `threading` module inside reactivex modules that call `threading.RLock()`."""

    def __init__(self, real):
        self._real = real

    def __getattr__(self, k):
        return getattr(self._real, k)

    @staticmethod
    def RLock():
        return lock_factory(2)

    @staticmethod
    def Lock():
        return lock_factory(2)

    @staticmethod
    def Condition(lock=None):
        ctl = CURRENT_SETUP[0] or CURRENT
        if ctl is None:
            return threading.Condition(lock)
        return CCondition(ctl, lock)

    @staticmethod
    def Event():
        ctl = CURRENT_SETUP[0] or CURRENT
        if ctl is None:
            return threading.Event()
        return CEvent(ctl)


def lock_factory(depth=1):
    """Replacement for RLock()/Lock() in reactivex modules: an ILock of the controller in progress
    (tagged with the creating file/function), or a real RLock when no controlled run is active."""
    ctl = CURRENT_SETUP[0] or CURRENT
    if ctl is None:
        return _REAL_RLOCK()
    f = sys._getframe(depth)
    fn = f.f_code.co_filename
    i = fn.rfind("reactivex/")
    origin = (fn[i:] if i >= 0 else fn, f.f_code.co_name)
    return ILock(ctl, origin)


CURRENT_SETUP = [None]  # controller whose scenario is being set up (before run())
_PATCHED = []


def patch_reactivex():
    """Replace every `RLock`/`Lock`/`threading` attribute of the loaded reactivex modules by the
    cooperative versions (idempotent; `unpatch_reactivex` restores)."""
    import reactivex  # noqa: F401  (make sure the package is loaded)
    import reactivex.operators  # noqa: F401
    import reactivex.scheduler  # noqa: F401
    import reactivex.subject  # noqa: F401

    if _PATCHED:
        return
    import importlib
    import pkgutil

    for pkg in ("reactivex.observable", "reactivex.operators", "reactivex.internal", "reactivex.disposable",
                "reactivex.observer", "reactivex.subject"):
        p = importlib.import_module(pkg)
        for m in pkgutil.iter_modules(p.__path__):
            try:
                importlib.import_module(f"{pkg}.{m.name}")
            except Exception:
                pass
    for m in ("reactivex.scheduler.eventloop.asyncioscheduler", "reactivex.scheduler.eventloop.asynciothreadsafescheduler"):
        importlib.import_module(m)
    real_threading = threading
    for name, mod in list(sys.modules.items()):
        if not name.startswith("reactivex") or mod is None:
            continue
        d = getattr(mod, "__dict__", {})
        for attr in ("RLock", "Lock"):
            v = d.get(attr)
            if v is _REAL_RLOCK or v is _REAL_LOCK:
                _PATCHED.append((mod, attr, v))
                setattr(mod, attr, lock_factory)
        if d.get("threading") is real_threading:
            _PATCHED.append((mod, "threading", real_threading))
            setattr(mod, "threading", _ThreadingProxy(real_threading))


def unpatch_reactivex():
    while _PATCHED:
        mod, attr, v = _PATCHED.pop()
        setattr(mod, attr, v)


class setup:
    """`with setup(ctl): build subjects/operators/subscriptions` — locks created inside belong to ctl."""

    def __init__(self, ctl):
        self.ctl = ctl

    def __enter__(self):
        patch_reactivex()
        CURRENT_SETUP[0] = self.ctl
        HELD.clear()
        return self.ctl

    def __exit__(self, *a):
        CURRENT_SETUP[0] = None


# ---------------------------------------------------------------------- schedule enumeration
def children(pre, choices, nthreads, stride=1, offset=0, kinds=None, allowed=None):
    """All one-preemption extensions of schedule `pre` (list of [step, to]) of a run whose recorded
    choices were `choices`: later steps only, every thread other than the one that ran there.
    With `allowed` (a set of yield-point kinds) only yield points of those kinds are preempted."""
    lo = (pre[-1][0] + 1) if pre else 0
    for s in range(lo + offset, len(choices), stride):
        if allowed is not None and kinds[s] not in allowed:
            continue
        for to in range(nthreads):
            if to != choices[s]:
                yield list(pre) + [[s, to]]

"""C43 scenarios: the real combinators driven by one thread per source under the interleaving
controller, and the single-threaded instrumented runs behind the lock table (RxGen/Locks.lean).

A scenario is JSON:
  {"op": <combinator>, "scripts": [script_0, script_1, ...], "first": i, "pre": [[step, to], ...]}
one script per thread.  Items: ["N", v] / ["E", name] / ["C"] drive the thread's own Subject;
for the higher-order combinators thread 0 is the OUTER source and ["I", k] emits inner k (threads
1.. drive inner 0..); for the window operators thread 1 is the TIMER thread and ["T"] fires the
operator's pending timer action on it.  "sub_thread": true — the subscription itself runs on one more controlled
thread (index = number of scripts); the source waits until it is subscribed, the timer thread does not.
"""
from __future__ import annotations

import sys
import threading

from . import thr2_ctl as tc

OPS = ["merge", "merge_all", "merge_maxc", "flat_map", "zip", "combine_latest", "with_latest_from", "amb",
       "window_time", "window_toc", "window_count", "buffer_time"]
HIGHER = ("merge_all", "merge_maxc", "flat_map")
WINDOW = ("window_time", "window_toc", "window_count", "buffer_time")  # source thread 0 (+ timer thread 1)
NO_TIMER = ("window_count",)  # single source, no timer: only one thread ever reaches the operator

# files whose lines are yield points, per combinator (plus the lock wrapper and the downstream observer)
OP_FILES = {
    "merge": ["reactivex/operators/_merge.py", "reactivex/observable/merge.py"],
    "merge_all": ["reactivex/operators/_merge.py"],
    "merge_maxc": ["reactivex/operators/_merge.py"],
    "flat_map": ["reactivex/operators/_merge.py", "reactivex/operators/_flatmap.py"],
    "zip": ["reactivex/observable/zip.py"],
    "combine_latest": ["reactivex/observable/combinelatest.py"],
    "with_latest_from": ["reactivex/observable/withlatestfrom.py"],
    "amb": ["reactivex/operators/_amb.py"],
    "window_time": ["reactivex/operators/_windowwithtime.py"],
    "window_toc": ["reactivex/operators/_windowwithtimeorcount.py"],
    "window_count": ["reactivex/operators/_windowwithcount.py"],
    "buffer_time": ["reactivex/operators/_windowwithtime.py", "reactivex/operators/_merge.py", "reactivex/operators/_bufferwithtime.py"],
}
COMMON_FILES = ["reactivex/internal/concurrency.py", "reactivex/observer/autodetachobserver.py"]


class ManualScheduler:
    """Scheduler whose timed actions run only when `fire()` is called (by the timer thread)."""

    def __init__(self):
        from datetime import datetime, timezone

        self._now = datetime(2020, 1, 1, tzinfo=timezone.utc)
        self.pending = []
        self.all = []
        self.count = 0
        self.fired = []  # creation numbers of the timers fired, in order (None: nothing was pending)

    @property
    def now(self):
        return self._now

    def schedule(self, action, state=None):
        return self.schedule_relative(0, action, state)

    def schedule_absolute(self, duetime, action, state=None):
        return self.schedule_relative(0, action, state)

    def schedule_relative(self, duetime, action, state=None):
        from reactivex.disposable import Disposable

        item = [action, state, False, self.count]
        self.count += 1
        self.all.append(item)
        self.pending.append(item)

        def dispose():
            item[2] = True

        return Disposable(dispose)

    def fire(self, which=None):
        """Run the oldest pending timer that is not cancelled.  `which` (sequential replay of a concurrent run):
        run exactly that timer, as the concurrent run did — there the timer thread had taken it before a
        concurrent handler cancelled it."""
        if which is not None:
            item = self.all[which]
            if item in self.pending:
                self.pending.remove(item)
            self.fired.append(which)
            item[0](self, item[1])
            return True
        while self.pending:
            action, state, cancelled, n = self.pending.pop(0)
            if not cancelled:
                self.fired.append(n)
                action(self, state)
                return True
        self.fired.append(None)
        return False


class Recorder:
    """The downstream subscriber.  Every callback logs enter/exit with the calling thread and has a
    yield point inside, so that another thread can be scheduled while this one is 'in' the observer."""

    def __init__(self, ctl, shared, name="out"):
        self.ctl, self.shared, self.name = ctl, shared, name

    def _cb(self, kind, v):
        ctl, sh = self.ctl, self.shared
        me = ctl.me()
        tid = me.idx if me is not None else -1
        if kind == "N" and sh.get("windows") is not None and hasattr(v, "subscribe"):
            k = len(sh["windows"])
            sh["windows"].append(v)
            val = f"W{k}"
            wrec = Recorder(ctl, sh, val)
            ctl.log.append((tid, "enter", self.name, kind, val))
            self._in(tid)
            v.subscribe(wrec.on_next, wrec.on_error, wrec.on_completed)
        else:
            val = v
            ctl.log.append((tid, "enter", self.name, kind, val))
            self._in(tid)
        ctl.yield_point(None, "cb")
        self._out(tid)
        ctl.log.append((tid, "exit", self.name))

    def _in(self, tid):
        a = self.shared["active"]
        a[tid] = a.get(tid, 0) + 1
        n = sum(1 for t, c in a.items() if c > 0)
        if n > self.shared["max"]:
            self.shared["max"] = n

    def _out(self, tid):
        self.shared["active"][tid] -= 1

    def on_next(self, v):
        self._cb("N", v)

    def on_error(self, e):
        self._cb("E", getattr(e, "name", type(e).__name__))

    def on_completed(self):
        self._cb("C", None)


def build(op, nthreads, ctl, params=None):
    """Build the combinator over fresh Subjects; returns (observable, drivers, sources, sched).
    drivers[k](item) performs one script item of thread k."""
    import reactivex as rx
    from reactivex import operators as ops
    from reactivex.subject import Subject

    import fw

    params = params or {}
    sched = None

    def drive_subject(s):
        def d(item):
            if item[0] == "N":
                s.on_next(item[1])
            elif item[0] == "E":
                s.on_error(fw.InjectedError(item[1]))
            elif item[0] == "C":
                s.on_completed()
            else:
                raise ValueError(item)

        return d

    if op in HIGHER:
        outer = Subject()
        inners = [Subject() for _ in range(max(1, nthreads - 1))]
        if op == "merge_all":
            obs = outer.pipe(ops.merge_all())
        elif op == "merge_maxc":
            obs = outer.pipe(ops.merge(max_concurrent=params.get("maxc", 1)))
        else:
            obs = outer.pipe(ops.flat_map(lambda k: cold if k == "J" else inners[k]))
        base = drive_subject(outer)

        cold = rx.of(7, 8)  # a synchronous inner: emits and completes inside the outer's on_next

        def d0(item):
            if item[0] == "J":
                outer.on_next("J" if op == "flat_map" else cold)
            elif item[0] == "I":
                outer.on_next(item[1] if op == "flat_map" else inners[item[1]])
            else:
                base(item)

        drivers = [d0] + [drive_subject(s) for s in inners]
        sources = [outer] + inners
    elif op in WINDOW:
        src = Subject()
        sched = ManualScheduler()
        if op == "window_time":
            shift = params.get("shift")
            obs = src.pipe(ops.window_with_time(1.0, shift, scheduler=sched))
        elif op == "window_count":
            obs = src.pipe(ops.window_with_count(params.get("count", 2), params.get("skip")))
        elif op == "buffer_time":
            obs = src.pipe(ops.buffer_with_time(1.0, scheduler=sched))
        else:
            obs = src.pipe(ops.window_with_time_or_count(1.0, params.get("count", 2), scheduler=sched))

        def dt(item):
            if item[0] != "T":
                raise ValueError(item)
            if len(item) > 1:  # ["T", n]: sequential replay, fire timer number n (or nothing for -1)
                if item[1] >= 0:
                    sched.fire(item[1])
            else:
                sched.fire()

        drivers = [drive_subject(src)] if op in NO_TIMER else [drive_subject(src), dt]
        sources = [src]
    else:
        subs = [Subject() for _ in range(nthreads)]
        if op == "zip":
            obs = rx.zip(*subs)
        elif op == "combine_latest":
            obs = rx.combine_latest(*subs)
        elif op == "with_latest_from":
            obs = subs[0].pipe(ops.with_latest_from(*subs[1:]))
        elif op == "amb":
            obs = subs[0].pipe(ops.amb(subs[1])) if len(subs) == 2 else rx.amb(*subs)
        elif op == "merge":
            obs = rx.merge(*subs)
        else:
            raise ValueError(op)
        drivers = [drive_subject(s) for s in subs]
        sources = subs
    return obs, drivers, sources, sched


def _role_fn(op):
    files = OP_FILES[op]

    def role(origin):
        if origin and any(origin[0].endswith(f.split("reactivex/")[1]) for f in files):
            return "OP"
        if origin and origin[0].endswith("observable/observable.py") and origin[1] == "__init__":
            return "OBS"  # completed to OBS<creation number> by ILock
        return None

    return role


def _mark_source_locks(op, obs, sources):
    """Label the locks the combinators use through `source.lock` (the first source / the outer)."""
    for k, s in enumerate(sources):
        lk = getattr(s, "lock", None)
        if isinstance(lk, tc.ILock) and lk.role is None:
            lk.role = f"S{k}"


def _patch_ado_calls(ctl, rec):
    """Log every call *attempt* on the downstream AutoDetachObserver (the operator's `observer`)."""
    from reactivex.observer.autodetachobserver import AutoDetachObserver as A

    orig = (A.on_next, A.on_error, A.on_completed)

    def mine(self):
        return getattr(self._on_next, "__self__", None) is rec

    def on_next(self, v):
        if mine(self):
            me = ctl.me()
            ctl.log.append((me.idx if me else -1, "call", "N"))
        return orig[0](self, v)

    def on_error(self, e):
        if mine(self):
            me = ctl.me()
            ctl.log.append((me.idx if me else -1, "call", "E"))
        return orig[1](self, e)

    def on_completed(self):
        if mine(self):
            me = ctl.me()
            ctl.log.append((me.idx if me else -1, "call", "C"))
        return orig[2](self)

    A.on_next, A.on_error, A.on_completed = on_next, on_error, on_completed

    def restore():
        A.on_next, A.on_error, A.on_completed = orig

    return restore


def run_threads(case, wall=8.0, max_steps=6000):
    """One schedule of one scenario on the real code.  Returns a JSON-able record."""
    op = case["op"]
    scripts = case["scripts"]
    targets = OP_FILES[op] + COMMON_FILES
    ctl = tc.Controller(targets, first=case.get("first", 0), pre=case.get("pre", ()), wall=wall, max_steps=max_steps)
    ctl.role_fn = _role_fn(op)
    ctl.op_sites = tuple(OP_FILES[op]) + ("reactivex/internal/concurrency.py",)
    shared = {"active": {}, "max": 0, "windows": [] if op in WINDOW else None}
    rec = Recorder(ctl, shared)
    restore = None
    try:
        with tc.setup(ctl):
            obs, drivers, sources, sched = build(op, len(scripts), ctl, case.get("params"))
            _mark_source_locks(op, obs, sources)
            restore = _patch_ado_calls(ctl, rec)
            sub_thread = bool(case.get("sub_thread"))
            state = {"subscribed": not sub_thread}
            if not sub_thread:
                obs.subscribe(rec.on_next, rec.on_error, rec.on_completed)
            # locks created during subscribe in the operator's module got role "OP" at creation
            for k, script in enumerate(scripts):
                def body(k=k, script=script):
                    if k == 0 and sub_thread:
                        ctl.wait_until(lambda: state["subscribed"])  # the source emits once it has been subscribed
                    for j, item in enumerate(script):
                        ctl.yield_point(None, "H")
                        ctl.log.append((k, "H", j))
                        drivers[k](item)
                ctl.spawn(body, f"src{k}")
            if sub_thread:
                # the combinator is subscribed on its own controlled thread: the operator's timer thread may fire while
                # that thread is still inside subscribe() (after the first timer has been armed)
                def subscriber():
                    obs.subscribe(rec.on_next, rec.on_error, rec.on_completed)
                    state["subscribed"] = True

                ctl.spawn(subscriber, "subscriber")
        outcome = ctl.run()
    finally:
        if restore:
            restore()
    excs = [f"{t.idx}:{type(t.exc).__name__}:{t.exc}" for t in ctl.threads if t.exc is not None]
    return {"outcome": outcome, "fired": list(sched.fired) if sched is not None else [], "steps": ctl.steps, "choices": ctl.choices, "kinds": ctl.kinds, "log": _jsonable(ctl.log),
            "max_active": shared["max"], "excs": excs, "preempted": ctl.preempted}


def _jsonable(log):
    out = []
    for e in log:
        out.append([x if isinstance(x, (int, str, type(None), bool)) else repr(x) for x in e])
    return out


def run_sequential(case, order, fired=()):
    """The same scenario single-threaded, handlers in the given order [(thread, item index), ...]
    (no controller thread; locks still instrumented); `fired`: the timers the timer thread took, in its
    item order.  Returns the downstream event list."""
    op = case["op"]
    scripts = case["scripts"]
    ctl = tc.Controller([], first=0)
    ctl.role_fn = _role_fn(op)
    shared = {"active": {}, "max": 0, "windows": [] if op in WINDOW else None}
    rec = Recorder(ctl, shared)
    with tc.setup(ctl):
        obs, drivers, sources, sched = build(op, len(scripts), ctl, case.get("params"))
        obs.subscribe(rec.on_next, rec.on_error, rec.on_completed)
        for k, j in order:
            item = scripts[k][j]
            if item[0] == "T" and j < len(fired):
                item = ["T", -1 if fired[j] is None else fired[j]]
            drivers[k](item)
    return downstream(_jsonable(ctl.log))


def run_seq_calls(op, order, outer, inners):
    """merge_all / flat_map single-threaded: handlers in the given order (thread 0 = outer, k+1 = inner k);
    returns the calls made on the downstream observer and the callbacks entered (kinds)."""
    nthreads = 1 + len(inners)
    ctl = tc.Controller([], first=0)
    ctl.role_fn = _role_fn(op)
    shared = {"active": {}, "max": 0, "windows": None}
    rec = Recorder(ctl, shared)
    pos = [0] * nthreads
    scripts = [outer] + inners
    restore = None
    try:
        with tc.setup(ctl):
            obs, drivers, sources, sched = build(op, max(nthreads, 2), ctl, None)
            restore = _patch_ado_calls(ctl, rec)
            obs.subscribe(rec.on_next, rec.on_error, rec.on_completed)
            for t in order:
                if pos[t] < len(scripts[t]):
                    item = scripts[t][pos[t]]
                    pos[t] += 1
                    drivers[t](item)
    finally:
        if restore:
            restore()
    calls = [e[2] for e in ctl.log if len(e) == 3 and e[1] == "call"]
    delivered = [e[3] for e in ctl.log if len(e) >= 4 and e[1] == "enter"]
    return calls, delivered


def downstream(log):
    """Per downstream observer (outer 'out' and windows 'W<k>'): the entered callbacks in order."""
    out = {}
    for e in log:
        if len(e) >= 4 and e[1] == "enter":
            out.setdefault(e[2], []).append([e[3], e[4]])
    return out


# ---------------------------------------------------------------------- oracle pieces (property text)
def overlap_of(log):
    """First instant at which two different threads are inside downstream callbacks, else None."""
    active = {}
    for i, e in enumerate(log):
        if len(e) >= 3 and e[1] == "enter":
            active[e[0]] = active.get(e[0], 0) + 1
            inside = [t for t, c in active.items() if c > 0]
            if len(inside) > 1:
                return {"at": i, "threads": sorted(inside), "event": e}
        elif len(e) >= 3 and e[1] == "exit":
            active[e[0]] -= 1
    return None


def grammar_of(log):
    """next* (error|completed)? per downstream observer, in order of entry."""
    for name, seq in downstream(log).items():
        for i, (k, _v) in enumerate(seq):
            if k in ("E", "C") and i != len(seq) - 1:
                return {"observer": name, "seq": seq}
    return None


def window_contents_of(case, r):
    """window_with_time_or_count / window_with_time (span = shift): the windows the subscriber saw must be the partition
    of the source prescribed by the time-or-count rule, given the order in which the handlers took the operator's
    lock and WHICH timer the timer thread had taken: the k-th timer belongs to the k-th window; a timer fired for a
    window that has already been closed (by count, concurrently) is stale and must do nothing — in particular it
    must not close the freshly opened window (a spurious empty window).  Returns None or a description."""
    op = case["op"]
    params = case.get("params") or {}
    if op == "window_time" and params.get("shift"):
        return None
    count = params.get("count", 2) if op == "window_toc" else None
    scripts = case["scripts"]
    order = linearisation(r["log"], len(scripts))
    fired = r.get("fired", [])
    wins = [{"els": [], "end": None}]
    cur, n, outer_end = 0, 0, None
    for k, j in order:
        if outer_end is not None:
            break
        item = scripts[k][j]
        if k == 0:
            if item[0] == "N":
                wins[cur]["els"].append(item[1])
                n += 1
                if count is not None and n == count:
                    wins[cur]["end"] = "C"
                    wins.append({"els": [], "end": None})
                    cur, n = cur + 1, 0
            else:
                wins[cur]["end"] = item[0]
                outer_end = item[0]
        else:
            seq = fired[j] if j < len(fired) else None
            if seq is not None and seq == cur:
                wins[cur]["end"] = "C"
                wins.append({"els": [], "end": None})
                cur, n = cur + 1, 0
    want = [[w["els"], w["end"]] for w in wins]
    d = downstream(r["log"])
    got = []
    for ev in d.get("out", []):
        if ev[0] == "N":
            w = d.get(ev[1], [])
            els = [x[1] for x in w if x[0] == "N"]
            end = next((x[0] for x in w if x[0] in ("E", "C")), None)
            got.append([els, end])
    got_end = next((ev[0] for ev in d.get("out", []) if ev[0] in ("E", "C")), None)
    if got != want or got_end != outer_end:
        return {"windows": got, "expected": want, "outer_end": got_end, "expected_outer_end": outer_end,
                "handler_order": order, "timers_taken": fired}
    return None


def linearisation(log, nthreads):
    """Order of the handlers (thread, item index) for combinators that subscribe their sources once, at
    subscription time.  A handler is placed where its thread first acquires a lock from the operator's code
    after the handler began.  A handler that never does had no effect (the observer of its subscription
    was already stopped: a terminal had been delivered — a monotone condition), and is placed where it ended."""
    pos = []
    cur = {}  # thread -> item index of the handler in progress, not yet placed
    for i, e in enumerate(log):
        if len(e) == 3 and e[1] == "H":
            k = e[0]
            if k in cur:
                pos.append((i, k, cur.pop(k)))
            cur[k] = e[2]
        elif len(e) == 4 and e[1] == "acq" and e[3] == "op" and e[0] in cur:
            pos.append((i, e[0], cur.pop(e[0])))
    for k, j in cur.items():
        pos.append((len(log), k, j))
    pos.sort()
    return [[k, j] for _i, k, j in pos]


# ---------------------------------------------------------------------- single-threaded lock paths
_WRITE_METHODS = {"append", "pop", "remove", "add", "clear", "insert", "extend", "update", "popleft", "appendleft"}


def write_lines(path):
    """AST scan of an operator file: line -> (root variable, how) for statements that write operator
    state held in enclosing scopes: `nonlocal` assignments, subscript stores, mutating method calls
    on a variable that is free in the function."""
    import ast

    src = open(path).read()
    tree = ast.parse(src)
    out = {}

    def root_name(node):
        while isinstance(node, (ast.Subscript, ast.Attribute)):
            node = node.value
        return node.id if isinstance(node, ast.Name) else None

    def visit_fn(fn, enclosing_locals):
        # names bound locally in fn
        local = {a.arg for a in fn.args.args + fn.args.kwonlyargs}
        if fn.args.vararg:
            local.add(fn.args.vararg.arg)
        nonlocals = set()
        body_nodes = []

        def collect(node):
            for ch in ast.iter_child_nodes(node):
                if isinstance(ch, (ast.FunctionDef, ast.AsyncFunctionDef, ast.Lambda)):
                    if not isinstance(ch, ast.Lambda):
                        local.add(ch.name)
                    continue
                body_nodes.append(ch)
                collect(ch)

        collect(fn)
        for n in body_nodes:
            if isinstance(n, ast.Nonlocal):
                nonlocals.update(n.names)
            elif isinstance(n, ast.Assign):
                for t in n.targets:
                    if isinstance(t, ast.Name):
                        local.add(t.id)
            elif isinstance(n, (ast.AnnAssign, ast.AugAssign)) and isinstance(n.target, ast.Name):
                local.add(n.target.id)
            elif isinstance(n, (ast.For, ast.comprehension)) and isinstance(n.target, ast.Name):
                local.add(n.target.id)
        local -= nonlocals
        free = lambda name: name is not None and (name in nonlocals or (name not in local and name in enclosing_locals))
        for n in body_nodes:
            if isinstance(n, (ast.Assign, ast.AugAssign, ast.AnnAssign)):
                targets = n.targets if isinstance(n, ast.Assign) else [n.target]
                for t in targets:
                    if isinstance(t, ast.Name) and t.id in nonlocals:
                        out[n.lineno] = (t.id, "nonlocal")
                    elif isinstance(t, (ast.Subscript, ast.Attribute)) and free(root_name(t)):
                        if isinstance(t, ast.Attribute) and t.attr in ("disposable",):
                            continue  # assignment to a disposable holder: self-synchronised
                        out[n.lineno] = (root_name(t), "store")
            elif isinstance(n, ast.Call) and isinstance(n.func, ast.Attribute) and n.func.attr in _WRITE_METHODS:
                r = root_name(n.func.value)
                if free(r):
                    out[n.lineno] = (r, n.func.attr)
        inner_enclosing = enclosing_locals | local | nonlocals
        for ch in ast.walk(fn):
            if ch is not fn and isinstance(ch, (ast.FunctionDef, ast.AsyncFunctionDef)) and _parent[ch] is fn:
                visit_fn(ch, inner_enclosing)

    _parent = {}

    # compute nearest enclosing function for each function
    def assign_parents(node, cur):
        for ch in ast.iter_child_nodes(node):
            if isinstance(ch, (ast.FunctionDef, ast.AsyncFunctionDef)):
                _parent[ch] = cur
                assign_parents(ch, ch)
            else:
                assign_parents(ch, cur)

    assign_parents(tree, None)
    for fn, par in list(_parent.items()):
        if par is None:
            visit_fn(fn, set())
    return out


def run_paths(op, events, repo, params=None):
    """Run the real operator single-threaded on a tagged event list with instrumented locks; for every
    handler invocation return (thread, kind, control path, calls, writes):
      calls  = [(downstream kind, sorted roles of the locks held)]
      writes = [(line, variable, 'plain'|'tsafe', sorted roles held)]"""
    files = [str(repo / f) for f in OP_FILES[op]]
    wl = {}
    for f in files:
        for ln, v in write_lines(f).items():
            wl[(f, ln)] = v
    ctl = tc.Controller([], first=0)
    ctl.role_fn = _role_fn(op)
    shared = {"active": {}, "max": 0, "windows": [] if op in WINDOW else None}
    cur = {"calls": [], "writes": [], "lines": [], "guard": []}

    def roles():
        return sorted({l.role for l in tc.held_locks() if l.role is not None})

    class PRec(Recorder):
        def _cb(self, kind, v):
            if self.name == "out":
                g = None
                if op == "amb":
                    f = sys._getframe(1)
                    while f is not None:
                        if f.f_code.co_filename.endswith("_amb.py") and "choice" in f.f_locals:
                            ch = f.f_locals["choice"][0]
                            side = "L" if "left" in f.f_code.co_name else "R"
                            g = (side, ch)
                            break
                        f = f.f_back
                cur["calls"].append((kind, roles(), g))
            if kind == "N" and shared.get("windows") is not None and hasattr(v, "subscribe"):
                shared["windows"].append(v)

    rec = PRec(ctl, shared)

    def tracer(frame, event, arg):
        fn = frame.f_code.co_filename
        if fn in files:
            if event == "line":
                key = (fn, frame.f_lineno)
                cur["lines"].append((files.index(fn), frame.f_lineno))
                w = wl.get(key)
                if w is not None:
                    obj = frame.f_locals.get(w[0])
                    mod = type(obj).__module__ or ""
                    tsafe = mod.startswith("reactivex.disposable")
                    cur["writes"].append((frame.f_lineno, w[0], "tsafe" if tsafe else "plain", roles()))
            return tracer
        return None

    out = []
    with tc.setup(ctl):
        nthreads = 1 + max(e[0] for e in events) if events else 2
        nthreads = max(nthreads, 3 if op in HIGHER else 2)
        obs, drivers, sources, sched = build(op, nthreads, ctl, params)
        _mark_source_locks(op, obs, sources)
        old = sys.gettrace()
        sys.settrace(tracer)
        try:
            obs.subscribe(rec.on_next, rec.on_error, rec.on_completed)
            out.append((-1, "S", tuple(cur["lines"]), cur["calls"], cur["writes"]))
            for k, item in events:
                cur["calls"], cur["writes"], cur["lines"] = [], [], []
                drivers[k](item)
                out.append((k, item[0], tuple(cur["lines"]), cur["calls"], cur["writes"]))
        finally:
            sys.settrace(old)
    return out

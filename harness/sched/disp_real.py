"""Real-code adapters for the disposable family (C25-C27): run call histories (one thread) and thread scenarios
(under sched/disp_ctl.py) on the REAL reactivex.disposable classes and report what the Lean driver reports:
per call the result and the observable state, and (thread runs) the visible event sequence.

A scenario / history is a JSON-able dict
  {"cls": disposable|boolean|scheduled|composite|serial|mad|sad|refcount, "items": k, "falsy": [ids],
   "init": [ids] (composite), "ctor": "args"|"list", "setup": [ops] (thread runs: executed first, on the main thread),
   "threads": [[ops], ...], "sched_kind": queue|immediate|test (scheduled)}
ops: composite ["add",i] ["remove",i] ["clear"] ["dispose"] ["len"] ["contains",i]; serial/mad/sad ["set",i] ["get"]
["dispose"]; refcount ["get"] ["rel",h] ["relm",j] ["dispose"]; disposable/boolean ["dispose"]; scheduled ["dispose"]
["run"] (queue scheduler: run the oldest scheduled action) ["runall"].
"""
from sched import disp_ctl as dc


class Rejected(Exception):
    pass


class ActionError(Exception):
    """raised by the Disposable action of a case with "raises": [k, ...] at its k-th invocation"""


def _classes():
    import reactivex.disposable as D

    return D


class Item:
    """a leaf disposable that counts its dispose() calls"""

    def __init__(self, idx):
        self.idx = idx
        self.count = 0

    def dispose(self):
        ctl = dc.CUR[0]
        if ctl is not None:
            ctl.point()
        self.count += 1
        if ctl is not None:
            ctl.log("D", self.idx)


def make_falsy_item(idx):
    """an *empty CompositeDisposable* (falsy: __len__() == 0) that counts its dispose() calls"""
    from reactivex.disposable import CompositeDisposable

    class EmptyComposite(CompositeDisposable):
        def __init__(self, idx):
            super().__init__()
            self.idx = idx
            self.count = 0

        def dispose(self):
            ctl = dc.CUR[0]
            if ctl is not None:
                ctl.point()
            self.count += 1
            if ctl is not None:
                ctl.log("D", self.idx)
            super().dispose()

    saved = dc.CUR[0]
    dc.CUR[0] = None  # its own (never contended) lock is not part of the experiment
    try:
        it = EmptyComposite(idx)
    finally:
        dc.CUR[0] = saved
    import threading

    it.lock = threading.RLock()  # a real lock: never contended, and no visible operation happens while it is held
    assert not it and len(it) == 0
    return it


class QueueScheduler:
    """minimal scheduler: schedule() only records the action; the test decides when (and on which thread) it runs"""

    def __init__(self):
        self.queue = []
        self.ran = 0

    def schedule(self, action, state=None):
        ctl = dc.CUR[0]
        if ctl is not None:
            ctl.point()
            ctl.log("S")
        self.queue.append((action, state))
        from reactivex.disposable import Disposable

        return Disposable()

    def run_one(self):
        if self.ran < len(self.queue):
            a, st = self.queue[self.ran]
            self.ran += 1
            a(self, st)


TRACED = {
    "disposable": ["is_disposed"],
    "boolean": ["is_disposed"],
    "composite": ["is_disposed", "disposable"],
    "serial": ["is_disposed", "current"],
    "mad": ["is_disposed", "current"],
    "sad": ["is_disposed", "current"],
    "refcount": ["is_disposed", "is_primary_disposed", "count"],
}


class World:
    """the object under test plus its items; `traced` = build instrumented subclasses (thread runs)"""

    def __init__(self, case, traced=False):
        D = _classes()
        self.case = case
        self.cls = cls = case["cls"]
        self.traced = traced
        ctl = dc.CUR[0]
        if ctl is not None:
            ctl.recording = False
        falsy = set(case.get("falsy", []))
        self.items = [make_falsy_item(i) if i in falsy else Item(i) for i in range(case.get("items", 0))]
        self.actions = 0
        self.deps = []
        self.sched = None
        base = {"disposable": D.Disposable, "boolean": D.BooleanDisposable, "composite": D.CompositeDisposable,
                "serial": D.SerialDisposable, "mad": D.MultipleAssignmentDisposable, "sad": D.SingleAssignmentDisposable,
                "refcount": D.RefCountDisposable, "scheduled": D.ScheduledDisposable, "nest": D.CompositeDisposable,
                "schedstack": D.ScheduledDisposable}[cls]
        mk = base
        if traced and cls in TRACED:
            extra = None
            if cls == "refcount":
                import reactivex.disposable.refcountdisposable as rcm

                extra = {"InnerDisposable": dc.traced_class(D.RefCountDisposable.InnerDisposable, ["parent"])}
                self._rcm = rcm
            mk = dc.traced_class(base, TRACED[cls], extra)
        if cls == "disposable":
            self.reenter = case.get("reenter", 0)
            self.raises = set(case.get("raises", []))
            self.obj = mk(self._action)
        elif cls == "boolean":
            self.obj = mk()
        elif cls == "composite":
            init = [self.items[i] for i in case.get("init", [])]
            self.obj = mk(init) if case.get("ctor") == "list" else mk(*init)
        elif cls in ("serial", "mad", "sad"):
            self.obj = mk()
        elif cls == "refcount":
            self.obj = mk(self.items[0])
        elif cls == "schedstack":
            # 2-3 stacked ScheduledDisposable layers, each bound to its OWN scheduler; layer 0 wraps the resource
            self.running = []      # indices of the schedulers currently executing an action (innermost last)
            self.released_on = []  # for every release of the resource: the scheduler running at that moment (None: inline)
            self.scheds = [self._mk_sched(k, kind) for k, kind in enumerate(case["layers"])]
            res = self.items[0]
            orig = res.dispose
            world = self

            def counted():
                world.released_on.append(world.running[-1] if world.running else None)
                orig()

            res.dispose = counted
            self.layers = []
            inner = res
            for sch in self.scheds:
                inner = D.ScheduledDisposable(sch, inner)
                self.layers.append(inner)
            self.obj = self.layers[-1]
        elif cls == "nest":
            # a CompositeDisposable holding one SerialDisposable; leaves are assigned to the serial
            cm, sm = D.CompositeDisposable, D.SerialDisposable
            if traced:
                cm, sm = dc.traced_class(cm, TRACED["composite"]), dc.traced_class(sm, TRACED["serial"])
            self.serial = sm()
            self.obj = cm(self.serial)
            if ctl is not None:
                ctl.lock_names[id(self.serial.lock)] = 1
        elif cls == "scheduled":
            kind = case.get("sched_kind", "queue")
            if kind == "queue":
                self.sched = QueueScheduler()
            elif kind == "immediate":
                from reactivex.scheduler import ImmediateScheduler

                self.sched = ImmediateScheduler()
            else:
                from reactivex.testing import TestScheduler

                self.sched = TestScheduler()
            if traced:
                import reactivex.disposable.scheduleddisposable as sdm

                saved = sdm.SingleAssignmentDisposable
                sdm.SingleAssignmentDisposable = dc.traced_class(D.SingleAssignmentDisposable, TRACED["sad"])
                try:
                    self.obj = mk(self.sched, self.items[0])
                finally:
                    sdm.SingleAssignmentDisposable = saved
            else:
                self.obj = mk(self.sched, self.items[0])
        if ctl is not None:
            lk = None
            if cls == "scheduled":  # the lock that guards the wrapped resource: the inner holder's, else the object's own
                lk = getattr(self.obj.__dict__.get("disposable"), "lock", None)
            if lk is None:
                lk = getattr(self.obj, "lock", None)
            if lk is not None:
                ctl.lock_names[id(lk)] = 0
            ctl.recording = True

    def _mk_sched(self, k, kind):
        """a scheduler that records, while it executes an action, that IT is the one running"""
        world = self
        if kind == "queue":
            sch = QueueScheduler()
            sch.kind = "queue"
            return sch
        if kind == "immediate":
            from reactivex.scheduler import ImmediateScheduler as Base
        else:
            from reactivex.testing import TestScheduler as Base

        class Marked(Base):
            def schedule(self, action, state=None):
                def marked(sc, st):
                    world.running.append(k)
                    try:
                        return action(sc, st)
                    finally:
                        world.running.pop()
                return super().schedule(marked, state)

        sch = Marked()
        sch.kind = kind
        return sch

    def _action(self):
        ctl = dc.CUR[0]
        if ctl is not None:
            ctl.point()
            ctl.log("A")
        k = self.actions
        self.actions += 1
        if self.actions <= 20:  # a broken Disposable would re-run the action for every nested call: keep that finite
            for _ in range(self.reenter):
                try:
                    self.obj.dispose()
                except ActionError:
                    pass
        if k in self.raises:
            raise ActionError(k)

    # ---- one call; returns the JSON result (as the driver encodes RV) or raises Rejected
    def call(self, op, mine=None):
        o, k = self.obj, op[0]
        cls = self.cls
        if cls in ("disposable", "boolean"):
            try:
                o.dispose()
            except ActionError:
                raise Rejected()
            return None
        if cls == "scheduled":
            if k == "dispose":
                o.dispose()
            elif k == "run":
                if isinstance(self.sched, QueueScheduler):
                    self.sched.run_one()
            elif k == "runall":
                if isinstance(self.sched, QueueScheduler):
                    while self.sched.ran < len(self.sched.queue):
                        self.sched.run_one()
                elif hasattr(self.sched, "start"):
                    self.sched.start()
            return None
        if cls == "composite":
            if k == "add":
                return o.add(self.items[op[1]])
            if k == "remove":
                return o.remove(self.items[op[1]])
            if k == "clear":
                return o.clear()
            if k == "dispose":
                return o.dispose()
            if k == "len":
                return len(o)
            if k == "contains":
                return o.contains(self.items[op[1]])
        if cls in ("serial", "mad", "sad"):
            if k == "set":
                try:
                    o.disposable = self.items[op[1]]
                except Exception as e:  # noqa
                    if "already been assigned" in str(e):
                        raise Rejected()
                    raise
                return None
            if k == "get":
                c = o.disposable
                return {"item": None if c is None else c.idx}
            if k == "dispose":
                return o.dispose()
        if cls == "refcount":
            if k == "get":
                d = o.disposable
                h = len(self.deps)
                self.deps.append(d)
                ctl = dc.CUR[0]
                if ctl is not None and hasattr(d, "lock"):
                    ctl.lock_names[id(d.lock)] = h + 1
                if mine is not None:
                    mine.append(h)
                return h
            if k == "rel":
                if op[1] < len(self.deps):
                    self.deps[op[1]].dispose()
                return None
            if k == "relm":
                if mine is not None and op[1] < len(mine):
                    self.deps[mine[op[1]]].dispose()
                return None
            if k == "dispose":
                return o.dispose()
        if cls == "schedstack":
            if k == "dispose":
                self.layers[op[1]].dispose()
            elif k == "run":
                sch = self.scheds[op[1]]
                if sch.kind == "queue":
                    self.running.append(op[1])
                    try:
                        sch.run_one()
                    finally:
                        self.running.pop()
                elif sch.kind == "test":
                    sch.start()
            return None
        if cls == "nest":
            if k == "dispC":
                return o.dispose()
            if k == "removeS":
                return o.remove(self.serial)
            if k == "dispS":
                return self.serial.dispose()
            if k == "setS":
                self.serial.disposable = self.items[op[1]]
                return None
        raise ValueError(f"bad op {op} for {cls}")

    def flag(self):
        """the object's is_disposed, read without logging / yielding"""
        o = self.obj
        if self.cls == "scheduled":
            inner = o.__dict__.get("disposable")
            d = getattr(inner, "__dict__", {})
            if inner is not self.items[0] and ("_tr_is_disposed" in d or "is_disposed" in d):
                return bool(dc.raw(inner, "is_disposed"))
            if "_tr_is_disposed" in o.__dict__ or "is_disposed" in o.__dict__:
                return bool(dc.raw(o, "is_disposed"))
            ctl = dc.CUR[0]
            rec = ctl.recording if ctl is not None else None
            if ctl is not None:
                ctl.recording = False
            try:
                return bool(getattr(o, "is_disposed", False))
            finally:
                if ctl is not None:
                    ctl.recording = rec
        return bool(dc.raw(o, "is_disposed"))

    # ---- observable state, same shape as the driver's `obs`
    def obs(self):
        o, cls = self.obj, self.cls
        cnt = [it.count for it in self.items]
        if cls == "disposable":
            return {"is_disposed": bool(dc.raw(o, "is_disposed")), "actions": self.actions}
        if cls == "boolean":
            return {"is_disposed": bool(dc.raw(o, "is_disposed"))}
        if cls == "scheduled":
            q = len(self.sched.queue) if isinstance(self.sched, QueueScheduler) else None
            return {"is_disposed": self.flag(), "cnt": cnt[:1], "queued": q}
        if cls == "composite":
            return {"is_disposed": bool(dc.raw(o, "is_disposed")), "items": [x.idx for x in dc.raw(o, "disposable")], "cnt": cnt}
        if cls in ("serial", "mad", "sad"):
            c = dc.raw(o, "current")
            return {"is_disposed": bool(dc.raw(o, "is_disposed")), "current": None if c is None else c.idx, "cnt": cnt}
        if cls == "schedstack":
            return {"cnt": cnt[:1], "released_on": list(self.released_on), "is_disposed": [bool(l.is_disposed) for l in self.layers]}
        if cls == "nest":
            c = dc.raw(self.serial, "current")
            return {"is_disposed": bool(dc.raw(o, "is_disposed")), "has_serial": any(x is self.serial for x in dc.raw(o, "disposable")),
                    "serial_disposed": bool(dc.raw(self.serial, "is_disposed")), "current": None if c is None else c.idx, "cnt": cnt}
        if cls == "refcount":
            from reactivex.disposable import RefCountDisposable

            return {"is_disposed": bool(dc.raw(o, "is_disposed")), "is_primary_disposed": bool(dc.raw(o, "is_primary_disposed")),
                    "cnt": cnt[:1], "deps": ["inner" if isinstance(d, RefCountDisposable.InnerDisposable) else "inert" for d in self.deps]}
        raise ValueError(cls)


def run_history(case):
    """one thread, no instrumentation: [[result|"raise", obs], ...] per call of case["threads"][0]"""
    w = World(case, traced=False)
    out = []
    mine = []
    for op in case["threads"][0]:
        try:
            r = w.call(op, mine)
            out.append([["ret", r], w.obs()])
        except Rejected:
            out.append([["raise"], w.obs()])
    return out


def run_threads(case, plan, lines=False):
    """the scenario under the controller with the given plan; returns trace, per-thread event lists, final obs, decisions"""
    ctl = dc.Ctl(plan, lines=lines)
    dc.CUR[0] = ctl
    try:
        w = World(case, traced=True)
        mine0 = []
        for op in case.get("setup", []):
            try:
                r = w.call(op, mine0)
                ctl.log("ret", r, w.flag())
            except Rejected:
                ctl.log("raise", None, w.flag())

        def prog(ops):
            def fn():
                mine = []
                for op in ops:
                    try:
                        r = w.call(op, mine)
                        ctl.log("ret", r, w.flag())
                    except Rejected:
                        ctl.log("raise", None, w.flag())
            return fn

        def worker(k):
            def fn():
                ctl.wait_until(lambda: len(w.sched.queue) > k)
                a, st = w.sched.queue[k]
                a(w.sched, st)
                ctl.log("ret", None)
            return fn

        for ops in case["threads"]:
            ctl.spawn(prog(ops))
        for k in range(case.get("workers", 0)):
            ctl.spawn(worker(k))
        ok = ctl.run()
        excs = [t.exc for t in ctl.threads if t.exc]
        return {"ok": ok and not excs, "error": ctl.error or (excs[0] if excs else None), "trace": [[t, list(e)] for t, e in ctl.trace],
                "final": w.obs(), "decisions": ctl.decisions, "preemptions": ctl.preemptions()}
    finally:
        dc.CUR[0] = None


STEP_KINDS = ("L", "R", "W", "D", "A", "S")


def model_request(case, trace=None):
    """the Lean driver request for a history (trace=None: threads run to completion one after the other) or for the
    schedule observed in a thread run (thread ids of the step events, set-up code = thread 0)"""
    cls = case["cls"]
    req = {"op": "run", "cls": cls, "items": case.get("items", 0)}
    threads = list(case["threads"])
    if trace is not None:
        threads = [case.get("setup", [])] + threads
    if cls in ("disposable", "boolean"):
        req["threads"] = [len(t) for t in threads]
        if case.get("raises"):
            req["raises"] = case["raises"]
    elif cls == "scheduled":
        req["threads"] = [sum(1 for op in t if op[0] == "dispose") for t in threads]
        req["workers"] = case.get("workers", 0)
    else:
        req["threads"] = threads
    if cls == "composite":
        req["init"] = case.get("init", [])
    if cls == "sad_asis":
        req["falsy"] = case.get("falsy", [])
    req["sched"] = None if trace is None else [t for t, e in trace if e[0] in STEP_KINDS]
    return req


def per_thread(events):
    """[[tid, ev, ...], ...] -> {tid: [ev, ...]}"""
    out = {}
    for rec in events:
        out.setdefault(str(rec[0]), []).append(rec[1])
    return out

"""C32 harness pieces: the real ObserveOnObserver / ScheduledObserver under the interleaving controller.

`run_threads(cfg, preempt)` runs producer threads (real `on_next/on_error/on_completed` calls on a real ObserveOnObserver)
against a target scheduler (a minimal worker pool, or the real EventLoopScheduler) under `thr_ctl.Ctl`, and returns the
observed event sequence translated to the labels of the atomic-step model `Thr.SO` (lean/RxModel/ThrSO.lean) together with
what the property oracle needs.  Nothing is modified in /repo: the observer is a subclass whose shared fields are logging
properties, its lock is an instrumented RLock.
"""
from __future__ import annotations

import fw
from fw import InjectedError
from sched.thr_ctl import Ctl

SO_FILES = ("reactivex/observer/scheduledobserver.py", "reactivex/observer/observeonobserver.py", "reactivex/observer/observer.py")
EL_FILES = ("reactivex/scheduler/eventloopscheduler.py",)


def call_item(c):
    """script call ["N"|"E"|"C", id] -> model call [id, terminal]"""
    return [c[1], c[0] != "N"]


def make_observer(ctl, sched, downstream, use_lock=True):
    from reactivex.observer import ObserveOnObserver

    class LList(list):
        def append(self, x):
            me = ctl.me()
            item = me.local.get("item") if me is not None else None
            try:
                x.tag = item
            except Exception:
                pass
            ctl.ev("append", item)
            list.append(self, x)

        def pop(self, i=-1):
            x = list.pop(self, i)
            tag = getattr(x, "tag", None)
            me = ctl.me()
            if me is not None:
                me.local["popped"] = tag
            ctl.ev("pop", tag, i)
            return x

        def __bool__(self):
            ctl.ev("qread", len(self))
            return len(self) > 0

    class Obs(ObserveOnObserver):
        @property
        def queue(self):
            return self._q

        @queue.setter
        def queue(self, v):
            self._q = LList(v)
            ctl.ev("qset", len(v))

        @property
        def is_acquired(self):
            ctl.ev("get_acq", self._acq)
            return self._acq

        @is_acquired.setter
        def is_acquired(self, v):
            self._acq = v
            ctl.ev("set_acq", v)

        @property
        def has_faulted(self):
            ctl.ev("get_faulted", self._flt)
            return self._flt

        @has_faulted.setter
        def has_faulted(self, v):
            self._flt = v
            ctl.ev("set_faulted", v)

        @property
        def is_stopped(self):
            ctl.ev("get_stopped", self._stp)
            return self._stp

        @is_stopped.setter
        def is_stopped(self, v):
            self._stp = v
            ctl.ev("set_stopped", v)

    obs = Obs(sched, downstream)
    obs.lock = ctl.RLock("so")
    return obs


class Downstream:
    """the downstream observer: records entry/exit of every callback; the k-th callback raises if k in raises"""

    def __init__(self, ctl, raises, hs=None):
        self.ctl, self.raises, self.k = ctl, set(raises), 0
        self.inside = 0
        self.overlap = False
        self.hs = hs  # (started, go): the first delivery announces itself and lasts until the producer has emitted again

    def _cb(self, kind, val):
        ctl = self.ctl
        k = self.k
        self.k += 1
        me = ctl.me()
        self.inside += 1
        if self.inside > 1:
            self.overlap = True
        ctl.ev("dstart", kind, val, me.local.get("popped") if me is not None else None)
        if self.hs is not None and k == 0:
            self.hs[0].set()
            self.hs[1].wait()
        if me is not None:
            ctl.sched_point(me)  # a delivery takes time: other threads may run while we are inside the callback
        self.inside -= 1
        if k in self.raises:
            ctl.ev("dend", True)
            raise InjectedError(f"cb{k}")
        ctl.ev("dend", False)

    def on_next(self, v):
        self._cb("N", v)

    def on_error(self, e):
        self._cb("E", int(fw.err_name(e)[1:]) if fw.err_name(e)[1:].isdigit() else fw.err_name(e))

    def on_completed(self):
        self._cb("C", None)


def run_threads(cfg, preempt=None, opcode=False):
    """cfg: {"progs": [[["N",1],["N",2],["C",3]], ...], "nc": 1, "raises": [..], "sched": "pool"|"eventloop"|"newthread",
             "via": "direct"|"operator"}"""
    from reactivex.disposable import Disposable

    kind = cfg.get("sched", "pool")
    targets = SO_FILES + (EL_FILES if cfg.get("trace_loop") else ())
    ctl = Ctl(targets=targets, preempt=preempt, opcode=opcode, max_steps=cfg.get("max_steps", 6000))
    patches = ctl.disposable_patches() + ctl.clock_patches()
    if kind in ("eventloop", "newthread"):
        patches += [("reactivex.scheduler.eventloopscheduler", "threading", ctl.threading_shim("el", "el"))]
    consumers = []  # controlled-thread idx of consumer j

    with ctl.patched(patches):
        hs = (ctl.Event("started"), ctl.Event("go"), ctl.Event("raised")) if cfg.get("handshake") else None
        down = Downstream(ctl, cfg.get("raises", []), hs)
        if kind == "pool":
            pending = []
            cond = ctl.Condition(name="pool")

            class Pool:
                def schedule(self, action, state=None):
                    entry = [action]
                    with cond:
                        pending.append(entry)
                        ctl.ev("schedule")
                        cond.notify()

                    def cancel():
                        with cond:
                            hit = any(e is entry for e in pending)
                            if hit:
                                pending[:] = [e for e in pending if e is not entry]
                            ctl.ev("run_cancel", hit)

                    me = ctl.me()
                    if me is not None:
                        # schedule() has returned, its result is not yet stored by the caller: a scheduling point of its own
                        # (the call and the store `self.disposable.disposable = …` are one source line)
                        ctl.sched_point(me)
                    return Disposable(cancel)

            sched = Pool()

            def worker():
                while True:
                    with cond:
                        while not pending:
                            cond.wait()
                        a = pending.pop(0)[0]
                        ctl.ev("runBegin")
                    if cfg.get("catching"):
                        # a pool whose workers survive a raising task (concurrent.futures-like): the scheduler stays alive
                        try:
                            a(sched, None)
                        except InjectedError:
                            ctl.ev("action_raised")
                            if hs is not None:
                                hs[2].set()
                    else:
                        a(sched, None)

        else:
            from reactivex.scheduler import EventLoopScheduler, NewThreadScheduler

            inner = EventLoopScheduler(thread_factory=ctl.thread_factory) if kind == "eventloop" else NewThreadScheduler(thread_factory=ctl.thread_factory)

            class Wrap:
                def schedule(self, action, state=None):
                    def wrapped(s, st):
                        ctl.ev("runBegin")
                        return action(self, st)

                    ctl.ev("schedule")
                    return inner.schedule(wrapped, state)

            sched = Wrap()

        obs = make_observer(ctl, sched, down)
        if True:
            from reactivex.disposable import SerialDisposable

            class LSerial(SerialDisposable):
                """the observer's `self.disposable`: logs its two locked decisions"""

                def set_disposable(self, value):
                    me = ctl.me()
                    if me is not None:
                        ctl.sched_point(me)
                    ctl.ev("assign", bool(self.is_disposed))
                    super().set_disposable(value)

                disposable = property(SerialDisposable.get_disposable, set_disposable)

                def dispose(self):
                    me = ctl.me().idx
                    ctl.ev("dflag")
                    n0 = len(ctl.events)
                    super().dispose()
                    if not any(e[0] == me and e[1] == "run_cancel" for e in ctl.events[n0:]):
                        ctl.ev("run_cancel", False)  # nothing was held

            obs.disposable = LSerial()

        def producer(prog):
            def f():
                me = ctl.me()
                for n, c in enumerate(prog):
                    if hs is not None and n == 1:
                        hs[0].wait()  # emit the 2nd notification while the 1st is being delivered
                    if hs is not None and n == 2 and cfg.get("catching"):
                        hs[2].wait()  # emit the 3rd notification only after the raising delivery has faulted the observer
                    me.local["item"] = c[1]
                    ctl.ev("call", c[0], c[1])
                    if c[0] == "N":
                        obs.on_next(c[1])
                    elif c[0] == "E":
                        obs.on_error(InjectedError(f"e{c[1]}"))
                    else:
                        obs.on_completed()
                    ctl.ev("ret")
                    if hs is not None and n == 1:
                        hs[1].set()
                if hs is not None:
                    hs[1].set()
            return f

        nprod = len(cfg["progs"])
        for prog in cfg["progs"]:
            ctl.spawn(producer(prog), "prod")
        if kind == "pool":
            for _ in range(cfg.get("nc", 1)):
                consumers.append(ctl.spawn(worker, "worker").idx)
        disposers = []
        for _ in range(cfg.get("ndisp", 0)):
            def disposer():
                ctl.ev("dcall")
                obs.dispose()
            disposers.append(ctl.spawn(disposer, "disposer").idx)
        status = ctl.run(timeout=cfg.get("timeout", 120.0))
        final = {"acq": obs._acq, "faulted": obs._flt, "qlen": len(obs._q)}

    # threads created by the scheduler under test are consumers, in creation order
    for t in ctl.threads:
        if t.idx >= nprod and t.idx not in consumers and t.idx not in disposers:
            consumers.append(t.idx)
    return {"status": status, "events": ctl.events, "choices": ctl.choices, "nprod": nprod, "consumers": consumers, "disposers": disposers,
            "final": final, "overlap": down.overlap, "steps": ctl.steps,
            "thread_exc": [[t.idx, fw.err_name(t.exc)] for t in ctl.threads if t.exc is not None]}


# ---------------------------------------------------------------------- events -> model labels
GUARDED = {"get_acq", "set_acq", "get_faulted", "set_faulted", "pop", "qset"}


def labels_of(res):
    """Translate the observed events into the (thread, label) sequence of the atomic-step model.
    Returns (trace, problems): trace = [["p"|"c", index, label]], problems = structural deviations from the model's
    atomicity assumptions (a guarded field touched outside the observer's lock, an unclassifiable locked section)."""
    nprod, consumers = res["nprod"], res["consumers"]
    cidx = {t: j for j, t in enumerate(consumers)}
    didx = {t: j for j, t in enumerate(res.get("disposers", []))}
    expect_cancel = set()  # threads whose next "run_cancel" event is a model step (assign on a disposed holder / dispose)

    def tid(t):
        if t in didx:
            return ["d", didx[t]]
        return ["p", t] if t < nprod else ["c", cidx[t]]

    out = []  # (position, tid, label)
    problems = []
    open_sec = {}  # thread -> {"depth": n, "start": pos, "evs": [(pos, ev)]}
    inited = False
    for pos, e in enumerate(res["events"]):
        t, k = e[0], e[1]
        if t is None:
            continue
        if k == "acq" and e[2] == "so":
            s = open_sec.get(t)
            if s is None:
                open_sec[t] = {"depth": 1, "start": pos, "evs": []}
            else:
                s["depth"] += 1
            continue
        if k == "rel" and e[2] == "so":
            s = open_sec.get(t)
            if s is None:
                problems.append(f"release without acquire by thread {t}")
                continue
            s["depth"] -= 1
            if s["depth"] == 0:
                del open_sec[t]
                evs = s["evs"]
                kinds = [x[1][1] for x in evs]
                qpos = [p for p, x in evs if x[1] in ("qread", "pop")]
                at = qpos[0] if qpos else s["start"]
                if "get_faulted" in kinds:
                    owner = False
                    got = [x[1][2] for x in evs if x[1][1] == "get_acq"]
                    sets = [x[1][2] for x in evs if x[1][1] == "set_acq"]
                    if sets and sets[-1] is True and got and got[0] is False:
                        owner = True
                    out.append((at, tid(t), ["ea", owner]))
                elif "pop" in kinds:
                    pe = [x[1] for x in evs if x[1][1] == "pop"][0]
                    if pe[3] != 0:
                        problems.append(f"pop({pe[3]}) is not pop(0)")
                    out.append((at, tid(t), ["pop", pe[2]]))
                elif ("set_acq", False) in [(x[1][1], x[1][2] if len(x[1]) > 2 else None) for x in evs]:
                    out.append((at, tid(t), ["release"]))
                elif "set_faulted" in kinds:
                    out.append((at, tid(t), ["fault"]))
                else:
                    problems.append(f"unclassified locked section by thread {t}: {kinds}")
            continue
        s = open_sec.get(t)
        if s is not None:
            s["evs"].append((pos, e))
            if k in ("append",):
                problems.append("append inside the lock (model: unlocked)")
            continue
        # outside any locked section
        if k in GUARDED:
            problems.append(f"{k} outside the observer's lock by thread {t}")
        elif k == "get_stopped":
            out.append((pos, tid(t), ["skip"] if e[2] else ["check"]))
        elif k == "set_stopped":
            out.append((pos, tid(t), ["dstop"] if t in didx else ["mark"]))
        elif k == "assign":
            out.append((pos, tid(t), ["assign", e[2]]))
            if e[2]:
                expect_cancel.add(t)
        elif k == "dflag":
            out.append((pos, tid(t), ["dflag"]))
            expect_cancel.add(t)
        elif k == "run_cancel":
            if t in expect_cancel:
                expect_cancel.discard(t)
                out.append((pos, tid(t), ["cancelRun", e[2]]))
        elif k == "append":
            out.append((pos, tid(t), ["append", e[2]]))
        elif k == "schedule":
            out.append((pos, tid(t), ["sched"] if t < nprod else ["resched"]))
        elif k == "runBegin":
            out.append((pos, tid(t), ["runBegin"]))
        elif k == "dstart":
            out.append((pos, tid(t), ["dstart", e[4]]))
        elif k == "dend":
            out.append((pos, tid(t), ["dend", e[2]]))
    for t in open_sec:
        problems.append(f"section left open by thread {t}")
    out.sort(key=lambda x: x[0])
    return [[a[0], a[1], l] for _, a, l in out], problems


def oracle(cfg, res):
    """The property's own oracle on the observed events (independent of the Lean model)."""
    ev = res["events"]
    nprod = res["nprod"]
    if res["status"] in ("deadlock", "steplimit"):
        return f"run ended with status {res['status']}"
    kind_of = {c[1]: (c[0], c[1] if c[0] != "C" else None) for p in cfg["progs"] for c in p}
    received = [e[2] for e in ev if e[1] == "append"]
    delivered = [(e[2], e[3]) for e in ev if e[1] == "dstart"]
    exp = [kind_of[i] for i in received]
    seen_raise = False
    for e in ev:
        if e[1] == "dend" and e[2]:
            seen_raise = True
        elif e[1] == "dstart" and seen_raise:
            return f"a delivery ({e[2]}, {e[3]}) started after an earlier delivery raised"
    if delivered != exp[: len(delivered)]:
        return f"delivered {delivered} is not a prefix of received {exp}"
    depth = 0
    raised_at = None
    nd = 0
    for e in ev:
        if e[1] == "dstart":
            if raised_at is not None:
                return "a delivery started after an earlier delivery raised"
            if depth:
                return "two deliveries overlap"
            if e[0] is not None and e[0] < nprod and cfg.get("sched", "pool") != "inline":
                return "delivery on a producer thread"
            depth += 1
            nd += 1
        elif e[1] == "dend":
            depth -= 1
            if e[2]:
                raised_at = nd - 1
    if res["overlap"]:
        return "two deliveries overlap"
    if res["status"] in ("ok", "idle") and raised_at is None and len(delivered) != len(received) and not cfg.get("ndisp"):
        return f"scheduler idle with {len(received) - len(delivered)} received notification(s) undelivered: delivered {delivered}, received {exp}"
    return None

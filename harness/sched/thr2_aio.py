"""C33 scenarios: one action scheduled on a steppable asyncio loop through the real AsyncIOScheduler /
AsyncIOThreadSafeScheduler, with the loop thread and a user thread under the interleaving controller.

* `SteppableLoop`: an `asyncio.SelectorEventLoop` whose `time()` is the controller's clock (integer ticks),
  whose selector never blocks (an idle loop waits cooperatively: for a ready handle, for the controlled
  clock to reach the next timer, or for the end of the scenario) and whose ready queue logs every
  append / pop of the handles that belong to the scheduled action.  asyncio's own `_run_once` runs unmodified.
* events are logged in the vocabulary of the Lean model `Thr2Aio` (`stepL` labels) together with the model
  action (0 loop thread, 1 user, 2 clock reaches the due time, 3 loop (re)started, 4 loop collects a due timer, 5 loop stopped), so that the observed run can
  be replayed step for step by the driver (`aio_replay`).

Scenario JSON: {"fl": "plain"|"ts", "kind": "soon"|"rel",
                "smode": how the action is scheduled: "onLoop" (loop callback) | "foreign" (other thread, loop running) |
                         "pre" (before the loop is started)   [default: derived from mode],
                "mode": who disposes: "onLoop" | "foreign" (other thread while the loop runs) | "notRunning" (the loop
                        never started yet, or — smode != pre — was stopped after running; restarted after the return),
                "delay": ticks (fractions allowed), "gap": ticks the user waits between schedule and dispose,
                "via": "rel" + "delay0": 0.0|-1.0|"td0" (kind soon): scheduled through schedule_relative with a delay <= 0,
                "via": "abs" (+ "tz": hours) (kind rel): schedule_absolute with the due instant, optionally in another zone,
                "busy": the loop thread is inside a slow callback while the user schedules and disposes,
                "handover": the loop first runs on thread A (with one on-loop dispose there), is stopped and run by
                            thread B; A then schedules and disposes as a foreign thread,
                "registered": the user thread called asyncio.set_event_loop(loop) (the loop runs elsewhere),
                "first": thread, "pre": [[step, to], ...]}
"""
from __future__ import annotations

import asyncio
import collections
import sys
import threading

from . import thr2_ctl as tc

TARGETS = ["reactivex/scheduler/eventloop/asyncioscheduler.py", "reactivex/scheduler/eventloop/asynciothreadsafescheduler.py",
           ("asyncio/base_events.py", {"_run_once", "call_soon_threadsafe", "_call_soon", "call_soon", "call_at", "call_later"}),
           ("asyncio/events.py", {"cancel", "_run"})]


class CoopFuture:
    """concurrent.futures.Future as far as the scheduler uses it, blocking cooperatively."""

    def __init__(self):
        self._done = False
        self._res = None

    def set_result(self, r):
        self._res = r
        self._done = True

    def result(self, timeout=None):
        ctl = tc.CURRENT
        if ctl is not None and ctl.me() is not None:
            if timeout is None:
                ctl.wait_until(lambda: self._done)
            else:
                # the timeout runs on the controlled clock: it elapses when the loop thread is held (inside a slow
                # callback) for longer than that
                deadline = ctl.clock + float(timeout)
                ctl.wait_until(lambda: self._done or ctl.clock >= deadline, wake_at=deadline)
                if not self._done:
                    import concurrent.futures

                    raise concurrent.futures.TimeoutError()
        elif not self._done:
            raise RuntimeError("uncontrolled thread would block on a future")
        return self._res


class _FakeSelector:
    def __init__(self, owner):
        self.owner = owner

    def select(self, timeout=None):
        if timeout is None or timeout > 0:
            self.owner.idle()
        return []


class _LogDeque(collections.deque):
    owner = None

    def append(self, h):
        self.owner.on_ready_append(h, sys._getframe(1).f_code.co_name)
        collections.deque.append(self, h)

    def popleft(self):
        h = collections.deque.popleft(self)
        self.owner.on_pop(h)
        return h


class SteppableLoop(asyncio.SelectorEventLoop):
    def __init__(self, ctl, run):
        super().__init__()
        self.ctl = ctl
        self.run_state = run
        self._real_selector = self._selector
        self._selector = _FakeSelector(self)
        dq = _LogDeque()
        dq.owner = self
        self._ready = dq

    # --- controlled clock
    def time(self):
        return float(self.ctl.clock)

    def idle(self):
        """called instead of a blocking select(): nothing is ready"""
        ctl = self.ctl
        rs = self.run_state

        def nxt():
            live = [h._when for h in self._scheduled if not h._cancelled]
            return min(live) if live else None

        def wake():
            if len(self._ready) or (rs["stop_req"] and not rs["stopped"]) or (rs.get("handover_req") and not rs.get("handed_over")):
                return True
            w = nxt()
            if w is None:
                return rs["user_done"]
            return ctl.clock >= w

        if ctl.me() is not None:
            w = nxt()
            ctl.wait_until(wake, wake_at=w)  # the clock may stand between whole ticks

    # --- identification and logging of the action's handles
    def hid(self, h):
        name = getattr(getattr(h, "_callback", None), "__name__", "")
        if name == "stage2":
            return 1
        if name == "cancel_handle":
            return 3
        if name == "interval":
            return 2 if self.run_state["ts_rel"] else 1
        return None

    def act(self):
        """model action of the calling thread: the loop thread is 0, except while it executes the user's
        schedule/dispose call (mode onLoop), which the model attributes to the user (1)"""
        me = self.ctl.me()
        if me is not None and me.idx == self.run_state["loop_tid"] and not self.run_state["user_call_on_loop"]:
            return 0
        return 1

    def ev(self, action, label):
        if not self.run_state.get("muted"):
            self.ctl.log.append(("ev", action, label))

    def on_ready_append(self, h, caller):
        n = self.hid(h)
        if n is None:
            return
        if caller == "_run_once":
            self.ev(4, f"collect{n}")
        elif n == 3:
            self.ev(1, "enq")
        elif n == 1:
            self.ev(1, "soon")

    def on_pop(self, h):
        n = self.hid(h)
        self.run_state["cur_cb"] = n
        if n is not None:
            self.ev(0, f"pop{n}-{'skip' if h._cancelled else 'run'}")

    def call_later(self, delay, callback, *args, context=None):
        h = super().call_later(delay, callback, *args, context=context)
        n = self.hid(h)
        if n == 2:
            self.run_state["when"] = h._when
            self.ev(0, "later")
            self.ev(0, "append")  # `handle.append(...)` follows in the same line of stage2
        elif n == 1:
            self.run_state["when"] = h._when
            self.ev(1, "later")
        return h

    def call_soon_threadsafe(self, callback, *args, context=None):
        h = super().call_soon_threadsafe(callback, *args, context=context)
        if self.hid(h) == 1 and self.run_state["ts_rel"]:
            self.ev(1, "append")  # `handle.append(...)` follows in the same line of schedule_relative
        return h

    def close(self):
        self._selector = self._real_selector
        super().close()


def _patch(run, ctl, loop):
    """instrument Handle.cancel, the on-self-loop test and the Future used by the thread-safe scheduler"""
    import reactivex.scheduler.eventloop.asynciothreadsafescheduler as M
    from asyncio import events

    orig_cancel = events.Handle.cancel
    orig_tcancel = events.TimerHandle.cancel
    orig_test = M.AsyncIOThreadSafeScheduler._on_self_loop_or_not_running
    orig_future = M.Future

    def log_cancel(h):
        n = loop.hid(h)
        if n in (1, 2) and run["cur_cb"] != 3 or (n in (1, 2) and loop.act() == 1):
            loop.ev(1, f"cancel{n}")

    def cancel(self):
        if getattr(self, "_loop", None) is loop:
            log_cancel(self)
        return orig_cancel(self)

    def tcancel(self):
        if getattr(self, "_loop", None) is loop:
            run["in_tcancel"] = True
            log_cancel(self)
            try:
                return orig_tcancel(self)
            finally:
                run["in_tcancel"] = False
        return orig_tcancel(self)

    def cancel_base(self):  # Handle.cancel reached through TimerHandle.cancel: already logged
        if getattr(self, "_loop", None) is loop and not run.get("in_tcancel"):
            log_cancel(self)
        return orig_cancel(self)

    def test(self):
        r = orig_test(self)
        loop.ev(1, "test-direct" if r else "test-marshal")
        return r

    events.Handle.cancel = cancel_base
    events.TimerHandle.cancel = tcancel
    M.AsyncIOThreadSafeScheduler._on_self_loop_or_not_running = test
    M.Future = CoopFuture

    def restore():
        events.Handle.cancel = orig_cancel
        events.TimerHandle.cancel = orig_tcancel
        M.AsyncIOThreadSafeScheduler._on_self_loop_or_not_running = orig_test
        M.Future = orig_future

    return restore


def run_case(case, wall=8.0, max_steps=4000):
    from asyncio import events

    from reactivex.scheduler.eventloop import AsyncIOScheduler, AsyncIOThreadSafeScheduler

    fl, kind, mode = case["fl"], case["kind"], case["mode"]
    smode = case.get("smode") or {"onLoop": "onLoop", "foreign": "foreign", "notRunning": "pre"}[mode]
    delay = case.get("delay", 2)  # ticks = seconds on the loop clock; fractions allowed (sub-millisecond delays)
    gap = case.get("gap", 0)
    registered = bool(case.get("registered"))  # the foreign thread has the scheduler's loop REGISTERED as its current loop
    ctl = tc.Controller(TARGETS, first=case.get("first", 0), pre=case.get("pre", ()), wall=wall,
                        max_steps=max_steps, auto_clock=True)
    run = {"ts_rel": fl == "ts" and kind == "rel", "user_done": False, "cur_cb": None, "user_call_on_loop": False,
           "when": None, "returned": False, "starts": [], "disp": None, "loop_thread": None, "late": False,
           "scheduled": False, "stop_req": False, "stopped": False, "in_sched": False, "loop_tid": 0, "muted": False,
           "handover_req": False, "handed_over": False, "busy_started": False}
    import reactivex.scheduler.scheduler as SCH
    from datetime import datetime, timedelta, timezone

    EPOCH = datetime(2031, 1, 1, tzinfo=timezone.utc)
    saved_now = SCH.default_now
    SCH.default_now = lambda: EPOCH + timedelta(seconds=ctl.clock)  # scheduler.now on the controlled loop clock
    restore = None
    loop = None
    import logging

    logging.getLogger("asyncio").disabled = True  # a handle cancelled under the loop's feet logs "Exception in callback None()"
    try:
        with tc.setup(ctl):
            loop = SteppableLoop(ctl, run)
            restore = _patch(run, ctl, loop)
            sched = (AsyncIOThreadSafeScheduler if fl == "ts" else AsyncIOScheduler)(loop)

            def action(scheduler, state=None):
                me = ctl.me()
                run["starts"].append({"thread": me.idx if me else -1, "on_loop": me is not None and me.idx == run["loop_tid"],
                                      "clock": ctl.clock, "after_return": run["returned"],
                                      "inside_schedule_call": run["in_sched"] is not False and run["in_sched"] == (me.idx if me else -1)})
                if run["returned"]:
                    run["late"] = True

            def do_sched():
                run["sched_clock"] = ctl.clock
                me = ctl.me()
                run["in_sched"] = me.idx if me else -1  # the thread executing the schedule call
                try:
                    if kind == "soon" and case.get("via") == "rel":
                        # an already-due relative schedule: zero / negative delay
                        d0 = case.get("delay0", 0.0)
                        run["disp"] = sched.schedule_relative(timedelta(0) if d0 == "td0" else float(d0), action)
                    elif kind == "soon":
                        run["disp"] = sched.schedule(action)
                    elif case.get("via") == "abs":
                        # the same instant, optionally written as an aware datetime of another zone
                        when = EPOCH + timedelta(seconds=ctl.clock + delay)
                        if case.get("tz") is not None:
                            when = when.astimezone(timezone(timedelta(hours=case["tz"])))
                        run["disp"] = sched.schedule_absolute(when, action)
                    else:
                        run["disp"] = sched.schedule_relative(float(delay), action)
                finally:
                    run["in_sched"] = False
                run["scheduled"] = True

            def do_disp():
                run["disp"].dispose()
                run["returned"] = True
                if not (fl == "plain"):
                    loop.ev(1, "ret")

            def sleep_until(t):
                ctl.wait_until(lambda: ctl.clock >= t, wake_at=t)

            def set_running(on):
                loop._thread_id = threading.get_ident() if on else None
                events._set_running_loop(loop if on else None)

            def loop_body():
                if smode == "pre":
                    # the loop is started once the action is scheduled, or (dispose while not running) once dispose returned
                    ctl.wait_until(lambda: run["scheduled"] and (mode != "notRunning" or run["returned"]))
                    loop.ev(3, "startloop")
                loop._check_closed()
                set_running(True)
                try:
                    while True:
                        if run["stop_req"] and not run["stopped"]:
                            set_running(False)
                            run["stopped"] = True
                            loop.ev(5, "stoploop")
                            ctl.wait_until(lambda: run["returned"])
                            loop.ev(3, "startloop")
                            set_running(True)
                        live = [h for h in loop._scheduled if not h._cancelled]
                        if run["user_done"] and not len(loop._ready) and not live:
                            break
                        loop._run_once()
                finally:
                    set_running(False)

            def on_loop(fn):
                """run fn as a callback on the loop thread (the model attributes its steps to the user)"""
                def cb():
                    run["user_call_on_loop"] = True
                    try:
                        fn()
                    finally:
                        run["user_call_on_loop"] = False

                asyncio.BaseEventLoop.call_soon_threadsafe(loop, cb)

            def user_body():
                if registered:
                    asyncio.set_event_loop(loop)
                try:
                    user_body2()
                finally:
                    if registered:
                        asyncio.set_event_loop(None)

            def user_body2():
                # --- schedule
                if smode == "pre":
                    do_sched()
                else:
                    ctl.wait_until(lambda: loop.is_running())
                    if case.get("busy"):
                        # the loop thread is held inside a slow synchronous callback (1 s of loop time)
                        def busy_cb():
                            run["busy_started"] = True
                            sleep_until(ctl.clock + 1)

                        asyncio.BaseEventLoop.call_soon_threadsafe(loop, busy_cb)
                        ctl.wait_until(lambda: run["busy_started"])
                    if smode == "onLoop":
                        on_loop(do_sched)
                        ctl.wait_until(lambda: run["scheduled"])
                    else:
                        do_sched()
                # --- dispose
                if mode == "notRunning":
                    if smode != "pre":
                        if gap:
                            sleep_until(ctl.clock + gap)
                        run["stop_req"] = True
                        ctl.wait_until(lambda: run["stopped"])
                    do_disp()
                else:
                    ctl.wait_until(lambda: loop.is_running())
                    if gap:
                        sleep_until(ctl.clock + gap)
                    if mode == "onLoop":
                        on_loop(do_disp)
                        ctl.wait_until(lambda: run["returned"])
                    else:
                        do_disp()
                run["user_done"] = True

            if case.get("handover"):
                # thread A (0) runs the loop first, with one on-loop dispose of a dummy action; the loop is then stopped
                # and run by thread B (2); A goes on as an ordinary (foreign) thread: schedules and disposes
                def run_loop_until(cond):
                    set_running(True)
                    try:
                        while not cond():
                            loop._run_once()
                    finally:
                        set_running(False)

                def a_body():
                    run["muted"] = True
                    loop._check_closed()
                    run_loop_until(lambda: run["handover_req"])
                    run["handed_over"] = True
                    run["muted"] = False
                    ctl.wait_until(lambda: run["loop_tid"] == 2 and loop.is_running())
                    if registered:
                        asyncio.set_event_loop(loop)
                    try:
                        do_sched()
                        if gap:
                            sleep_until(ctl.clock + gap)
                        do_disp()
                    finally:
                        if registered:
                            asyncio.set_event_loop(None)
                    run["user_done"] = True

                def coordinator():
                    ctl.wait_until(lambda: loop.is_running())
                    done = []

                    def dummy():
                        d = sched.schedule_relative(5.0, lambda sc, st=None: None) if kind == "rel" else sched.schedule(lambda sc, st=None: None)
                        d.dispose()  # a dispose on the loop thread A
                        done.append(1)

                    asyncio.BaseEventLoop.call_soon_threadsafe(loop, dummy)
                    ctl.wait_until(lambda: done)
                    run["handover_req"] = True

                def b_body():
                    ctl.wait_until(lambda: run["handed_over"])
                    run["loop_tid"] = 2

                    def finished():
                        live = [h for h in loop._scheduled if not h._cancelled]
                        return run["user_done"] and not len(loop._ready) and not live

                    run_loop_until(finished)

                ctl.spawn(a_body, "loopA-then-user")
                ctl.spawn(coordinator, "coordinator")
                ctl.spawn(b_body, "loopB")
            else:
                ctl.spawn(loop_body, "loop")
                ctl.spawn(user_body, "user")
        outcome = ctl.run()
    finally:
        SCH.default_now = saved_now
        if restore:
            restore()
        if loop is not None:
            try:
                loop.close()
            except Exception:
                pass
    # --- projection to model actions/labels
    evs = []
    when = run["when"]
    ticked = False
    armed_at = None
    for e in ctl.log:
        if e[0] == "ev":
            act, label = e[1], e[2]
            if fl == "plain" and label == "cancel1":
                label = "cancel1-ret"
            evs.append([act, label])
            if label == "later":
                armed_at = len(evs)
        elif e[0] == "clock" and when is not None and armed_at is not None and not ticked and e[1] >= when:
            evs.append([2, "tick"])
            ticked = True
    excs = [f"{t.idx}:{type(t.exc).__name__}:{t.exc}" for t in ctl.threads if t.exc is not None]
    return {"outcome": outcome, "events": evs, "starts": run["starts"], "returned": run["returned"], "late": run["late"],
            "steps": ctl.steps, "choices": ctl.choices, "kinds": ctl.kinds, "preempted": ctl.preempted, "excs": excs,
            "nthreads": len(ctl.threads),
            "sched_clock": run.get("sched_clock"), "delay": delay}

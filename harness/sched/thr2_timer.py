"""C34 scenarios: the real TimeoutScheduler / NewThreadScheduler / ThreadPoolScheduler / EventLoopScheduler with
`threading.Timer`, thread factories, `threading.Condition` and the scheduler clock replaced by cooperative versions
on the controller's clock (1 tick = 1 s), a user thread that schedules and disposes on a generated timeline, and
the timer / event-loop threads spawned as controlled threads.

Scenario JSON: {"sched": "timeout"|"newthread"|"threadpool"|"eventloop",
                "items": [{"how": "rel"|"abs"|"now", "delay": ticks, "at": schedule time, "disp": dispose time|null,
                           "tz": UTC offset in hours of the aware datetime given to schedule_absolute (optional)}, ...],
                "first": thread, "pre": [[step, to], ...]}
"""
from __future__ import annotations

from datetime import datetime, timedelta, timezone

from . import thr2_ctl as tc

EPOCH = datetime(2030, 1, 1, tzinfo=timezone.utc)
TARGETS = ["reactivex/scheduler/timeoutscheduler.py", "reactivex/scheduler/eventloopscheduler.py",
           "reactivex/scheduler/newthreadscheduler.py", "reactivex/scheduler/scheduleditem.py",
           "reactivex/scheduler/threadpoolscheduler.py"]


def run_case(case, wall=8.0, max_steps=6000):
    import reactivex.scheduler.eventloopscheduler as ELS
    import reactivex.scheduler.scheduler as SCH
    import reactivex.scheduler.timeoutscheduler as TOS
    from reactivex.scheduler import EventLoopScheduler, NewThreadScheduler, ThreadPoolScheduler, TimeoutScheduler
    from reactivex.scheduler.scheduleditem import ScheduledItem

    kind = case["sched"]
    items = case["items"]
    ctl = tc.Controller(TARGETS, first=case.get("first", 0), pre=case.get("pre", ()), wall=wall, max_steps=max_steps,
                        auto_clock=True)
    run = {"timers": [], "sitems": [], "starts": [[] for _ in items], "disposed_at": [None] * len(items),
           "sched_at": [None] * len(items), "due": [None] * len(items), "excs": []}
    log = ctl.log

    def tid():
        me = ctl.me()
        return me.idx if me is not None else -1

    def now():
        log.append(("now", tid(), ctl.clock))
        return EPOCH + timedelta(seconds=ctl.clock)

    class CTimer:
        """threading.Timer (modelled, trusted): wait for the interval or cancellation, read `finished`, run."""

        def __init__(self, interval, function, args=None, kwargs=None):
            self.interval, self.function = interval, function
            self.args, self.kwargs = args or [], kwargs or {}
            self.finished = tc.CEvent(ctl)
            self.daemon = True
            self.n = len(run["timers"])
            run["timers"].append(self)
            self.created = ctl.clock

        def start(self):
            ctl.spawn(self.run, f"timer{self.n}")

        def cancel(self):
            log.append(("T", self.n, "dispose", tid()))
            self.finished.set()

        def run(self):
            self.finished.wait(self.interval)
            log.append(("T", self.n, "wake", tid()))
            ctl.yield_point(None, "op")
            if not self.finished.is_set():
                log.append(("T", self.n, "run", tid()))
                self.function(*self.args, **self.kwargs)
            else:
                log.append(("T", self.n, "skip", tid()))
            self.finished.set()

    class CThread:
        def __init__(self, target):
            self.target = target

        def start(self):
            ctl.spawn(self.target, "evloop")

    class LItem(ScheduledItem):
        def __init__(self, *a, **k):
            super().__init__(*a, **k)
            self.n = len(run["sitems"])
            run["sitems"].append(self)

        def is_cancelled(self):
            r = super().is_cancelled()
            log.append(("L", self.n, "check-skip" if r else "check-run", tid()))
            return r

        def cancel(self):
            # logged once the flag is set: the yield point of ScheduledItem.cancel's line lies before the write
            r = super().cancel()
            log.append(("L", self.n, "dispose", tid()))
            return r

    class FakeExecutor:
        def submit(self, fn):
            ctl.spawn(fn, "pool")
            return None

    saved = (TOS.Timer, SCH.default_now, ELS.ScheduledItem)
    outcome = None
    try:
        with tc.setup(ctl):
            TOS.Timer = CTimer
            SCH.default_now = now
            ELS.ScheduledItem = LItem
            if kind == "timeout":
                sched = TimeoutScheduler()
            elif kind == "newthread":
                sched = NewThreadScheduler(thread_factory=CThread)
            elif kind == "threadpool":
                sched = ThreadPoolScheduler(1)
                sched.executor.shutdown(wait=False)
                sched.executor = FakeExecutor()
            elif kind == "eventloop":
                sched = EventLoopScheduler(thread_factory=CThread)
            else:
                raise ValueError(kind)
            disposables = [None] * len(items)

            def mk_action(i):
                def action(scheduler, state=None):
                    run["starts"][i].append({"clock": ctl.clock, "thread": tid()})
                return action

            def sleep_until(t):
                ctl.wait_until(lambda: ctl.clock >= t, wake_at=t)

            def user():
                timeline = []
                for i, it in enumerate(items):
                    timeline.append((it.get("at", 0), 0, "sched", i))
                    if it.get("disp") is not None:
                        timeline.append((max(it["disp"], it.get("at", 0)), 1, "disp", i))
                timeline.sort()
                horizon = 0
                if case.get("type") == "shared":
                    ctl.no_preempt = True  # all items are queued before the loop thread's first turn (the model's premise)
                nsched = 0
                for t, _o, what, i in timeline:
                    sleep_until(t)
                    it = items[i]
                    if what == "sched":
                        run["sched_at"][i] = ctl.clock
                        log.append(("U", i, "sched", tid()))
                        if it["how"] == "now":
                            run["due"][i] = ctl.clock
                            disposables[i] = sched.schedule(mk_action(i))
                        elif it["how"] == "rel":
                            run["due"][i] = ctl.clock + max(0, it["delay"])
                            disposables[i] = sched.schedule_relative(float(it["delay"]), mk_action(i))
                        else:
                            due = ctl.clock + it["delay"]
                            run["due"][i] = max(due, ctl.clock)
                            when = EPOCH + timedelta(seconds=due)
                            if it.get("tz") is not None:  # the same instant written in another UTC offset
                                when = when.astimezone(timezone(timedelta(hours=it["tz"])))
                            disposables[i] = sched.schedule_absolute(when, mk_action(i))
                        horizon = max(horizon, run["due"][i])
                        nsched += 1
                        if nsched == len(items):
                            ctl.no_preempt = False
                    else:
                        disposables[i].dispose()
                        run["disposed_at"][i] = ctl.clock
                if kind == "eventloop":
                    sleep_until(horizon + 1)
                    ctl.wait_until(lambda: all(run["starts"][i] or run["disposed_at"][i] is not None or False
                                               for i in range(len(items))) or True)
                    log.append(("U", -1, "end", tid()))
                    sched.dispose()

            ctl.spawn(user, "user")
        outcome = ctl.run()
    finally:
        TOS.Timer, SCH.default_now, ELS.ScheduledItem = saved
    excs = [f"{t.idx}:{type(t.exc).__name__}:{t.exc}" for t in ctl.threads if t.exc is not None]
    return {"outcome": outcome, "log": [list(e) for e in log], "starts": run["starts"], "disposed_at": run["disposed_at"],
            "due": run["due"], "sched_at": run["sched_at"], "steps": ctl.steps, "choices": ctl.choices, "kinds": ctl.kinds,
            "preempted": ctl.preempted, "excs": excs, "nthreads": len(ctl.threads)}


def project(case, r):
    """single-item scenarios: observed events -> (model cfg, actions, labels) for `timer_replay`."""
    it = case["items"][0]
    due = r["due"][0]
    immediate = (it["how"] == "now") or (it["delay"] <= 0)
    evs = []
    ticked = immediate
    if case["sched"] == "timeout":
        for e in r["log"]:
            if e[0] == "clock" and not ticked and due is not None and e[1] >= due:
                evs.append([2, "tick"]); ticked = True
            elif e[0] == "T" and e[1] == 0:
                if e[2] == "dispose":
                    evs.append([1, "dispose"])
                else:
                    evs.append([0, e[2]])
        return {"kind": "timer", "immediate": immediate}, evs
    # event-loop kinds: the loop thread is the one that performs the `check`
    loop_tid = None
    for e in r["log"]:
        if e[0] == "L" and e[2].startswith("check"):
            loop_tid = e[3]
    if loop_tid is None:
        # the loop thread never reached the check (scheduler disposed first): take the first non-user thread reading the clock
        for e in r["log"]:
            if e[0] == "now" and e[1] not in (0, -1):
                loop_tid = e[1]
                break
    pc = 0
    for e in r["log"]:
        if e[0] == "clock" and not ticked and due is not None and e[1] >= due:
            evs.append([2, "tick"]); ticked = True
        elif e[0] == "L" and e[1] == 0 and e[2] == "dispose":
            evs.append([1, "dispose"])
        elif e[0] == "now" and e[1] == loop_tid:
            isdue = e[2] >= due
            if pc == 0:
                evs.append([0, "top-due" if isdue else "top-notdue"]); pc = 1 if isdue else 3
            elif pc == 3:
                evs.append([0, "bottom-due" if isdue else "bottom-wait"]); pc = 0 if isdue else 4
        elif e[0] == "W" and e[1] == loop_tid and pc == 4:
            evs.append([0, "timeout"]); pc = 0
        elif e[0] == "L" and e[1] == 0 and e[2].startswith("check") and pc == 1:
            evs.append([0, e[2]]); pc = 5
    return {"kind": "evloop", "immediate": immediate}, evs


def project_shared(case, r):
    """several relative items queued at time 0 on one EventLoopScheduler: observed events -> request for
    `loopn_replay` and the labels the model must produce."""
    n = len(case["items"])
    due = r["due"]
    order = sorted(range(n), key=lambda i: (due[i], i))
    loop_tid = None
    for e in r["log"]:
        if e[0] == "now" and e[1] not in (0, -1):
            loop_tid = e[1]
            break
    acts, labels = [], []
    pc = 0  # 0 expecting top, 1 in the check loop, 2 after bottom (wait or next top)
    for e in r["log"]:
        if e[0] == "U" and e[2] == "end":
            break
        if e[0] == "clock":
            acts.append(["tick", int(e[1])]); labels.append(f"tick{int(e[1])}")
        elif e[0] == "L" and e[2] == "dispose":
            acts.append(["dispose", e[1]]); labels.append(f"dispose{e[1]}")
        elif e[0] == "L" and e[2].startswith("check"):
            acts.append(["loop"]); labels.append(f"check{e[1]}-{e[2][6:]}")
        elif e[0] == "now" and e[1] == loop_tid:
            if pc == 1:  # end of the check loop, then the bottom read
                acts += [["loop"], ["loop"]]; labels += ["drained", "bottom"]
                pc = 2
            else:
                acts.append(["loop"]); labels.append("top")
                pc = 1
        elif e[0] == "W" and e[1] == loop_tid and pc == 2:
            acts.append(["loop"]); labels.append("wake")
            pc = 0
    if pc == 1:
        acts += [["loop"], ["loop"]]; labels += ["drained", "idle"]
    return {"op": "loopn_replay", "order": order, "ranks": [int(d) for d in due], "sched": acts}, labels

"""C34 scenarios: the real TimeoutScheduler / NewThreadScheduler / ThreadPoolScheduler / EventLoopScheduler with
`threading.Timer`, thread factories, `threading.Condition` and the scheduler clock replaced by cooperative versions
on the controller's clock (1 tick = 1 s), a user thread that schedules and disposes on a generated timeline, and
the timer / event-loop threads spawned as controlled threads.

Scenario JSON: {"sched": "timeout"|"newthread"|"threadpool"|"eventloop",
                "items": [{"how": "rel"|"abs"|"now", "delay": ticks, "at": schedule time, "disp": dispose time|null,
                           "tz": UTC offset in hours of the aware datetime given to schedule_absolute (optional)}, ...],
                "first": thread, "pre": [[step, to], ...]}
"""
from __future__ import annotations

from datetime import datetime, timedelta, timezone

from . import thr2_ctl as tc

EPOCH = datetime(2030, 1, 1, tzinfo=timezone.utc)
TARGETS = ["reactivex/scheduler/timeoutscheduler.py", "reactivex/scheduler/eventloopscheduler.py",
           "reactivex/scheduler/newthreadscheduler.py", "reactivex/scheduler/scheduleditem.py",
           "reactivex/scheduler/threadpoolscheduler.py"]


def run_case(case, wall=8.0, max_steps=6000):
    import reactivex.scheduler.eventloopscheduler as ELS
    import reactivex.scheduler.scheduler as SCH
    import reactivex.scheduler.timeoutscheduler as TOS
    from reactivex.scheduler import EventLoopScheduler, NewThreadScheduler, ThreadPoolScheduler, TimeoutScheduler
    from reactivex.scheduler.scheduleditem import ScheduledItem

    kind = case["sched"]
    items = case["items"]
    ctl = tc.Controller(TARGETS, first=case.get("first", 0), pre=case.get("pre", ()), wall=wall, max_steps=max_steps,
                        auto_clock=True)
    run = {"check_pos": {}, "ticks": [], "p_returned": False, "timers": [], "sitems": [], "starts": [[] for _ in items], "disposed_at": [None] * len(items),
           "sched_at": [None] * len(items), "due": [None] * len(items), "excs": []}
    log = ctl.log

    def tid():
        me = ctl.me()
        return me.idx if me is not None else -1

    run["offset"] = 0  # scheduler clock = monotonic controller clock - offset (a wall clock that was stepped back)
    run["timer_args"] = []

    def sclock():
        return ctl.clock - run["offset"]

    def now():
        log.append(("now", tid(), sclock()))
        return EPOCH + timedelta(seconds=sclock())

    class CTimer:
        """threading.Timer (modelled, trusted): wait for the interval or cancellation, read `finished`, run."""

        def __init__(self, interval, function, args=None, kwargs=None):
            self.interval, self.function = interval, function
            self.args, self.kwargs = args or [], kwargs or {}
            self.finished = tc.CEvent(ctl)
            self.daemon = True
            self.n = len(run["timers"])
            run["timers"].append(self)
            self.created = ctl.clock
            run["timer_args"].append([run.get("cur_item"), float(interval)])

        def start(self):
            ctl.spawn(self.run, f"timer{self.n}")

        def cancel(self):
            log.append(("T", self.n, "dispose", tid()))
            self.finished.set()

        def run(self):
            self.finished.wait(self.interval)
            log.append(("T", self.n, "wake", tid()))
            ctl.yield_point(None, "op")
            if not self.finished.is_set():
                log.append(("T", self.n, "run", tid()))
                self.function(*self.args, **self.kwargs)
            else:
                log.append(("T", self.n, "skip", tid()))
            self.finished.set()

    class CThread:
        def __init__(self, target):
            self.target = target

        def start(self):
            ctl.spawn(self.target, "evloop")

    class LItem(ScheduledItem):
        def __init__(self, *a, **k):
            super().__init__(*a, **k)
            self.n = len(run["sitems"])
            run["sitems"].append(self)

        def is_cancelled(self):
            r = super().is_cancelled()
            log.append(("L", self.n, "check-skip" if r else "check-run", tid()))
            if not r:
                run["check_pos"][tid()] = len(log)  # the read that lets the action through = "the action starts"
            return r

        def cancel(self):
            # logged once the flag is set: the yield point of ScheduledItem.cancel's line lies before the write
            r = super().cancel()
            log.append(("L", self.n, "dispose", tid()))
            return r

    class FakeExecutor:
        """ThreadPoolExecutor.submit with a bounded number of workers (controlled threads): submissions beyond that
        wait in a FIFO queue until a worker frees up."""

        def __init__(self, max_workers):
            self.max_workers, self.busy, self.q = max_workers, 0, []

        def submit(self, fn):
            if self.busy < self.max_workers:
                self.busy += 1
                ctl.spawn(lambda: self._worker(fn), "pool")
            else:
                self.q.append(fn)
            return None

        def _worker(self, fn):
            fn()
            while self.q:
                self.q.pop(0)()
            self.busy -= 1

    saved = (TOS.Timer, SCH.default_now, ELS.ScheduledItem)
    outcome = None
    try:
        with tc.setup(ctl):
            TOS.Timer = CTimer
            SCH.default_now = now
            ELS.ScheduledItem = LItem
            if kind == "timeout":
                sched = TimeoutScheduler()
            elif kind == "newthread":
                sched = NewThreadScheduler(thread_factory=CThread)
            elif kind == "threadpool":
                sched = ThreadPoolScheduler(1)
                sched.executor.shutdown(wait=False)
                sched.executor = FakeExecutor((case.get("pool") or {}).get("workers", 10 ** 6))
            elif kind == "eventloop":
                sched = EventLoopScheduler(thread_factory=CThread)
            else:
                raise ValueError(kind)
            disposables = [None] * len(items)

            def mk_action(i):
                def action(scheduler, state=None):
                    pos = run["check_pos"].pop(tid(), None)
                    if pos is None:
                        pos = len(log)  # nothing read the item's disposable before invoking it
                    late = any(e[0] == "U" and e[1] == i and e[2] == "disposed" for e in log[:pos])
                    run["starts"][i].append({"clock": sclock(), "thread": tid(), "after_dispose_returned": late})
                return action

            def sleep_until(t):
                ctl.wait_until(lambda: ctl.clock >= t, wake_at=t)

            def delay_of(it):
                if it.get("td") is not None:
                    d, sec, us = it["td"]
                    return timedelta(days=d, seconds=sec, microseconds=us)
                return None

            def periodic_user():
                pc = case["periodic"]
                costs = list(pc["costs"])

                def tick(state):
                    k = len(run["ticks"])
                    # "the tick starts" = the thread's read of the `disposed` flag that let it through (DESIGN.md §8)
                    me = tid()
                    idx = max((j for j, e in enumerate(log) if e[0] == "EV" and e[1] == me and e[2] == "isset"), default=len(log))
                    late = any(e[0] == "P" and e[1] == "returned" for e in log[:idx])
                    run["ticks"].append({"clock": ctl.clock, "after_return": late})
                    log.append(("P", "start", k))
                    if late or k >= 10:
                        raise tc.Abort()  # a tick after dispose() returned (recorded): stop the runaway loop
                    cost = costs[k] if k < len(costs) else costs[-1]
                    if cost:
                        sleep_until(ctl.clock + cost)
                    log.append(("P", "end", k))
                    return (state or 0) + 1

                d = sched.schedule_periodic(float(pc["period"]), tick, 0)
                sleep_until(pc["disp"])
                d.dispose()
                run["p_returned"] = True
                log.append(("P", "returned", -1))

            def user():
                if case.get("type") == "periodic":
                    return periodic_user()
                timeline = []
                if case.get("pool") and case["pool"].get("block"):
                    # saturate the pool: a blocker action keeps the only worker(s) busy for `block` ticks
                    def blocker(scheduler, state=None):
                        sleep_until(ctl.clock + case["pool"]["block"])

                    for _ in range(case["pool"].get("workers", 1)):
                        sched.schedule(blocker)
                if case.get("skew"):
                    timeline.append((case["skew"]["at"], 2, "skew", -1))
                for i, it in enumerate(items):
                    timeline.append((it.get("at", 0), 0, "sched", i))
                    if it.get("disp") is not None:
                        timeline.append((max(it["disp"], it.get("at", 0)), 1, "disp", i))
                timeline.sort()
                horizon = 0
                if case.get("type") == "shared":
                    ctl.no_preempt = True  # all items are queued before the loop thread's first turn (the model's premise)
                nsched = 0
                for t, _o, what, i in timeline:
                    sleep_until(t)
                    if what == "skew":
                        run["offset"] += case["skew"]["by"]
                        log.append(("skew", run["offset"]))
                        continue
                    it = items[i]
                    if what == "sched":
                        run["sched_at"][i] = sclock()
                        run["cur_item"] = i
                        log.append(("U", i, "sched", tid()))
                        td = delay_of(it)
                        dly = td.total_seconds() if td is not None else it["delay"]
                        if it["how"] == "now":
                            run["due"][i] = sclock()
                            disposables[i] = sched.schedule(mk_action(i))
                        elif it["how"] == "rel":
                            run["due"][i] = sclock() + max(0, dly)
                            disposables[i] = sched.schedule_relative(td if td is not None else float(it["delay"]), mk_action(i))
                        else:
                            due = sclock() + dly
                            run["due"][i] = max(due, sclock())
                            when = EPOCH + timedelta(seconds=due)
                            if it.get("tz") is not None:  # the same instant written in another UTC offset
                                when = when.astimezone(timezone(timedelta(hours=it["tz"])))
                            disposables[i] = sched.schedule_absolute(when, mk_action(i))
                        horizon = max(horizon, run["due"][i])
                        nsched += 1
                        if nsched == len(items):
                            ctl.no_preempt = False
                    else:
                        disposables[i].dispose()
                        run["disposed_at"][i] = sclock()
                        log.append(("U", i, "disposed", tid()))
                if kind == "eventloop":
                    sleep_until(horizon + 1 + run["offset"])
                    ctl.wait_until(lambda: all(run["starts"][i] or run["disposed_at"][i] is not None or False
                                               for i in range(len(items))) or True)
                    log.append(("U", -1, "end", tid()))
                    sched.dispose()

            ctl.spawn(user, "user")
        outcome = ctl.run()
    finally:
        TOS.Timer, SCH.default_now, ELS.ScheduledItem = saved
    excs = [f"{t.idx}:{type(t.exc).__name__}:{t.exc}" for t in ctl.threads if t.exc is not None]
    return {"outcome": outcome, "log": [list(e) for e in log], "starts": run["starts"], "disposed_at": run["disposed_at"],
            "due": run["due"], "sched_at": run["sched_at"], "steps": ctl.steps, "choices": ctl.choices, "kinds": ctl.kinds,
            "preempted": ctl.preempted, "excs": excs, "nthreads": len(ctl.threads), "timer_args": run["timer_args"],
            "ticks": run["ticks"], "p_returned": run["p_returned"]}


def _delay(it):
    if it.get("td") is not None:
        d, sec, us = it["td"]
        return timedelta(days=d, seconds=sec, microseconds=us).total_seconds()
    return it["delay"]


def project(case, r):
    """single-item scenarios: observed events -> (model cfg, actions, labels) for `timer_replay`.  The scheduler clock
    is the controller clock minus the current skew."""
    it = case["items"][0]
    due = r["due"][0]
    immediate = (it["how"] == "now") or (_delay(it) <= 0)
    evs = []
    ticked = immediate
    clock, offset = 0, 0

    def maybe_tick():
        nonlocal ticked
        if not ticked and due is not None and clock - offset >= due:
            evs.append([2, "tick"]); ticked = True

    if case["sched"] == "timeout":
        for e in r["log"]:
            if e[0] == "clock":
                clock = e[1]; maybe_tick()
            elif e[0] == "T" and e[1] == 0:
                if e[2] == "dispose":
                    evs.append([1, "dispose"])
                else:
                    evs.append([0, e[2]])
        return {"kind": "timer", "immediate": immediate}, evs
    # event-loop kinds: the loop thread is the one that performs the `check`
    loop_tid = None
    for e in r["log"]:
        if e[0] == "L" and e[2].startswith("check"):
            loop_tid = e[3]
    if loop_tid is None:
        for e in r["log"]:
            if e[0] == "now" and e[1] not in (0, -1):
                loop_tid = e[1]
                break
    pc = 0
    for e in r["log"]:
        if e[0] == "clock":
            clock = e[1]; maybe_tick()
        elif e[0] == "skew":
            offset = e[1]
        elif e[0] == "L" and e[1] == 0 and e[2] == "dispose":
            evs.append([1, "dispose"])
        elif e[0] == "now" and e[1] == loop_tid:
            isdue = e[2] >= due
            if pc == 0:
                evs.append([0, "top-due" if isdue else "top-notdue"]); pc = 1 if isdue else 3
            elif pc == 3:
                evs.append([0, "bottom-due" if isdue else "bottom-wait"]); pc = 0 if isdue else 4
        elif e[0] == "W" and e[1] == loop_tid and pc == 4:
            if clock - offset >= due:
                evs.append([0, "timeout"])
            else:
                evs.append([3, "timeout-early"])  # the wait ran out on the monotonic clock, the scheduler clock is behind
            pc = 0
        elif e[0] == "L" and e[1] == 0 and e[2].startswith("check") and pc == 1:
            evs.append([0, e[2]]); pc = 5
    return {"kind": "evloop", "immediate": immediate}, evs


def project_periodic(case, r):
    """NewThread/ThreadPool schedule_periodic: observed events -> actions and labels for `periodic_replay`."""
    ptid = None
    for e in r["log"]:
        if e[0] == "EV" and e[2] in ("wait", "isset"):
            ptid = e[1]
            break
    seq = [e for e in r["log"] if (e[0] == "EV" and (e[1] == ptid or e[2] == "set")) or e[0] == "P"]
    acts, labels = [], []
    waited = False
    for i, e in enumerate(seq):
        if e[0] == "EV" and e[2] == "set":
            acts.append(1); labels.append("dispose")
        elif e[0] == "EV" and e[2] == "wait":
            acts.append(0); labels.append("wait"); waited = True
        elif e[0] == "EV" and e[2] == "waitret":
            if not e[3]:
                acts.append(2); labels.append("elapse")
            acts.append(0); labels.append("waitret")
        elif e[0] == "EV" and e[2] == "isset":
            if not waited:
                acts.append(0); labels.append("nowait")
            waited = False
            acts.append(0); labels.append("return" if e[3] else "tick-start")
        elif e[0] == "P" and e[1] == "end":
            nxt = next((x for x in seq[i + 1:] if x[0] == "EV" and x[1] == ptid), None)
            slow = nxt is not None and nxt[2] == "isset"
            acts.append(5 if slow else 4); labels.append("tick-end-slow" if slow else "tick-end")
    return {"op": "periodic_replay", "period0": case["periodic"]["period"] == 0, "sched": acts}, labels


def project_shared(case, r):
    """several relative items queued at time 0 on one EventLoopScheduler: observed events -> request for
    `loopn_replay` and the labels the model must produce."""
    n = len(case["items"])
    due = r["due"]
    order = sorted(range(n), key=lambda i: (due[i], i))
    loop_tid = None
    for e in r["log"]:
        if e[0] == "now" and e[1] not in (0, -1):
            loop_tid = e[1]
            break
    acts, labels = [], []
    clock, offset, skewed = 0, 0, False
    pc = 0  # 0 expecting top, 1 in the check loop, 2 after bottom (wait or next top)
    for e in r["log"]:
        if e[0] == "U" and e[2] == "end":
            break
        if e[0] == "clock" or e[0] == "skew":
            if e[0] == "clock":
                clock = e[1]
            else:
                offset = e[1]; skewed = True
            t = max(0, int(clock - offset))
            acts.append(["tick", t]); labels.append(f"tick{t}")
        elif e[0] == "L" and e[2] == "dispose":
            acts.append(["dispose", e[1]]); labels.append(f"dispose{e[1]}")
        elif e[0] == "L" and e[2].startswith("check"):
            acts.append(["loop"]); labels.append(f"check{e[1]}-{e[2][6:]}")
        elif e[0] == "now" and e[1] == loop_tid:
            if pc == 1:  # end of the check loop, then the bottom read
                acts += [["loop"], ["loop"]]; labels += ["drained", "bottom"]
                pc = 2
            else:
                acts.append(["loop"]); labels.append("top")
                pc = 1
        elif e[0] == "W" and e[1] == loop_tid and pc == 2:
            # after a step back of the scheduler clock the timed wait may run out before the head is due
            acts.append(["earlyWake"] if skewed else ["loop"]); labels.append("wake")
            pc = 0
    if pc == 1:
        acts += [["loop"], ["loop"]]; labels += ["drained", "idle"]
    return {"op": "loopn_replay", "order": order, "ranks": [int(d) for d in due], "sched": acts}, labels

"""Property oracles for C25-C27, written against the property text (atomic reference semantics of each class),
independent of the Lean models.  They take what sched/disp_real.py records on the REAL classes:

  history run : [[["ret", v] | ["raise"], obs], ...]             (one entry per call)
  thread run  : trace [[tid, [kind, ...]], ...] + final obs      (global order of visible events)

and return None or a description of the violated clause.
"""
from collections import Counter

STEP = ("L", "R", "W", "D", "A", "S")


# ------------------------------------------------------------------------------------------------ C26 reference
class RefContainer:
    """what the property text promises, as atomic operations: `released[i]` = number of times item i must have
    been disposed so far (removed / replaced / cleared / container disposed / handed over after disposal)."""

    def __init__(self, cls, init=()):
        self.cls = cls
        self.disposed = False
        self.held = list(init)  # composite: list; others: [] or [item]
        self.released = Counter()

    def apply(self, op):
        """-> expected outcome ["ret", v] | ["raise"]"""
        k = op[0]
        c = self.cls
        if c == "composite":
            if k == "add":
                if self.disposed:
                    self.released[op[1]] += 1
                else:
                    self.held.append(op[1])
                return ["ret", None]
            if k == "remove":
                if not self.disposed and op[1] in self.held:
                    self.held.remove(op[1])
                    self.released[op[1]] += 1
                    return ["ret", True]
                return ["ret", False]
            if k == "clear":
                for i in self.held:
                    self.released[i] += 1
                self.held = []
                return ["ret", None]
            if k == "len":
                return ["ret", len(self.held)]
            if k == "contains":
                return ["ret", op[1] in self.held]
        else:
            if k == "set":
                if self.disposed:
                    self.released[op[1]] += 1  # assigned after the disposal: disposed on the spot
                    return ["ret", None]
                if c == "sad" and self.held:
                    return ["raise"]  # second assignment to a not yet disposed container is rejected
                if c == "serial":
                    for i in self.held:
                        self.released[i] += 1  # replaced: disposed
                # mad: replaced without disposal (documented)
                self.held = [op[1]]
                return ["ret", None]
            if k == "get":
                return ["ret", {"item": self.held[0] if self.held else None}]
        if k == "dispose":
            if not self.disposed:
                self.disposed = True
                for i in self.held:
                    self.released[i] += 1
                self.held = []
            return ["ret", None]
        raise ValueError(op)


def c26_history(case, out):
    ref = RefContainer(case["cls"], case.get("init", []))
    for n, (op, (res, obs)) in enumerate(zip(case["threads"][0], out)):
        exp = ref.apply(op)
        if res != exp:
            if exp == ["raise"]:
                return f"call {n} {op}: second assignment to a not-disposed SingleAssignmentDisposable was accepted"
            return f"call {n} {op}: returned {res}, the property text demands {exp}"
        for i, c in enumerate(obs["cnt"]):
            if c > ref.released[i]:
                return (f"after call {n} {op}: item {i} disposed {c}x but only {ref.released[i]} of its hand-overs were "
                        f"released (disposed while held / more than once)")
            if c < ref.released[i]:
                return f"after call {n} {op}: item {i} was released by the container {ref.released[i]}x but disposed only {c}x (leak)"
        if obs["is_disposed"] != ref.disposed:
            return f"after call {n} {op}: is_disposed={obs['is_disposed']}, expected {ref.disposed}"
    return None


def split_ops(case, trace):
    """per thread, the list of (op, [global indices of its events]) in program order (thread 0 = set-up)"""
    progs = {0: list(case.get("setup", []))}
    for t, ops in enumerate(case["threads"]):
        progs[t + 1] = list(ops)
    cur = {t: 0 for t in progs}
    ops = {t: [] for t in progs}
    for g, (tid, ev) in enumerate(trace):
        if tid not in progs:
            continue  # scheduler workers
        k = cur[tid]
        if k >= len(progs[tid]):
            continue
        if len(ops[tid]) <= k:
            ops[tid].append((progs[tid][k], []))
        ops[tid][k][1].append(g)
        if ev[0] in ("ret", "raise"):
            cur[tid] += 1
    return ops


def lin_points(case, trace):
    """global index -> (tid, op) at which the op takes effect: its last lock block on the container, else its last
    unlocked read, else its first event"""
    pts = {}
    for tid, lst in split_ops(case, trace).items():
        for op, idxs in lst:
            ls = [g for g in idxs if trace[g][1][0] == "L" and trace[g][1][1] == 0]
            rs = [g for g in idxs if trace[g][1][0] == "R"]
            g = ls[-1] if ls else (rs[-1] if rs else idxs[0])
            pts[g] = (tid, op)
    return pts


def c26_threads(case, trace, final, observers=True):
    """Every op takes effect at its lock block on the container (lock blocks are totally ordered by acquisition), an op
    without one at its unlocked read.  The pure observers get/len/contains are single unlocked reads: when such a read
    lands INSIDE another thread's open lock block (only possible in line-granular runs) it may see the attribute before or
    after that block's single write to it, so both the reference value before the block and after it are admissible;
    outside any open block exactly the reference value is.  (`observers=False` skips the observer comparison.)"""
    import copy

    ref = RefContainer(case["cls"], case.get("init", []))
    pts = lin_points(case, trace)
    expect = {}
    done = Counter()
    open_block = None  # (tid, reference state before that block) while a lock block on the container is open
    for g, (tid, ev) in enumerate(trace):
        if ev[0] == "L" and ev[1] == 0:
            open_block = (tid, copy.deepcopy(ref))
        if ev[0] == "U" and ev[1] == 0 and open_block is not None and open_block[0] == tid:
            open_block = None
        if g in pts:
            t, op = pts[g]
            if op[0] in ("get", "len", "contains"):
                adm = [ref.apply(op)]
                if open_block is not None and open_block[0] != t:
                    adm.append(copy.deepcopy(open_block[1]).apply(op))
                expect.setdefault(t, []).append((op, adm))
            else:
                expect.setdefault(t, []).append((op, [ref.apply(op)]))
        if ev[0] == "D":
            i = ev[1]
            if done[i] + 1 > ref.released[i]:
                held = i in ref.held
                return (f"event {g}: thread {tid} disposes item {i} (dispose #{done[i] + 1}) but the container released it only "
                        f"{ref.released[i]}x so far" + (" - it is still held by the live container" if held else " - disposed more than once"))
            done[i] += 1
        if ev[0] in ("ret", "raise"):
            if tid in expect and expect[tid]:
                op, adm = expect[tid].pop(0)
                got = ["raise"] if ev[0] == "raise" else ["ret", ev[1]]
                if not observers and op[0] in ("get", "len", "contains"):
                    continue
                if got not in adm:
                    if adm == [["raise"]]:
                        return f"event {g}: thread {tid} {op}: second assignment to a not-disposed SingleAssignmentDisposable was accepted"
                    return f"event {g}: thread {tid} {op} returned {got}, atomic semantics at its linearization point admits {adm}"
    for i, c in enumerate(final["cnt"]):
        if c != ref.released[i]:
            return f"at the end item {i} was disposed {c}x, released by the container {ref.released[i]}x" + (" (leak)" if c < ref.released[i] else "")
    if final["is_disposed"] != ref.disposed:
        return f"at the end is_disposed={final['is_disposed']}, expected {ref.disposed}"
    now = final["items"] if "items" in final else ([] if final["current"] is None else [final["current"]])
    if sorted(now) != sorted(ref.held):
        return f"at the end the container holds {now}, expected {ref.held}"
    return None


# ------------------------------------------------------------------------------------------------ nested (C26)
class RefNest:
    """CompositeDisposable holding one SerialDisposable, as atomic operations (property text, transitively)"""

    def __init__(self):
        self.cdisposed = False
        self.has = True
        self.ser = RefContainer("serial")
        self.via = 0  # serial.dispose() calls made by the composite

    def comp_part(self, op):
        """the part of dispC / removeS that happens in the composite; -> (expected result, owes serial.dispose())"""
        if op[0] == "dispC":
            if self.cdisposed:
                return ["ret", None], False
            self.cdisposed = True
            owes, self.has = self.has, False
            return ["ret", None], owes
        if op[0] == "removeS":
            if self.cdisposed or not self.has:
                return ["ret", False], False
            self.has = False
            return ["ret", True], True
        raise ValueError(op)

    def serial_part(self, op):
        if op[0] == "setS":
            self.ser.apply(["set", op[1]])
        else:
            if op[0] in ("dispC", "removeS"):
                self.via += 1
            self.ser.apply(["dispose"])


def _nest_check_counts(ref, cnt, where):
    for i, c in enumerate(cnt):
        if c > ref.ser.released[i]:
            return f"{where}: leaf {i} disposed {c}x but only {ref.ser.released[i]} of its assignments were released (disposed while held / twice)"
        if c < ref.ser.released[i]:
            return f"{where}: leaf {i} was released {ref.ser.released[i]}x but disposed only {c}x (leak)"
    return None


def nest_history(case, out):
    ref = RefNest()
    for n, (op, (res, obs)) in enumerate(zip(case["threads"][0], out)):
        if op[0] in ("dispC", "removeS"):
            exp, owes = ref.comp_part(op)
            if owes:
                ref.serial_part(op)
        else:
            exp = ["ret", None]
            ref.serial_part(op)
        if res != exp:
            return f"call {n} {op}: returned {res}, expected {exp}"
        v = _nest_check_counts(ref, obs["cnt"], f"after call {n} {op}")
        if v:
            return v
        if obs["is_disposed"] != ref.cdisposed or obs["serial_disposed"] != ref.ser.disposed:
            return f"after call {n} {op}: composite/serial is_disposed = {obs['is_disposed']}/{obs['serial_disposed']}, expected {ref.cdisposed}/{ref.ser.disposed}"
    return None


def nest_threads(case, trace, final):
    """the composite part of an op takes effect at its lock block on the composite (or its pre-check), the serial part at
    the serial's lock block, wherever and on whichever thread that runs; every leaf disposal must be justified by then"""
    ref = RefNest()
    ops = split_ops(case, trace)
    owner = {}
    for tid, lst in ops.items():
        for op, idxs in lst:
            l0 = [g for g in idxs if trace[g][1][0] == "L" and trace[g][1][1] == 0]
            r0 = [g for g in idxs if trace[g][1][0] == "R"]
            cp = l0[-1] if l0 else (r0[-1] if r0 else None)
            for g in idxs:
                owner[g] = (op, g == cp)
    expect = {}
    done = Counter()
    for g, (tid, ev) in enumerate(trace):
        op, is_cp = owner.get(g, (["?"], False))
        if is_cp and op[0] in ("dispC", "removeS"):
            exp, owes = ref.comp_part(op)
            expect.setdefault(tid, []).append((op, exp))
        if ev[0] == "L" and ev[1] == 1:
            if op[0] in ("setS", "dispS"):
                expect.setdefault(tid, []).append((op, ["ret", None]))
            ref.serial_part(op)
            if ref.via > 1:
                return f"event {g}: the composite calls serial.dispose() a second time"
        if ev[0] == "D":
            i = ev[1]
            if done[i] + 1 > ref.ser.released[i]:
                return f"event {g}: thread {tid} disposes leaf {i} (dispose #{done[i] + 1}) but only {ref.ser.released[i]} of its assignments were released so far"
            done[i] += 1
        if ev[0] in ("ret", "raise") and expect.get(tid):
            eop, exp = expect[tid].pop(0)
            got = ["raise"] if ev[0] == "raise" else ["ret", ev[1]]
            if got != exp:
                return f"event {g}: thread {tid} {eop} returned {got}, expected {exp}"
    v = _nest_check_counts(ref, final["cnt"], "at the end")
    if v:
        return v
    if final["is_disposed"] != ref.cdisposed or final["serial_disposed"] != ref.ser.disposed or final["has_serial"] != ref.has:
        return f"at the end composite disposed/has serial/serial disposed = {final['is_disposed']}/{final['has_serial']}/{final['serial_disposed']}, expected {ref.cdisposed}/{ref.has}/{ref.ser.disposed}"
    if ref.cdisposed and not ref.ser.disposed:
        return "at the end the composite is disposed but the serial it held is not"
    return None


# ------------------------------------------------------------------------------------------------ C25
def c25_history(case, out):
    cls = case["cls"]
    if cls == "disposable":
        for n, (res, obs) in enumerate(out):
            if obs["actions"] != 1:
                return f"after dispose() call {n}: the action ran {obs['actions']} times"
            if not obs["is_disposed"]:
                return f"after dispose() call {n} returned: is_disposed is False"
    elif cls == "boolean":
        for n, (res, obs) in enumerate(out):
            if not obs["is_disposed"]:
                return f"after dispose() call {n} returned: is_disposed is False"
    elif cls == "scheduled":
        kind = case.get("sched_kind", "queue")
        pending = 0
        ran = False
        for n, (op, (res, obs)) in enumerate(zip(case["threads"][0], out)):
            before = 1 if ran else 0
            if op[0] == "dispose":
                if kind == "immediate":
                    ran = True
                else:
                    pending += 1
            elif op[0] == "run" and pending:
                pending -= 1
                ran = True
            elif op[0] == "runall" and pending:
                pending = 0
                ran = True
            exp = 1 if ran else 0
            if obs["cnt"][0] != exp:
                if op[0] == "dispose" and kind != "immediate" and obs["cnt"][0] > before:
                    return f"call {n} dispose(): the wrapped resource was disposed synchronously, not on the scheduler"
                return f"after call {n} {op}: wrapped resource disposed {obs['cnt'][0]}x, expected {exp}"
            if obs["is_disposed"] != ran:
                return f"after call {n} {op}: is_disposed={obs['is_disposed']}, expected {ran}"
    return None


def c25_stack_history(case, out):
    """Stacked ScheduledDisposable layers (layer 0 wraps the resource, layer k wraps layer k-1), every layer bound to its
    own scheduler.  Reference: dispose(layer k) hands one action to scheduler k (an immediate scheduler runs it at once); the
    action disposes layer k's content once: the resource for k = 0, else layer k-1 (which schedules on scheduler k-1).
    Property: the resource is released exactly once, inside an action of scheduler 0 - the scheduler of the layer that
    directly wraps it - and a layer reports is_disposed once one of ITS actions ran."""
    kinds = case["layers"]
    n = len(kinds)
    queues = [0] * n      # pending actions per scheduler
    fired = [False] * n   # layer k's inner holder disposed
    released = 0

    def action(k):
        nonlocal released
        if fired[k]:
            return
        fired[k] = True
        if k == 0:
            released += 1
        else:
            dispose(k - 1)

    def dispose(k):
        if kinds[k] == "immediate":
            action(k)
        else:
            queues[k] += 1

    def run(k):
        if kinds[k] == "queue":
            if queues[k]:
                queues[k] -= 1
                action(k)
        elif kinds[k] == "test":
            while queues[k]:
                queues[k] -= 1
                action(k)

    for m, (op, (res, obs)) in enumerate(zip(case["threads"][0], out)):
        if op[0] == "dispose":
            dispose(op[1])
        else:
            run(op[1])
        for on in obs["released_on"]:
            if on != 0:
                where = "inline on the caller" if on is None else f"inside an action of scheduler {on}"
                return f"after call {m} {op}: the resource was released {where}, not on scheduler 0 (the scheduler of the layer that wraps it)"
        if obs["cnt"][0] != released:
            return f"after call {m} {op}: resource released {obs['cnt'][0]}x, expected {released}"
        if obs["is_disposed"] != fired:
            return f"after call {m} {op}: is_disposed per layer {obs['is_disposed']}, expected {fired} (a layer is disposed once one of its own actions ran)"
    return None


def c25_threads(case, trace, final):
    cls = case["cls"]
    nthreads = len(case["threads"])
    acts = 0
    disp = 0
    sched_seen = 0
    calls = sum(len(t) for t in case["threads"]) + len(case.get("setup", []))
    for g, (tid, ev) in enumerate(trace):
        if ev[0] == "A":
            acts += 1
            if acts > 1:
                return f"event {g}: thread {tid} runs the action a second time"
        if ev[0] == "S":
            sched_seen += 1
        if ev[0] == "D":
            if cls in ("disposable", "boolean"):
                return f"event {g}: unexpected item disposal"
            disp += 1
            if disp > 1:
                return f"event {g}: thread {tid} disposes the wrapped resource a second time"
            if tid <= nthreads:
                return f"event {g}: the wrapped resource is disposed on client thread {tid}, not on the scheduler"
            if sched_seen == 0:
                return f"event {g}: the wrapped resource is disposed before any dispose() scheduled an action"
        if ev[0] in ("ret", "raise") and cls in ("disposable", "boolean") and len(ev) > 2 and ev[2] is not True:
            return f"event {g}: dispose() of thread {tid} ended but is_disposed is {ev[2]}"
    if cls == "disposable" and calls and final["actions"] != 1:
        return f"at the end the action ran {final['actions']} times"
    if cls == "scheduled":
        ran = sum(1 for tid, ev in trace if tid > nthreads and ev[0] == "ret")
        if ran and final["cnt"][0] != 1:
            return f"{ran} scheduled actions ran but the wrapped resource was disposed {final['cnt'][0]}x"
        if not ran and final["cnt"][0] != 0:
            return "the wrapped resource was disposed although no scheduled action ran"
    return None


# ------------------------------------------------------------------------------------------------ C27
def c27_events(case, events, final):
    """events: [(tid, op, ev)] in global order.  Checks: the underlying resource is disposed at most once, only after the
    primary dispose() was called and every dependent handed out *before the release* was disposed at least once
    (whatever object the implementation handed out for it); exactly once at the end if all of that happened;
    only dependents requested after the release may be inert, and those must be."""
    primary = False
    created = []  # handle -> kind of the object handed out
    required = []  # handle -> requested while the resource was not yet released: must be disposed before the release
    started = set()  # handles whose dispose() has begun
    und = 0
    und_at = None
    for g, (tid, op, ev) in enumerate(events):
        k = ev[0]
        if op[0] == "dispose" and k in ("R", "L"):
            primary = True
        if op[0] == "get" and k == "ret":
            h = ev[1]
            kind = final["deps"][h]
            flag = ev[2] if len(ev) > 2 else None  # is_disposed when the request returned (None: unknown)
            while len(created) <= h:
                created.append(None)
                required.append(False)
            created[h] = kind
            required[h] = (flag is False) or (flag is None and kind == "inner")
            if und_at is not None and kind != "inert":
                return f"event {g}: dependent {h} requested after the resource was released is not inert"
        if k == "begin":
            started.add(ev[1])  # dispose() of dependent ev[1] has been called
        if k == "D":
            und += 1
            if und > 1:
                return f"event {g}: thread {tid} disposes the underlying resource a second time"
            if not primary:
                return f"event {g}: underlying resource disposed although the primary dispose() was never called"
            live = [h for h, rq in enumerate(required) if rq and h not in started]
            if live:
                return f"event {g}: underlying resource disposed while dependents {live} (handed out before the release) were never disposed"
            und_at = g
    alldone = all((not rq) or h in started for h, rq in enumerate(required))
    exp = 1 if (primary and alldone) else 0
    if final["cnt"][0] != exp:
        return f"at the end the underlying resource was disposed {final['cnt'][0]}x, expected {exp} (primary={primary}, all dependents disposed={alldone})"
    if final["is_disposed"] != bool(exp):
        return f"at the end is_disposed={final['is_disposed']}, expected {bool(exp)}"
    return None


def c27_threads(case, trace, final):
    evs = []
    ops = split_ops(case, trace)
    owner = {}
    for tid, lst in ops.items():
        mine = []
        for op, idxs in lst:
            if op[0] == "get":
                for g in idxs:
                    if trace[g][1][0] == "ret":
                        mine.append(trace[g][1][1])
            if op[0] == "relm":
                op = ["rel", mine[op[1]]] if op[1] < len(mine) else ["noop"]
            for n, g in enumerate(idxs):
                owner[g] = (op, n == 0)
    for g, (tid, ev) in enumerate(trace):
        op, first = owner.get(g, (["?"], False))
        if first and op[0] == "rel":
            evs.append((tid, op, ["begin", op[1]]))
        evs.append((tid, op, ev))
    return c27_events(case, evs, final)


def c27_history(case, out):
    """a history has no event trace: rebuild the coarse events from the calls (each call atomic)"""
    if not out:
        return None
    final = out[-1][1]
    evs = []
    mine = []
    prev_cnt = 0
    ndeps = 0
    for op, (res, obs) in zip(case["threads"][0], out):
        if op[0] == "dispose":
            evs.append((1, op, ["L", 0]))
        if op[0] == "get":
            mine.append(res[1])
            ndeps += 1
        if op[0] in ("rel", "relm"):
            h = op[1] if op[0] == "rel" else (mine[op[1]] if op[1] < len(mine) else None)
            if h is not None and h < ndeps:
                evs.append((1, op, ["begin", h]))
        for _ in range(obs["cnt"][0] - prev_cnt):
            evs.append((1, op, ["D", 0]))
        prev_cnt = obs["cnt"][0]
        evs.append((1, op, ["ret", res[1] if res[0] == "ret" else None, obs["is_disposed"]]))
    return c27_events(case, evs, final)

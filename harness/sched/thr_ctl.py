"""Deterministic thread-interleaving controller for the Thr family (C30-C32).

Real Python threads, exactly one running at a time (baton = per-thread semaphore).  A running thread hands the baton
back at every *scheduling point*: a traced line (or opcode) in one of the target source files, and every operation on an
instrumented Lock / RLock / Condition / Event.  Blocking is cooperative: a thread that waits for a lock, a condition or an
event is simply not schedulable.  Time is a controlled clock (integer microseconds): it advances only through
`Ctl.advance` or, when no thread is runnable, to the earliest pending timeout.

A *schedule* is the default non-preemptive policy (keep running the last thread while it is runnable, else the
lowest-numbered runnable thread) plus a dict {choice-point index: thread id} of deviations ("preemptions").  Choice points
are the scheduling points at which at least two threads are runnable.  `explore` enumerates all schedules with at most k
deviations (iterative context bounding); `sample` draws random deviations beyond that.

Nothing in /repo is modified: the code under test gets the instrumented primitives through patched module attributes
(`Ctl.patched`).  This controller is a search/validation tool, never the argument for a claim (DESIGN.md section 3).
"""
from __future__ import annotations

import contextlib
import sys
import threading
from datetime import datetime, timedelta, timezone

EPOCH = datetime(2021, 3, 4, 5, 6, 7, tzinfo=timezone.utc)
HANG_S = 90.0  # a controlled thread waiting this long (real time) for the baton means the harness itself is stuck


class Abort(BaseException):
    """raised inside controlled threads to unwind them when a run is over"""


class Hang(Exception):
    pass


class CT:
    """a controlled thread"""

    def __init__(self, ctl, idx, fn, name):
        self.ctl, self.idx, self.fn, self.name = ctl, idx, fn, name
        self.done = False
        self.started = False
        self.blocked = None  # None | (kind, obj, predicate_still_blocked)
        self.wake_at = None  # controlled-clock time at which a timed wait expires
        self.waitrec = None
        self.exc = None
        self.sem = threading.Semaphore(0)
        self.th = threading.Thread(target=self._main, daemon=True, name=f"ct{idx}-{name}")
        self.th._ct = self
        self.local = {}  # scratch for the test harness (e.g. the item currently being emitted)

    def can_run(self):
        return self.started and not self.done and (self.blocked is None or not self.blocked[2]())

    def _wait_turn(self):
        if not self.sem.acquire(timeout=HANG_S):
            self.ctl.status = self.ctl.status or "hang"
            self.ctl.aborting = True
            self.ctl.main_sem.release()
            raise Abort()
        if self.ctl.aborting:
            raise Abort()

    def _global_trace(self, frame, event, arg):
        if self.ctl._is_target(frame.f_code.co_filename):
            if self.ctl.opcode:
                frame.f_trace_opcodes = True
            return self._local_trace
        return None

    def _local_trace(self, frame, event, arg):
        if event == self.ctl._trace_event:
            self.ctl.sched_point(self)
        return self._local_trace

    def _main(self):
        try:
            self._wait_turn()
            sys.settrace(self._global_trace)
            try:
                self.fn()
            finally:
                sys.settrace(None)
        except Abort:
            pass
        except BaseException as e:  # the thread's own function raised (e.g. an action's exception kills an event loop)
            self.exc = e
            self.ctl.log(self, "thread_exc", type(e).__name__ if not hasattr(e, "name") else e.name)
        finally:
            self.done = True
            self.ctl.log(self, "thread_end")
            if not self.ctl.aborting:
                try:
                    self.ctl._switch(self)
                except Abort:
                    pass


class Ctl:
    def __init__(self, targets=(), preempt=None, max_steps=20000, opcode=False, first=None, default="stay", early=None):
        self.targets = tuple(targets)
        self._tcache = {}
        self.preempt = dict(preempt or {})
        self.max_steps = max_steps
        self.opcode = opcode
        self._trace_event = "opcode" if opcode else "line"
        self.threads: list[CT] = []
        self.events = []  # (thread idx | None, kind, *payload)
        self.choices = []  # (runnable ids, chosen id)
        self.steps = 0
        self.clock = 0
        self.cur = None
        self.last = None
        self.first = first
        self.default = default
        self.aborting = False
        self.status = None
        self.main_sem = threading.Semaphore(0)
        self.used_preempts = 0
        # clock skew between a condition's timeout and the controlled (scheduler) clock: the first `early[0]` timed waits
        # time out `early[1]` us before their deadline on the controlled clock
        self.early = list(early) if early else [0, 0]

    # ------------------------------------------------------------------ bookkeeping
    def _is_target(self, fn):
        r = self._tcache.get(fn)
        if r is None:
            r = any(fn.endswith(t) for t in self.targets)
            self._tcache[fn] = r
        return r

    def me(self):
        return getattr(threading.current_thread(), "_ct", None)

    def log(self, who, kind, *payload):
        if who is None:
            who = self.me()
        self.events.append((who.idx if who is not None else None, kind) + payload)

    def ev(self, kind, *payload):
        self.log(None, kind, *payload)

    # ------------------------------------------------------------------ clock
    def now(self):
        return EPOCH + timedelta(microseconds=self.clock)

    def to_us(self, dt):
        d = dt - EPOCH
        return (d.days * 86400 + d.seconds) * 1000000 + d.microseconds

    def advance(self, us):
        """explicit passage of time (called from a controlled thread or before the run)"""
        self.clock += int(us)
        self.log(None, "clock", self.clock)
        me = self.me()
        if me is not None:
            self.sched_point(me)

    def sleep(self, seconds):
        """replacement for time.sleep in code under test: the calling thread is blocked until the controlled clock reaches
        now+seconds (it advances when nothing else can run)"""
        me = self.me()
        if me is None or self.aborting:
            self.clock += int(round(seconds * 1e6))
            return
        rec = {"notified": False, "timedout": False}
        me.waitrec = rec
        me.wake_at = self.clock + max(0, int(round(seconds * 1e6)))
        me.blocked = ("sleep", None, lambda: not rec["timedout"])
        self._switch(me)
        me.blocked = None
        me.wake_at = None

    # ------------------------------------------------------------------ threads
    def spawn(self, fn, name="t"):
        ct = CT(self, len(self.threads), fn, name)
        self.threads.append(ct)
        return ct

    def thread_factory(self, target):
        """drop-in for reactivex thread factories: returns a Startable whose start() adds a controlled thread"""
        ctl = self

        class Startable:
            def __init__(s):
                s.ct = None

            def start(s):
                s.ct = ctl.spawn(target, "spawned")
                ctl.log(None, "thread_start", s.ct.idx)
                s.ct.started = True
                s.ct.th.start()

            def is_alive(s):
                return s.ct is not None and not s.ct.done

        return Startable()

    # ------------------------------------------------------------------ scheduling
    def sched_point(self, me):
        if self.aborting:
            raise Abort()
        self._switch(me)

    def _expire(self):
        for t in self.threads:
            if not t.done and t.wake_at is not None and t.wake_at <= self.clock and t.waitrec is not None:
                t.waitrec["timedout"] = True

    def _choose(self):
        while True:
            self._expire()
            runnable = [t for t in self.threads if t.can_run()]
            if runnable:
                break
            timed = [t.wake_at for t in self.threads if not t.done and t.started and t.wake_at is not None]
            if not timed:
                return None
            self.clock = max(self.clock, min(timed))
            self.events.append((None, "clock", self.clock))
        self.steps += 1
        if self.steps > self.max_steps:
            self.status = "steplimit"
            return None
        ids = [t.idx for t in runnable]
        if len(ids) == 1:
            pick = ids[0]
        else:
            if self.last is not None and self.last in ids:
                dflt = self.last
            elif self.last is None and self.first in ids:
                dflt = self.first
            elif self.default == "rr" and self.last is not None:
                later = [i for i in ids if i > self.last]
                dflt = later[0] if later else ids[0]
            else:
                dflt = ids[0]
            cp = len(self.choices)
            pick = dflt
            want = self.preempt.get(cp)
            if want is not None and want in ids and want != dflt:
                pick = want
                self.used_preempts += 1
            self.choices.append((tuple(ids), dflt))
        self.last = pick
        return self.threads[pick]

    def _finish(self):
        if self.status is None:
            live = [t for t in self.threads if t.started and not t.done]
            if not live:
                self.status = "ok"
            elif any(t.blocked is not None and t.blocked[0] == "lock" for t in live):
                self.status = "deadlock"
            else:
                self.status = "idle"  # only threads in untimed waits remain (e.g. an event loop waiting for work)
        self.aborting = True
        for t in self.threads:
            if t.started and not t.done:
                t.sem.release()
        self.main_sem.release()

    def _switch(self, me):
        nxt = self._choose()
        if nxt is me:
            return
        if nxt is None:
            self._finish()
            if me is not None and not me.done:
                raise Abort()
            return
        self.cur = nxt
        nxt.sem.release()
        if me is not None and not me.done:
            me._wait_turn()

    def run(self, timeout=120.0):
        for t in self.threads:
            if not t.started:
                t.started = True
                t.th.start()
        self._switch(None)
        if not self.main_sem.acquire(timeout=timeout):
            self.status = "hang"
            self.aborting = True
            for t in self.threads:
                t.sem.release()
        for t in self.threads:
            t.th.join(15.0)
            if t.th.is_alive():
                self.status = "hang"
        return self.status

    # ------------------------------------------------------------------ instrumented primitives
    def Lock(self, name="lock", reentrant=False, quiet=False):
        return ILock(self, name, reentrant, quiet)

    def RLock(self, name="rlock", quiet=False):
        return ILock(self, name, True, quiet)

    def Condition(self, lock=None, name="cond"):
        return ICond(self, lock, name)

    def Event(self, name="event"):
        return IEvent(self, name)

    def threading_shim(self, lock_name="lock", cond_name="cond", quiet=False):
        """object to put in place of a module's `threading` import"""
        ctl = self

        class Shim:
            @staticmethod
            def Lock():
                return ctl.Lock(lock_name, quiet=quiet)

            @staticmethod
            def RLock():
                return ctl.RLock(lock_name, quiet=quiet)

            @staticmethod
            def Condition(lock=None):
                return ctl.Condition(lock, cond_name)

            @staticmethod
            def Event():
                return ctl.Event()

            current_thread = staticmethod(threading.current_thread)
            Thread = threading.Thread
            local = threading.local

        return Shim

    @contextlib.contextmanager
    def patched(self, attrs):
        """attrs: list of (module_name, attribute, value); restores afterwards"""
        import importlib

        saved = []
        try:
            for modname, attr, val in attrs:
                m = importlib.import_module(modname)
                saved.append((m, attr, getattr(m, attr)))
                setattr(m, attr, val)
            yield self
        finally:
            for m, attr, old in reversed(saved):
                setattr(m, attr, old)

    def disposable_patches(self):
        """cooperative (unlogged) RLocks for every reactivex disposable class, so that a thread descheduled while holding
        one can never block the thread that holds the baton"""
        mods = ["booleandisposable", "compositedisposable", "disposable", "multipleassignmentdisposable", "refcountdisposable",
                "scheduleddisposable", "serialdisposable", "singleassignmentdisposable"]
        mk = lambda: self.RLock("disp", quiet=True)  # noqa
        return [(f"reactivex.disposable.{m}", "RLock", mk) for m in mods]

    def clock_patches(self):
        return [("reactivex.scheduler.scheduler", "default_now", self.now)]


class ILock:
    def __init__(self, ctl, name, reentrant, quiet):
        self.ctl, self.name, self.reentrant, self.quiet = ctl, name, reentrant, quiet
        self.owner = None
        self.count = 0

    def _free_for(self, me):
        return self.owner is None or (self.reentrant and self.owner is me)

    def acquire(self, blocking=True, timeout=-1):
        ctl = self.ctl
        me = ctl.me()
        if me is None or ctl.aborting:
            self.owner = me or "ext"
            self.count += 1
            return True
        if not self.quiet:
            ctl.sched_point(me)
        while not self._free_for(me):
            if not blocking:
                return False
            me.blocked = ("lock", self, lambda: not self._free_for(me))
            try:
                ctl._switch(me)
            finally:
                me.blocked = None
        self.owner = me
        self.count += 1
        if not self.quiet:
            ctl.log(me, "acq", self.name)
        return True

    def release(self):
        ctl = self.ctl
        me = ctl.me()
        self.count -= 1
        if self.count <= 0:
            self.count = 0
            self.owner = None
        if not self.quiet and me is not None and not ctl.aborting:
            ctl.log(me, "rel", self.name)

    def locked(self):
        return self.owner is not None

    def __enter__(self):
        self.acquire()
        return self

    def __exit__(self, *a):
        self.release()


class ICond:
    def __init__(self, ctl, lock, name):
        self.ctl, self.name = ctl, name
        self.lock = lock if lock is not None else ctl.RLock(name + ".lock")
        self.waiters = []

    def acquire(self, *a, **k):
        return self.lock.acquire(*a, **k)

    def release(self):
        self.lock.release()

    def __enter__(self):
        self.lock.acquire()
        return self

    def __exit__(self, *a):
        self.lock.release()

    def wait(self, timeout=None):
        ctl = self.ctl
        me = ctl.me()
        if me is None or ctl.aborting:
            if ctl.aborting:
                raise Abort()
            return False
        lk = self.lock
        saved = lk.count
        lk.count, lk.owner = 0, None
        rec = {"notified": False, "timedout": False}
        self.waiters.append((me, rec))
        ctl.log(me, "wait", self.name, None if timeout is None else int(round(timeout * 1e6)))
        me.waitrec = rec
        me.wake_at = None if timeout is None else ctl.clock + max(0, int(round(timeout * 1e6)))
        if timeout is not None and ctl.early[0] > 0:
            ctl.early[0] -= 1
            me.wake_at = max(ctl.clock, me.wake_at - ctl.early[1])
        me.blocked = ("cond", self, lambda: not rec["notified"] and not rec["timedout"])
        try:
            ctl._switch(me)
        finally:
            me.blocked = None
            me.wake_at = None
            self.waiters = [(t, r) for (t, r) in self.waiters if r is not rec]
        while not lk._free_for(me):
            me.blocked = ("lock", lk, lambda: not lk._free_for(me))
            try:
                ctl._switch(me)
            finally:
                me.blocked = None
        lk.owner, lk.count = me, saved
        ctl.log(me, "woke", self.name, rec["notified"])
        return rec["notified"]

    def notify(self, n=1):
        ws, self.waiters = self.waiters[:n], self.waiters[n:]
        for _, rec in ws:
            rec["notified"] = True
        self.ctl.log(None, "notify", self.name, len(ws))

    def notify_all(self):
        self.notify(len(self.waiters))

    notifyAll = notify_all


class IEvent:
    def __init__(self, ctl, name):
        self.ctl, self.name = ctl, name
        self.flag = False

    def is_set(self):
        self.ctl.log(None, "ev_is_set", self.name, self.flag)
        return self.flag

    def set(self):
        self.flag = True
        self.ctl.log(None, "evset", self.name)

    def clear(self):
        self.flag = False

    def wait(self, timeout=None):
        ctl = self.ctl
        me = ctl.me()
        if me is None or ctl.aborting:
            return self.flag
        ctl.sched_point(me)
        if self.flag:
            ctl.log(me, "ev_wait_ret", self.name, True)
            return True
        rec = {"notified": False, "timedout": False}
        me.waitrec = rec
        me.wake_at = None if timeout is None else ctl.clock + max(0, int(round(timeout * 1e6)))
        me.blocked = ("event", self, lambda: not self.flag and not rec["timedout"])
        try:
            ctl._switch(me)
        finally:
            me.blocked = None
            me.wake_at = None
        ctl.log(me, "ev_wait_ret", self.name, self.flag)
        return self.flag


# ---------------------------------------------------------------------- exploration
def explore(run_one, k, budget=None):
    """Enumerate schedules with at most k deviations from the default policy.
    run_one(preempt: dict) -> (choices, result).  Yields (preempt, result).  `budget` caps the number of runs."""
    n = [0]

    def rec(pre, start, depth):
        if budget is not None and n[0] >= budget:
            return
        n[0] += 1
        choices, result = run_one(pre)
        yield pre, result
        if depth >= k:
            return
        for i in range(start, len(choices)):
            ids, dflt = choices[i]
            for t in ids:
                if t != dflt:
                    p2 = dict(pre)
                    p2[i] = t
                    yield from rec(p2, i + 1, depth + 1)

    yield from rec({}, 0, 0)


def first_level(choices, start=0):
    """all one-deviation extensions of a run whose choice record is `choices`"""
    out = []
    for i in range(start, len(choices)):
        ids, dflt = choices[i]
        for t in ids:
            if t != dflt:
                out.append((i, t))
    return out


def sample_preempts(rng, choices, n):
    """n random deviations over the choice points of a recorded run"""
    pre = {}
    if not choices:
        return pre
    for _ in range(n):
        i = rng.randrange(len(choices))
        ids, dflt = choices[i]
        alt = [t for t in ids if t != dflt]
        if alt:
            pre[i] = rng.choice(alt)
    return pre

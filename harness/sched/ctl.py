"""Prototype: deterministic interleaving controller for real Python threads.
Threads run one at a time; at each traced line in target files the running thread yields to the controller,
which picks the next thread from a schedule (list of thread indices) or a PRNG. Locks are instrumented so a thread
blocked on a lock is not schedulable."""
import sys, threading, random, os

class Controller:
    def __init__(self, target_substr, schedule=None, seed=0, pre=None, first=0):
        self.target = target_substr
        self.rng = random.Random(seed)
        self.schedule = list(schedule) if schedule else None
        self.threads = []      # list of CT
        self.cv = threading.Condition()
        self.current = None
        self.trace = []        # (tid, event)
        self.steps = 0
        self.pre = set(pre) if pre is not None else set(self.rng.sample(range(1,400), 3)); self.first=first
        self.last = None
    # --- instrumented lock
    def make_rlock(self):
        ctl = self
        class ILock:
            def __init__(s): s.owner=None; s.count=0
            def acquire(s, blocking=True, timeout=-1):
                me = ctl._me()
                if me is None:   # untracked thread
                    raise RuntimeError('untracked')
                while s.owner is not None and s.owner is not me:
                    me.blocked_on = s
                    ctl._yield(me)
                me.blocked_on = None
                s.owner = me; s.count += 1
                ctl.trace.append((me.idx,'acq',id(s)%1000))
                return True
            def release(s):
                me = ctl._me()
                s.count -= 1
                if s.count == 0: s.owner=None
                ctl.trace.append((me.idx,'rel',id(s)%1000))
            __enter__ = lambda s: s.acquire()
            def __exit__(s,*a): s.release()
        return ILock
    def _me(self):
        return getattr(threading.current_thread(), '_ct', None)
    def spawn(self, fn):
        ct = CT(self, len(self.threads), fn); self.threads.append(ct); return ct
    def _runnable(self):
        return [t for t in self.threads if not t.done and (t.blocked_on is None or t.blocked_on.owner is None or t.blocked_on.owner is t)]
    def _pick(self):
        r = self._runnable()
        if not r: return None
        if self.schedule:
            while self.schedule:
                i = self.schedule.pop(0)
                c = [t for t in r if t.idx == i]
                if c: return c[0]
        # preemption-bounded: keep running the last thread unless blocked/done or at a preemption point
        if self.last in r and self.steps not in self.pre:
            return self.last
        others = [t for t in r if t is not self.last] or r
        if self.last is None:
            others = [t for t in r if t.idx == self.first] or r
        self.last = others[0]
        return self.last
    def _yield(self, me):
        # hand control to controller choice
        with self.cv:
            nxt = self._pick()
            self.steps += 1
            if nxt is None:
                raise RuntimeError('deadlock')
            self.current = nxt
            self.cv.notify_all()
            while self.current is not me:
                self.cv.wait()
    def run(self):
        for t in self.threads: t.start()
        with self.cv:
            self.current = self._pick(); self.cv.notify_all()
        for t in self.threads: t.join(10)
        return all(not t.th.is_alive() for t in self.threads)

class CT:
    def __init__(self, ctl, idx, fn):
        self.ctl=ctl; self.idx=idx; self.fn=fn; self.done=False; self.blocked_on=None
        self.th=threading.Thread(target=self._main, daemon=True); self.th._ct=self
    def start(self): self.th.start()
    def join(self, t): self.th.join(t)
    def _tracer(self, frame, event, arg):
        if self.ctl.target in frame.f_code.co_filename:
            if event == 'line':
                self.ctl._yield(self)
            return self._tracer
        return None
    def _main(self):
        with self.ctl.cv:
            while self.ctl.current is not self: self.ctl.cv.wait()
        sys.settrace(self._tracer)
        try: self.fn()
        finally:
            sys.settrace(None)
            self.done=True
            with self.ctl.cv:
                self.ctl.current = self.ctl._pick(); self.ctl.cv.notify_all()

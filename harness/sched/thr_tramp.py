"""C30 harness pieces: the real Trampoline / TrampolineScheduler / CurrentThreadScheduler, single-threaded with a patched
clock (`run_single`) and with real threads under the interleaving controller (`run_threads`).

Programs are trees of ops (the same JSON the Lean driver reads):
  ["sched", lbl, body] | ["rel", lbl, d_us, body] | ["abs", lbl, t_us, body] | ["cancel", lbl] | ["tick", d_us]
Times are integer microseconds relative to `thr_ctl.EPOCH`.
Nothing in /repo is modified: clock, Lock/Condition, ScheduledItem, PriorityQueue and Trampoline are replaced through
module attributes by logging subclasses.
"""
from __future__ import annotations

import contextlib
from datetime import timedelta

from sched.thr_ctl import EPOCH, Ctl

TR_FILES = ("reactivex/scheduler/trampoline.py", "reactivex/scheduler/trampolinescheduler.py",
            "reactivex/scheduler/currentthreadscheduler.py", "reactivex/scheduler/scheduleditem.py")


def us_of(dt):
    d = dt - EPOCH
    return (d.days * 86400 + d.seconds) * 1000000 + d.microseconds


def make_classes(log, now_us, tid):
    """logging subclasses of ScheduledItem / PriorityQueue / Trampoline"""
    from reactivex.internal.priorityqueue import PriorityQueue
    from reactivex.scheduler.scheduleditem import ScheduledItem
    from reactivex.scheduler.trampoline import Trampoline

    class LItem(ScheduledItem):
        def __init__(self, scheduler, state, action, duetime):
            super().__init__(scheduler, state, action, duetime)
            self.lbl = getattr(action, "lbl", None)
            log(("sched", self.lbl, us_of(duetime), now_us()))

        def invoke(self):
            log(("start", self.lbl, now_us()))
            try:
                super().invoke()
            except BaseException:
                log(("raised", self.lbl))
                raise
            log(("fin", self.lbl))

        def is_cancelled(self):
            r = super().is_cancelled()
            if r:
                log(("skip", self.lbl))
            return r

    class LPQ(PriorityQueue):
        def enqueue(self, item):
            log(("pq_enq", getattr(item, "lbl", None)))
            super().enqueue(item)

        def dequeue(self):
            item = super().dequeue()
            log(("pq_deq", getattr(item, "lbl", None)))
            return item

        def clear(self):
            log(("pq_clear", [getattr(x[0], "lbl", None) for x in sorted(self.items, key=lambda p: (p[0].duetime, p[1]))]))
            super().clear()

        def __len__(self):
            n = super().__len__()
            log(("pq_len", n))
            return n

        def peek(self):
            log(("pq_peek",))
            return super().peek()

    class LTramp(Trampoline):
        def __init__(self):
            self.__dict__["constructing"] = True
            super().__init__()
            self.__dict__["constructing"] = False

        @property
        def _idle(self):
            log(("get_idle", self.__dict__["idle_"]))
            return self.__dict__["idle_"]

        @_idle.setter
        def _idle(self, v):
            self.__dict__["idle_"] = v
            if not self.__dict__.get("constructing"):
                log(("set_idle", v))

    return LItem, LPQ, LTramp


def tramp_patches(LItem, LPQ, LTramp, Lock, Condition, now):
    return [
        ("reactivex.scheduler.scheduler", "default_now", now),
        ("reactivex.scheduler.trampolinescheduler", "ScheduledItem", LItem),
        ("reactivex.scheduler.trampoline", "PriorityQueue", LPQ),
        ("reactivex.scheduler.trampolinescheduler", "Trampoline", LTramp),
        ("reactivex.scheduler.currentthreadscheduler", "Trampoline", LTramp),
        ("reactivex.scheduler.trampoline", "Lock", Lock),
        ("reactivex.scheduler.trampoline", "Condition", Condition),
    ]


@contextlib.contextmanager
def fresh_singleton_local():
    """CurrentThreadScheduler.singleton() keeps its trampolines in a class-level `_Local()` object created at import time (with
    the unpatched Lock/Condition/PriorityQueue).  Re-create that state from the module's OWN definitions under the patches, so
    that the code under test decides how trampolines are allotted to threads: a fresh `_Local()` instance, and — should `_Local`
    carry a class-level trampoline — that class attribute re-evaluated with the instrumented Trampoline."""
    from weakref import WeakKeyDictionary

    from reactivex.scheduler import currentthreadscheduler as m

    saved_local = m.CurrentThreadSchedulerSingleton._local
    saved_global = m.CurrentThreadScheduler._global
    # every Trampoline the module built at import time and that `_Local` can hand out — class attributes, default argument
    # values of its methods — is replaced for the run by one built from the instrumented classes (same sharing structure)
    from reactivex.scheduler.trampoline import Trampoline as RealTrampoline

    undo = []
    for name, val in list(vars(m._Local).items()):
        if isinstance(val, RealTrampoline):
            undo.append(("attr", name, val))
            setattr(m._Local, name, m.Trampoline())
        fn = getattr(val, "__func__", val)
        if callable(fn) and hasattr(fn, "__defaults__"):
            if fn.__defaults__ and any(isinstance(d, RealTrampoline) for d in fn.__defaults__):
                undo.append(("defaults", fn, fn.__defaults__))
                fn.__defaults__ = tuple(m.Trampoline() if isinstance(d, RealTrampoline) else d for d in fn.__defaults__)
            if fn.__kwdefaults__ and any(isinstance(d, RealTrampoline) for d in fn.__kwdefaults__.values()):
                undo.append(("kwdefaults", fn, dict(fn.__kwdefaults__)))
                fn.__kwdefaults__ = {k: (m.Trampoline() if isinstance(d, RealTrampoline) else d) for k, d in fn.__kwdefaults__.items()}
    m.CurrentThreadSchedulerSingleton._local = m._Local()
    m.CurrentThreadScheduler._global = WeakKeyDictionary()
    try:
        yield
    finally:
        m.CurrentThreadSchedulerSingleton._local = saved_local
        m.CurrentThreadScheduler._global = saved_global
        for kind, a, b in reversed(undo):
            if kind == "attr":
                setattr(m._Local, a, b)
            elif kind == "defaults":
                a.__defaults__ = b
            else:
                a.__kwdefaults__ = b


def make_scheduler(kind):
    from reactivex.scheduler import CurrentThreadScheduler, TrampolineScheduler

    if kind == "tramp":
        return TrampolineScheduler()
    if kind == "ct":
        return CurrentThreadScheduler()
    if kind == "cts":
        return CurrentThreadScheduler.singleton()
    raise ValueError(kind)


class Interp:
    """executes a program tree against a real scheduler"""

    def __init__(self, get_sched, log, tick, tz=None):
        self.get_sched, self.log, self.tick = get_sched, log, tick
        self.handles = {}
        self.tz = tz or {}  # label -> UTC offset (hours) in which that absolute due time is WRITTEN (same instant)

    def abs_time(self, lbl, t_us):
        from datetime import timezone

        dt = EPOCH + timedelta(microseconds=t_us)
        off = self.tz.get(str(lbl))
        return dt if off is None else dt.astimezone(timezone(timedelta(hours=off)))

    def action(self, lbl, body):
        def act(scheduler, state):
            self.run(body)

        act.lbl = lbl
        return act

    def run(self, ops, top=False):
        from fw import InjectedError

        for op in ops:
            s = self.get_sched()
            k = op[0]
            if k in ("sched", "rel", "abs"):
                try:
                    if k == "sched":
                        self.handles[op[1]] = s.schedule(self.action(op[1], op[2]))
                    elif k == "rel":
                        self.handles[op[1]] = s.schedule_relative(timedelta(microseconds=op[2]), self.action(op[1], op[3]))
                    else:
                        self.handles[op[1]] = s.schedule_absolute(self.abs_time(op[1], op[2]), self.action(op[1], op[3]))
                except InjectedError:
                    # an action raised: the exception leaves Trampoline.run and reaches the schedule* call that started the drain
                    # loop; only the top-level program catches it (inside an action it keeps propagating)
                    if not top:
                        raise
            elif k == "raise":
                if not top:
                    raise InjectedError("boom")
            elif k == "cancel":
                self.log(("cancel", op[1]))
                h = self.handles.get(op[1])
                if h is not None:
                    h.dispose()
            elif k == "tick":
                self.tick(op[1])
            else:
                raise ValueError(op)


# ---------------------------------------------------------------------- single thread, patched clock
def run_single(case):
    """case: {"prog": [...], "sched": "tramp"|"ct"|"cts", "clock": 0}.  Returns the observable events."""
    import threading

    clock = [int(case.get("clock", 0))]

    class Budgeted(list):
        def append(self, x):
            if len(self) > 100000:
                raise TimeoutError("event budget exhausted: the drain loop is spinning")
            list.append(self, x)

    events = Budgeted()

    def now():
        return EPOCH + timedelta(microseconds=clock[0])

    class FakeCond:
        def __init__(self, lock=None):
            self.lock = lock

        def wait(self, timeout=None):
            if timeout is None:
                raise RuntimeError("untimed wait in a single-threaded run would block forever")
            clock[0] += int(round(timeout * 1e6))
            events.append(("wait", clock[0]))
            return False

        def notify(self, n=1):
            pass

        notify_all = notify

    LItem, LPQ, LTramp = make_classes(events.append, lambda: clock[0], lambda: 0)
    ctl = Ctl()  # only used for its `patched` helper
    patches = tramp_patches(LItem, LPQ, LTramp, threading.Lock, FakeCond, now)
    with ctl.patched(patches), fresh_singleton_local():
        sched = make_scheduler(case["sched"])

        def tick(d):
            clock[0] += d

        it = Interp(lambda: sched, events.append, tick, case.get("tz"))
        it.run(case["prog"], top=True)
        tramp = sched.get_trampoline()
        idle = tramp.__dict__.get("idle_")
        qlen = len(tramp._queue.items)
    out = []
    for e in events:
        if e[0] == "sched":
            out.append(["sched", e[1], e[2], e[3]])
        elif e[0] == "start":
            out.append(["start", e[1], e[2]])
        elif e[0] in ("fin", "skip", "cancel", "raised"):
            out.append([e[0], e[1]])
        elif e[0] == "wait":
            out.append(["wait", e[1]])
    return {"events": out, "done": True, "idle": idle, "queue": qlen, "clock": clock[0]}


def _rel_delays(prog, out=None):
    """label -> ("rel", d) | ("abs", t): the due time the CALLER asked for"""
    out = {} if out is None else out
    for o in prog or []:
        if o[0] in ("rel", "abs"):
            out[o[1]] = (o[0], o[2])
        if o[0] in ("sched", "rel", "abs"):
            _rel_delays(o[-1], out)
    return out


def oracle_events(events, prog=None):
    """the property's own oracle on one thread's observable events.  `prog` (the program that was run) tells which actions were
    scheduled with schedule_relative(d): their due time is by definition  now + max(d, 0)  (a negative delay means "now"),
    whatever due time the implementation computed."""
    rel = _rel_delays(prog)
    open_ = None
    cancelled = set()
    discarded = set()
    sched = {}
    order = []
    started = []
    for e in events:
        k = e[0]
        if k == "sched":
            # the due time the caller asked for: now + max(d, 0) for schedule_relative(d); the given INSTANT for
            # schedule_absolute (in whatever time zone it was written); otherwise what the implementation computed (= now)
            if e[1] in rel:
                due = e[3] + max(rel[e[1]][1], 0) if rel[e[1]][0] == "rel" else rel[e[1]][1]
            else:
                due = e[2]
            sched[e[1]] = (due, e[3], len(order))
            order.append(e[1])
        elif k == "cancel":
            cancelled.add(e[1])
        elif k == "start":
            if open_ is not None:
                return f"action {e[1]} started while action {open_} is running (nested)"
            if e[1] in discarded:
                return f"action {e[1]} was pending when an action raised (the trampoline is reset: queue cleared) but ran afterwards"
            if e[1] in cancelled:
                return f"action {e[1]} started after it was cancelled"
            if e[1] not in sched:
                return f"action {e[1]} started but never scheduled"
            due = sched[e[1]][0]
            if e[2] < due:
                return f"action {e[1]} started at {e[2]} before its due time {due}"
            if e[1] in [s[0] for s in started]:
                return f"action {e[1]} started twice"
            open_ = e[1]
            started.append((e[1], due, sched[e[1]][2]))
        elif k in ("fin", "raised"):
            if open_ != e[1]:
                return f"{k} {e[1]} while {open_} is open"
            open_ = None
            if k == "raised":
                # the exception resets the trampoline: everything that was pending is discarded and must never run later
                started_ids = {s[0] for s in started}
                for lbl in list(sched):
                    if lbl not in started_ids:
                        cancelled.add(lbl)
                        discarded.add(lbl)
    if open_ is not None:
        return f"action {open_} never returned"
    for a in range(len(started)):
        for b in range(a + 1, len(started)):
            if started[a][1] == started[b][1] and started[a][2] > started[b][2]:
                return f"equal due times but {started[a][0]} (scheduled later) ran before {started[b][0]}"
    no_past = all(due >= clk for (due, clk, _) in sched.values())  # (asked-for due times)
    if no_past:
        dues = [s[1] for s in started]
        if dues != sorted(dues):
            return f"actions did not start in due-time order: {started}"
    return None


def all_run(events):
    """liveness at the end of a run: every scheduled action either started or was cancelled before it could start"""
    cancelled = {e[1] for e in events if e[0] == "cancel"}
    started = {e[1] for e in events if e[0] == "start"}
    skipped = {e[1] for e in events if e[0] == "skip"}
    # what is pending when an action raises is discarded by design
    seen = []
    for e in events:
        if e[0] == "sched":
            seen.append(e[1])
        elif e[0] == "raised":
            skipped |= {x for x in seen if x not in started}
    for e in events:
        if e[0] == "sched" and e[1] not in started and e[1] not in skipped:
            return f"action {e[1]} was scheduled, never cancelled-and-skipped, and never ran" if e[1] not in cancelled else f"action {e[1]} (cancelled) was never taken out of the queue"
    return None


# ---------------------------------------------------------------------- threads under the controller
def run_threads(cfg, preempt=None, opcode=False):
    """cfg: {"kind": "shared"|"ct"|"cts", "progs": [prog, prog, ...]} — thread i runs progs[i]; "shared" = one TrampolineScheduler
    for all threads (one trampoline), "ct"/"cts" = one CurrentThreadScheduler object / the singleton (a trampoline per thread)"""
    ctl = Ctl(targets=TR_FILES, preempt=preempt, opcode=opcode, max_steps=cfg.get("max_steps", 4000))
    LItem, LPQ, LTramp = make_classes(lambda e: ctl.ev(*e), lambda: ctl.clock, lambda: ctl.me().idx)
    def logged_now():
        ctl.ev("now_read", ctl.clock)
        return ctl.now()

    patches = ctl.disposable_patches() + tramp_patches(LItem, LPQ, LTramp, lambda: ctl.Lock("tr"), lambda l=None: ctl.Condition(l, "trc"), logged_now)
    with ctl.patched(patches), fresh_singleton_local():
        kind = cfg["kind"]
        shared = make_scheduler("tramp") if kind == "shared" else (make_scheduler("ct") if kind == "ct" else None)

        def thread(prog):
            def f():
                def get():
                    return shared if shared is not None else make_scheduler("cts")

                def tick(d):
                    ctl.ev("tick", d)
                    ctl.advance(d)

                Interp(get, lambda e: ctl.ev(*e), tick, cfg.get("tz")).run(prog, top=True)
            return f

        for p in cfg["progs"]:
            ctl.spawn(thread(p), "t")
        status = ctl.run(timeout=cfg.get("timeout", 120.0))
    return {"status": status, "events": ctl.events, "choices": ctl.choices, "steps": ctl.steps, "n": len(cfg["progs"]),
            "thread_exc": [[t.idx, type(t.exc).__name__] for t in ctl.threads if t.exc is not None]}


GUARDED = {"pq_enq", "pq_deq", "pq_clear", "set_idle", "get_idle", "pq_len", "pq_peek"}


def labels_of(res):
    """observed events -> [[thread, label]] in the vocabulary of the Lean driver's `stepLabel`, + structural problems"""
    out, problems = [], []
    open_sec = {}
    first_read = {}  # thread -> (position, clock) of its first unlocked clock read since its last label
    for pos, e in enumerate(res["events"]):
        t, k = e[0], e[1]
        if t is None:
            continue
        if k == "now_read":
            if t in open_sec:
                open_sec[t].setdefault("now", (pos, e[2]))
            elif t not in first_read:
                first_read[t] = (pos, e[2])
            continue
        if k == "acq" and e[2] == "tr":
            if t in open_sec:
                problems.append(f"nested acquire of the trampoline lock by thread {t}")
            open_sec[t] = {"start": pos, "evs": []}
            continue
        if k in ("rel", "wait") and e[2] in ("tr", "trc") and t in open_sec:
            s = open_sec.pop(t)
            evs = s["evs"]
            enq = [x[2] for x in evs if x[1] == "pq_enq"]
            deq = [x[2] for x in evs if x[1] == "pq_deq"]
            sets = [x[2] for x in evs if x[1] == "set_idle"]
            clr = [x[2] for x in evs if x[1] == "pq_clear"]
            wait = None
            if k == "wait":
                wait = res["events"][pos][3]  # timeout in us
                wait = None if wait is None else ("rel", wait)
            first_read.pop(t, None)
            if wait is not None and "now" in s:
                wait = ("abs", s["now"][1] + wait[1])  # `seconds` was computed from this clock read
            # a locked section is linearised at its (first) clock read, the one access a tick of another thread can race with
            at = s["now"][0] if "now" in s and not s.get("after_wait") else s["start"]
            out.append((at, t, ["sec", enq[0] if enq else None, deq, sets[-1] if sets else None, clr[0] if clr else None, wait, pos]))
            if k == "wait":
                open_sec[t] = {"start": pos, "evs": [], "after_wait": True}
            continue
        if k == "woke" and t in open_sec:
            out.append((pos, t, ["woke"]))
            continue
        s = open_sec.get(t)
        if s is not None:
            if k in GUARDED:
                s["evs"].append(e)
            elif k in ("sched", "start", "fin", "skip", "cancel", "tick", "raised"):
                problems.append(f"{k} inside the trampoline lock")
            continue
        if k in GUARDED and not (k == "pq_len" and False):
            problems.append(f"{k} outside the trampoline lock by thread {t}")
        elif k == "sched":
            # the model's `sched` step is the moment `schedule*` reads the clock to compute dt, not the item's construction
            rp, rc = first_read.pop(t, (pos, e[4]))
            out.append((rp, t, ["sched", e[2], e[3], rc]))
        elif k in ("start", "fin", "skip", "cancel", "tick", "raised"):
            first_read.pop(t, None)
            out.append((pos, t, [k, e[2]]))
    for t in open_sec:
        problems.append(f"section left open by thread {t}")
    out.sort(key=lambda x: x[0])
    # sections that end in a wait and the re-acquired remainder after the wait form ONE model step ("check … wait"); the
    # remainder (nothing but the release) is dropped; waits carry the absolute wake-up time = clock at wait + timeout
    trace = []
    clock_at = {}
    clk = 0
    for pos, e in enumerate(res["events"]):
        if e[1] == "clock":
            clk = e[2]
        clock_at[pos] = clk
    skip_next_empty = set()
    for pos, t, l in out:
        if l[0] == "sec":
            wait = l[5]
            endpos = l[6]
            if t in skip_next_empty:
                skip_next_empty.discard(t)
                if l[1] is None and not l[2] and l[3] is None and l[4] is None and wait is None:
                    continue
                problems.append("activity after a condition wait inside the same locked block")
            if wait is not None:
                wait = wait[1] if wait[0] == "abs" else clock_at[endpos] + wait[1]
                skip_next_empty.add(t)
            trace.append([t, ["sec", l[1], l[2], l[3], l[4], wait], clock_at[pos]])
        else:
            trace.append([t, l, clock_at[pos]])
    return trace, problems


def per_thread_events(res):
    """observable events of each thread (sched/start/fin/skip/cancel), plus who ran what"""
    per = {i: [] for i in range(res["n"])}
    ran_on = {}
    sched_on = {}
    first_read = {}  # thread -> clock of its first unlocked clock read since its last step (= the read schedule* computes dt from)
    locked = set()
    for e in res["events"]:
        t, k = e[0], e[1]
        if t is None:
            continue
        if k == "acq" and e[2] == "tr":
            locked.add(t)
        elif k == "rel" and e[2] == "tr":
            locked.discard(t)
            first_read.pop(t, None)
        elif k == "now_read":
            if t not in locked:
                first_read.setdefault(t, e[2])
        elif k == "sched":
            per[t].append(["sched", e[2], e[3], first_read.pop(t, e[4])])
            sched_on[e[2]] = t
        elif k == "start":
            first_read.pop(t, None)
            per[t].append(["start", e[2], e[3]])
            ran_on[e[2]] = t
        elif k in ("fin", "skip", "cancel", "raised", "tick"):
            first_read.pop(t, None)
            if k != "tick":
                per[t].append([k, e[2]])
    return per, sched_on, ran_on


def oracle_threads(cfg, res):
    if res["status"] != "ok":
        return f"run ended with status {res['status']} (threads did not all return)"
    if res["thread_exc"]:
        return f"a thread raised: {res['thread_exc']}"
    per, sched_on, ran_on = per_thread_events(res)
    if cfg["kind"] in ("ct", "cts"):
        # each thread's trampoline is independent: every thread, on its own, satisfies the single-thread property and runs all
        # and only its own actions on itself
        for lbl, t in ran_on.items():
            if sched_on.get(lbl) != t:
                return f"action {lbl} scheduled on thread {sched_on.get(lbl)} ran on thread {t} (not on the scheduling thread: the threads' trampolines are not independent)"
        for t, evs in per.items():
            v = oracle_events(evs, cfg["progs"][t] if t < len(cfg["progs"]) else None) or all_run(evs)
            if v:
                return f"thread {t}: {v}"
        return None
    # shared TrampolineScheduler: one drain loop at a time over all threads; no action lost; cancelled never run; never nested
    open_ = None
    cancelled, started, skipped, scheduled = set(), [], set(), []
    due_of = {}
    for e in res["events"]:
        t, k = e[0], e[1]
        if t is None:
            continue
        if k == "sched":
            scheduled.append(e[2])
            due_of[e[2]] = e[3]
        elif k == "cancel":
            cancelled.add(e[2])
        elif k == "skip":
            skipped.add(e[2])
        elif k == "start":
            if open_ is not None:
                return f"action {e[2]} started (thread {t}) while action {open_[0]} is running on thread {open_[1]}"
            if e[2] in cancelled:
                return f"action {e[2]} started after it was cancelled"
            if e[2] in started:
                return f"action {e[2]} started twice"
            if e[2] in due_of and e[3] < due_of[e[2]]:
                return f"action {e[2]} started at {e[3]} before its due time {due_of[e[2]]} (on the shared trampoline, thread {t})"
            open_ = (e[2], t)
            started.append(e[2])
        elif k == "fin":
            open_ = None
    for lbl in scheduled:
        if lbl not in started and lbl not in skipped:
            return f"action {lbl} was scheduled on the shared trampoline, not cancelled, and never ran (lost)"
    return None

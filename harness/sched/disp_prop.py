"""Shared machinery of the C25/C26/C27 property modules: history cases through the real classes and the Lean driver,
and the thread exploration (`extra`): enumerate schedules of real threads, evaluate the property oracle on every
explored schedule, and replay every observed event sequence in the atomic-step Lean model."""
import json
import time

import fw
from sched import disp_ctl as dc
from sched import disp_real as dr

DRIVER = "drv_disp"


def model_cls(cls):
    return cls  # "sad" is modelled by the FIXED SingleAssignmentDisposable (Disp.sadStep)


# ---------------------------------------------------------------------------------------------- histories
def history_request(case):
    if case.get("op") != "history":
        return None
    if case["cls"] == "schedstack":
        return None  # stacked ScheduledDisposable layers: oracle only
    c = dict(case)
    c["cls"] = model_cls(case["cls"])
    if case["cls"] == "disposable":
        n, k = len(case["threads"][0]), case.get("reenter", 0)
        if n and k:
            # a re-entrant dispose() from inside the action = calls of a second thread interleaved after the lock block
            return {"op": "run", "cls": "disposable", "threads": [n, k], "sched": [0] + [1] * k + [0] * n,
                    "raises": case.get("raises", [])}
    if case["cls"] == "scheduled":
        # caller = thread 0; the k-th scheduled action runs on worker thread 1+k
        ops = case["threads"][0]
        kind = case.get("sched_kind", "queue")
        sched, queued, ran = [], 0, 0
        for op in ops:
            if op[0] == "dispose":
                sched.append(0)
                queued += 1
                if kind == "immediate":
                    sched += [queued, queued]
                    ran = queued
            elif op[0] == "run":
                if ran < queued:
                    ran += 1
                    sched += [ran, ran]
            elif op[0] == "runall":
                while ran < queued:
                    ran += 1
                    sched += [ran, ran]
        return {"op": "run", "cls": "scheduled", "threads": [sum(1 for o in ops if o[0] == "dispose")], "workers": queued,
                "sched": sched}
    return dr.model_request(c, None)


def canon_history_model(case, resp):
    if "error" in resp:
        return resp
    cls = case["cls"]
    if cls == "scheduled":
        # per call of the history: observable state after the model steps that belong to it
        out = []
        evs = resp["ev"]
        # state after each *call*: dispose -> its S/ret event (+ immediate run); run/runall -> after the worker steps
        last = {"is_disposed": False, "cnt": [0]}
        pos = 0
        ops = case["threads"][0]
        kind = case.get("sched_kind", "queue")

        def advance(tid):
            nonlocal pos, last
            while pos < len(evs) and evs[pos][0] == tid:
                if evs[pos][2] is not None:
                    last = _strip(evs[pos][2])
                    pos += 1
                    return
                pos += 1

        queued = ran = 0
        for op in ops:
            if op[0] == "dispose":
                advance(0)
                queued += 1
                if kind == "immediate":
                    ran = queued
                    advance(ran)
            elif op[0] == "run":
                if ran < queued:
                    ran += 1
                    advance(ran)
            elif op[0] == "runall":
                while ran < queued:
                    ran += 1
                    advance(ran)
            out.append([["ret", None], dict(last)])
        return out
    return [[ev, _strip(obs)] for tid, ev, obs in resp["ev"] if tid == 0 and ev[0] in ("ret", "raise")]


def _strip(obs):
    o = dict(obs)
    o.pop("queued", None)
    return o


def canon_history_impl(case, out):
    if case.get("op") != "history":
        return out
    return [[res, _strip(obs)] for res, obs in out]


def _thread_child(case, plan, lines):
    with dc.patched_locks():
        r = dr.run_threads(case, plan, lines)
    r["decisions"] = [list(d[:1]) + [list(d[1]), d[2]] for d in r["decisions"]]
    return r


def impl(case):
    if case.get("op") == "history":
        return dr.run_history(case)
    if case.get("op") == "threads":
        st, r = fw.run_with_timeout(_thread_child, (case["scenario"], case["plan"], case.get("lines", False)), 60)
        if st != "ok":
            return {"error": f"{st}: {r}", "trace": [], "final": None}
        return {"trace": r["trace"], "final": r["final"], "error": r["error"]}
    raise ValueError(case.get("op"))


# ---------------------------------------------------------------------------------------------- thread exploration
def _explore_child(scenarios, bound, max_runs, lines, budget_s):
    out = []
    stats = []
    t0 = time.time()
    with dc.patched_locks():
        for si, sc in enumerate(scenarios):
            n = 0
            trunc = 0
            maxpre = 0
            for res in dc.explore(lambda plan: dr.run_threads(sc, plan, lines), bound, max_runs):
                if "truncated" in res:
                    trunc = res["truncated"]
                    break
                n += 1
                maxpre = max(maxpre, res["preemptions"])
                out.append({"si": si, "plan": [d[0] for d in res["decisions"]], "trace": res["trace"], "final": res["final"],
                            "error": res["error"], "pre": res["preemptions"]})
                if time.time() - t0 > budget_s:
                    trunc = -1
                    break
            stats.append({"schedules": n, "truncated": trunc, "max_preemptions": maxpre})
            if time.time() - t0 > budget_s:
                break
    return out, stats


def thread_check(scenarios, oracle_threads, tier, accept=True, lines=False, bound=None, max_runs=None, budget_s=None,
                 classify=None):
    """explore every scenario, run the oracle on every schedule, replay every trace in the Lean model"""
    bound = bound if bound is not None else fw.tier_scale(tier, 2, 3)
    max_runs = max_runs or fw.tier_scale(tier, 3000, 30000)
    budget_s = budget_s or fw.tier_scale(tier, 25, 300)
    st, r = fw.run_with_timeout(_explore_child, (scenarios, bound, max_runs, lines, budget_s), budget_s * 3 + 60)
    failures, pf = [], []
    cov = {}
    if st != "ok":
        return {"failures": [], "proof_failures": [f"thread exploration did not finish: {st} {str(r)[:300]}"], "coverage": {}}
    runs, stats = r
    nontriv = 0
    bad_oracle = {}
    for run in runs:
        sc = scenarios[run["si"]]
        case = {"op": "threads", "scenario": sc, "plan": run["plan"]}
        if lines:
            case["lines"] = True
        if run["error"]:
            failures.append(fw.Failure("oracle", case, f"execution failed: {run['error']}"))
            continue
        if run["pre"] > 0:
            nontriv += 1
        v = oracle_threads(sc, run["trace"], run["final"])
        if v:
            fid = classify(case, v) if classify else None
            # one failure per (scenario, message class) is enough for the report; keep the shortest plan
            k = (run["si"], v.split(":")[0][:10], v[-60:])
            if k not in bad_oracle or len(run["plan"]) < len(bad_oracle[k].case["plan"]):
                bad_oracle[k] = fw.Failure("oracle", case, v, fid)
    failures += list(bad_oracle.values())
    mism = 0
    if accept and runs:
        reqs = []
        for run in runs:
            sc = dict(scenarios[run["si"]])
            sc["cls"] = model_cls(sc["cls"])
            reqs.append(dr.model_request(sc, run["trace"]))
        try:
            resps = fw.run_driver(DRIVER, reqs)
        except Exception as e:  # noqa
            resps = None
            pf.append(f"model driver failed on thread traces: {e}")
        if resps is not None:
            seen = set()
            for run, resp in zip(runs, resps):
                if run["error"]:
                    continue
                real_pt = dr.per_thread([[t, (["raise"] if e[0] == "raise" else e[:2])] for t, e in run["trace"] if e[0] != "U"])
                ok = "error" not in resp
                if ok:
                    model_pt = dr.per_thread(resp["ev"])
                    ok = (fw.key(model_pt) == fw.key(real_pt) and fw.key(_strip(resp["final"])) == fw.key(_strip(run["final"]))
                          and resp["stutter"] == 0)
                if not ok:
                    mism += 1
                    if run["si"] not in seen:
                        seen.add(run["si"])
                        case = {"op": "threads", "scenario": scenarios[run["si"]], "plan": run["plan"]}
                        failures.append(fw.Failure("correspondence", case,
                                                   {"impl": {"events": real_pt, "final": run["final"]},
                                                    "model": resp if "error" in resp else {"events": dr.per_thread(resp["ev"]), "final": resp["final"], "stutter": resp["stutter"]}}))
    cov = {
        "thread_scenarios": len(scenarios),
        "schedules_explored": len(runs),
        "schedules_with_preemption": nontriv,
        "preemption_bound": bound,
        "traces_validated_against_impl": len(runs) if accept else 0,
        "thread_trace_mismatches": mism,
        "thread_oracle_failures": len(bad_oracle),
        "per_scenario": stats,
        "line_granularity": lines,
        "thread_sample": {"scenario": scenarios[runs[-1]["si"]], "plan": runs[-1]["plan"], "trace": runs[-1]["trace"]} if runs else None,
    }
    return {"failures": failures, "proof_failures": pf, "coverage": cov}


def merge_extra(parts):
    out = {"failures": [], "proof_failures": [], "coverage": {}}
    for name, p in parts:
        out["failures"] += p["failures"]
        out["proof_failures"] += p["proof_failures"]
        for k, v in p["coverage"].items():
            out["coverage"][k if not name else f"{name}_{k}"] = v
    return out


def shrink_history(case):
    if case.get("op") != "history":
        return
    ops = case["threads"][0]
    for i in range(len(ops)):
        c = json.loads(json.dumps(case))
        del c["threads"][0][i]
        yield c
    if case.get("init"):
        for i in range(len(case["init"])):
            c = json.loads(json.dumps(case))
            del c["init"][i]
            yield c

"""Enumeration of <=k-preemption schedules shared by the Thr2 property modules.

run(case) must return a dict with "outcome", "choices", "kinds", "preempted"; check(case, result) returns
("ok"|"bad"|"hang", why)."""
from __future__ import annotations

from . import thr2_ctl as tc


def explore_batch(batch, run, check, nthreads, rerun_hang=None):
    sc, first = batch["sc"], batch["first"]
    allow = batch.get("allow", [])
    st = {"runs": 0, "hang": 0, "nontrivial": 0}
    bad = []

    def one(pre):
        case = dict(sc, first=first, pre=pre)
        r = run(case)
        if r["outcome"] == "hang" and rerun_hang is not None:
            r = rerun_hang(case)
        st["runs"] += 1
        verdict, why = check(case, r)
        if verdict == "hang":
            st["hang"] += 1
        elif verdict == "bad" and len(bad) < 3:
            bad.append({"case": case, "why": why})
        if r["preempted"] > 0:
            st["nontrivial"] += 1
        return r

    def kids(pre, r, level):
        al = allow[level]
        last = level == len(allow) - 1
        stride = batch.get("stride", 1) if last else 1
        return tc.children(pre, r["choices"], r.get("nthreads", nthreads), kinds=r["kinds"],
                           allowed=None if al == "all" else set(al), stride=stride,
                           offset=(pre[-1][0] % stride) if stride > 1 else 0)

    for p1 in batch["p1"]:
        r1 = one(p1)
        if p1 and len(allow) >= 1:
            for p2 in kids(p1, r1, 0):
                r2 = one(p2)
                if len(allow) >= 2:
                    for p3 in kids(p2, r2, 1):
                        one(p3)
    return {"runs": st["runs"], "bad": bad, "hang": st["hang"], "nontrivial": st["nontrivial"]}


def plan(scenarios, run, nthreads_of, allow, batch_runs=300, firsts=None, stride=1):
    batches, info = [], []
    for sc in scenarios:
        n = nthreads_of(sc)
        for first in (range(n) if firsts is None else firsts):
            r0 = run(dict(sc, first=first, pre=[]))
            S = len(r0["choices"])
            n = r0.get("nthreads", n)
            l1 = list(tc.children([], r0["choices"], n))
            per = 1
            for al in allow:
                k = S if al == "all" else sum(1 for x in r0["kinds"] if x in al)
                per *= max(1, k * (n - 1) // 2)
            per = max(1, per // stride)
            group = max(1, batch_runs // max(1, per))
            batches.append({"sc": sc, "first": first, "p1": [[]], "allow": []})
            for i in range(0, len(l1), group):
                batches.append({"sc": sc, "first": first, "p1": l1[i:i + group], "allow": allow, "stride": stride})
            info.append({"scenario": sc, "first": first, "yield_points": S, "est_runs": len(l1) * (1 + per)})
    return batches, info

"""C31 harness pieces: the real EventLoopScheduler under the interleaving controller with a controlled clock.

`run_threads(cfg, preempt)`: client threads execute programs (trees of ops, same JSON as the Lean driver reads):
  ["sched", lbl, body] | ["rel", lbl, d_us, body] | ["abs", lbl, t_us, body] | ["cancel", lbl] | ["dispose"] | ["tick", d_us]
against one real EventLoopScheduler (thread_factory = controlled threads, exit_if_empty per cfg); action bodies run on the loop
thread through the same interpreter.  `labels_of` translates the observed lock-section / flag / queue events into the step labels
of the atomic-step model `Thr.EL`; `events_of` into the model's observable event list (used with the default non-preemptive
schedule, which the Lean driver mirrors as `el_seq`).
Nothing in /repo is modified.
"""
from __future__ import annotations

import collections
from datetime import timedelta

from sched.thr_ctl import EPOCH, Ctl

EL_FILES = ("reactivex/scheduler/eventloopscheduler.py", "reactivex/scheduler/scheduleditem.py")


def us_of(dt):
    d = dt - EPOCH
    return (d.days * 86400 + d.seconds) * 1000000 + d.microseconds


def run_threads(cfg, preempt=None, opcode=False):
    """cfg: {"progs": [prog, ...], "xie": bool}"""
    from reactivex.disposable import Disposable  # noqa
    from reactivex.internal.exceptions import DisposedException
    from reactivex.internal.priorityqueue import PriorityQueue
    from reactivex.scheduler.scheduleditem import ScheduledItem

    ctl = Ctl(targets=EL_FILES + (("reactivex/scheduler/newthreadscheduler.py",) if cfg.get("kind", "el") != "el" else ()),
              preempt=preempt, opcode=opcode, max_steps=cfg.get("max_steps", 4000), early=cfg.get("early_timeouts"))
    ev = ctl.ev

    class LItem(ScheduledItem):
        def __init__(self, scheduler, state, action, duetime):
            super().__init__(scheduler, state, action, duetime)
            self.lbl = getattr(action, "lbl", None)
            ev("item", self.lbl, us_of(duetime))

        def invoke(self):
            ev("invoke", self.lbl)
            try:
                super().invoke()
            finally:
                ev("fin", self.lbl)

        def is_cancelled(self):
            # the loop's `is_cancelled()` read is the linearisation point of "the action starts" (or is skipped)
            r = super().is_cancelled()
            ev("skip", self.lbl) if r else ev("start", self.lbl, ctl.clock)
            return r

        def cancel(self):
            # the cancellation takes effect when the item's flag is written (inside the disposable, no scheduling point between
            # that write and this log entry)
            super().cancel()
            ev("cancel", self.lbl)

    class LPQ(PriorityQueue):
        def enqueue(self, item):
            ev("pq_enq", getattr(item, "lbl", None))
            super().enqueue(item)

        def dequeue(self):
            item = super().dequeue()
            ev("pq_deq", getattr(item, "lbl", None))
            return item

        def __len__(self):
            n = super().__len__()
            ev("pq_len", n)
            return n

        def peek(self):
            ev("pq_peek")
            return super().peek()

    class LDeque(collections.deque):
        tag = "ready"

        def append(self, x):
            ev(self.tag + "_append", getattr(x, "lbl", None))
            super().append(x)

        def popleft(self):
            x = super().popleft()
            ev(self.tag + "_popleft", getattr(x, "lbl", None))
            return x

        def __len__(self):
            n = super().__len__()
            if self.tag == "rl":
                ev("rl_len", n)
            return n

        def __bool__(self):
            n = super().__len__()
            if self.tag == "rl":
                ev("rl_len", n)
            return n > 0

        def __getitem__(self, i):
            return super().__getitem__(i)

    def logged_now():
        ev("now_read", ctl.clock)
        return ctl.now()

    patches = ctl.disposable_patches() + [
        ("reactivex.scheduler.scheduler", "default_now", logged_now),
        ("reactivex.scheduler.eventloopscheduler", "threading", ctl.threading_shim("el", "el")),
        ("reactivex.scheduler.eventloopscheduler", "ScheduledItem", LItem),
        ("reactivex.scheduler.eventloopscheduler", "PriorityQueue", LPQ),
        ("reactivex.scheduler.eventloopscheduler", "deque", LDeque),
    ]
    with ctl.patched(patches):
        from reactivex.scheduler.eventloopscheduler import EventLoopScheduler

        class LEL(EventLoopScheduler):
            @property
            def _is_disposed(self):
                v = self.__dict__["disposed_"]
                if not self.__dict__.get("constructing"):
                    ev("get_disposed", v)
                return v

            @_is_disposed.setter
            def _is_disposed(self, v):
                self.__dict__["disposed_"] = v
                if not self.__dict__.get("constructing"):
                    ev("set_disposed", v)

            @property
            def _thread(self):
                v = self.__dict__["thread_"]
                if not self.__dict__.get("constructing"):
                    ev("get_thread", v is None)
                return v

            @_thread.setter
            def _thread(self, v):
                self.__dict__["thread_"] = v
                if not self.__dict__.get("constructing"):
                    ev("set_thread", v is None)

        def build(thread_factory=None, exit_if_empty=None):
            s = LEL.__new__(LEL)
            s.__dict__["constructing"] = True
            LEL.__init__(s, thread_factory=thread_factory or ctl.thread_factory,
                         exit_if_empty=bool(cfg.get("xie")) if exit_if_empty is None else exit_if_empty)
            s.__dict__["constructing"] = False
            s._ready_list.tag = "rl"
            return s

        kind = cfg.get("kind", "el")
        insts = {}  # label -> the private EventLoopScheduler NewThreadScheduler/ThreadPoolScheduler created for it
        if kind == "el":
            sched = build()
        else:
            import reactivex.scheduler.newthreadscheduler as ntm
            import reactivex.scheduler.threadpoolscheduler as tpm

            def make_inst(thread_factory=None, exit_if_empty=False):
                s = build(thread_factory, exit_if_empty)
                insts[ctl.me().local.get("lbl")] = s
                return s

            class StubFuture:
                def cancel(self):
                    return False

            class StubExecutor:
                """concurrent.futures.ThreadPoolExecutor stand-in: every submitted target runs on a controlled thread"""

                def __init__(self, max_workers=None):
                    pass

                def submit(self, fn):
                    ctl.thread_factory(fn).start()
                    return StubFuture()

            saved = (ntm.EventLoopScheduler, tpm.ThreadPoolExecutor, ntm.threading)
            ntm.EventLoopScheduler = make_inst
            tpm.ThreadPoolExecutor = StubExecutor
            ntm.threading = ctl.threading_shim("nt", "nt")  # schedule_periodic's `disposed` Event
            sched = ntm.NewThreadScheduler(thread_factory=ctl.thread_factory) if kind == "newthread" else tpm.ThreadPoolScheduler()
        handles = {}

        def action(lbl, body):
            def act(scheduler, state):
                run_ops(body)

            act.lbl = lbl
            return act

        def run_ops(ops):
            for op in ops:
                k = op[0]
                if k in ("sched", "rel", "abs"):
                    lbl = op[1]
                    ctl.me().local["lbl"] = lbl
                    ev("call", k, lbl, None if k == "sched" else op[2])
                    try:
                        if k == "sched":
                            handles[lbl] = sched.schedule(action(lbl, op[2]))
                        elif k == "rel":
                            handles[lbl] = sched.schedule_relative(timedelta(microseconds=op[2]), action(lbl, op[3]))
                        else:
                            from datetime import timezone

                            when = EPOCH + timedelta(microseconds=op[2])
                            off = (cfg.get("tz") or {}).get(str(lbl))
                            if off is not None:  # the same instant written in another zone
                                when = when.astimezone(timezone(timedelta(hours=off)))
                            handles[lbl] = sched.schedule_absolute(when, action(lbl, op[3]))
                    except DisposedException:
                        ev("raised", lbl)
                    ev("ret")
                elif k == "cancel":
                    h = handles.get(op[1])
                    n0 = len(ctl.events)
                    if h is not None:
                        h.dispose()
                    me = ctl.me().idx
                    if not any(e[0] == me and e[1] == "cancel" for e in ctl.events[n0:]):
                        ev("cancel", op[1])  # no handle (the schedule call raised) or a repeated cancel: no effect, still a step
                elif k == "dispose":
                    ev("call", "dispose", None, None)
                    sched.dispose()
                    ev("ret")
                elif k == "tick":
                    ev("tick", op[1])
                    ctl.advance(op[1])
                elif k == "periodic":
                    # ["periodic", lbl, period_us, cost_us]: every tick takes cost_us of (controlled) time
                    lbl, period, cost = op[1], op[2], op[3]

                    def tick_action(state, lbl=lbl, cost=cost):
                        ev("ptick_start", lbl, ctl.clock)
                        if cost:
                            ctl.sleep(cost / 1e6)
                        ev("ptick_end", lbl)
                        return state

                    handles[lbl] = sched.schedule_periodic(timedelta(microseconds=period), tick_action)
                elif k == "sleep":
                    ctl.sleep(op[1] / 1e6)
                elif k == "pcancel":
                    ev("pdispose_call", op[1])
                    handles[op[1]].dispose()
                    ev("pdispose_ret", op[1])
                else:
                    raise ValueError(op)

        for p in cfg["progs"]:
            ctl.spawn((lambda p: (lambda: run_ops(p)))(p), "client")
        try:
            status = ctl.run(timeout=cfg.get("timeout", 120.0))
        finally:
            if kind != "el":
                ntm.EventLoopScheduler, tpm.ThreadPoolExecutor, ntm.threading = saved

        def final_of(sc):
            return {"disposed": sc.__dict__["disposed_"], "thread_none": sc.__dict__["thread_"] is None,
                    "ready_list": [getattr(x, "lbl", None) for x in list(collections.deque.__iter__(sc._ready_list))],
                    "queue": [getattr(x[0], "lbl", None) for x in sorted(sc._queue.items, key=lambda p: (p[0].duetime, p[1]))],
                    "clock": ctl.clock, "nthreads": len(ctl.threads)}

        final = final_of(sched) if kind == "el" else None
        finals = {lbl: final_of(sc) for lbl, sc in insts.items()}
    return {"status": status, "events": ctl.events, "choices": ctl.choices, "steps": ctl.steps, "n": len(cfg["progs"]), "final": final,
            "finals": finals, "thread_exc": [[t.idx, type(t.exc).__name__] for t in ctl.threads if t.exc is not None]}


def split_instances(cfg, res):
    """NewThreadScheduler / ThreadPoolScheduler: one private exit_if_empty EventLoopScheduler per scheduled item.  Returns, per item
    label, (instance cfg, instance result) with the item's scheduling thread renumbered 0 and its loop thread 1, so that each
    instance can be checked against the single-scheduler model and oracle."""
    ops = {}

    def walk(prog):
        for o in prog:
            if o[0] in ("sched", "rel", "abs"):
                ops[o[1]] = o
                walk(o[-1])

    for p in cfg["progs"]:
        walk(p)
    owner = {}  # thread -> label whose call it is currently inside
    loop_of = {}  # loop thread -> label
    per = {lbl: [] for lbl in ops}
    client_of = {}
    for e in res["events"]:
        t, k = e[0], e[1]
        if t is None or k == "clock":
            for lbl in per:
                per[lbl].append((None,) + tuple(e[1:]))
            continue
        if k == "call" and e[2] != "dispose":
            owner[t] = e[3]
            client_of[e[3]] = t
        cur = owner.get(t)
        if k == "thread_start" and cur is not None:
            loop_of[e[2]] = cur
        if k == "cancel":
            lbl = e[2]
        elif cur is not None:
            lbl = cur
        elif t in loop_of:
            lbl = loop_of[t]
        else:
            lbl = None
        if lbl in per and k != "tick" or (lbl in per and t in loop_of and owner.get(t) is None):
            per[lbl].append(e)
        if k == "ret":
            owner.pop(t, None)
    out = {}
    for lbl, evs in per.items():
        if lbl not in client_of:
            continue
        loops = [t for t, l in loop_of.items() if l == lbl]
        remap = {client_of[lbl]: 0}
        for j, t in enumerate(sorted(loops)):
            remap[t] = 1 + j
        cancelled = any(e[0] is not None and e[1] == "cancel" and e[2] == lbl for e in evs)
        sub = []
        for e in evs:
            if e[0] is None:
                sub.append(e)
            elif e[0] in remap:
                if e[1] == "thread_start":
                    sub.append((remap[e[0]], "thread_start", remap.get(e[2], e[2])) + tuple(e[3:]))
                else:
                    sub.append((remap[e[0]],) + tuple(e[1:]))
            elif e[1] == "cancel":
                sub.append((0,) + tuple(e[1:]))  # a cancel issued by another thread: still the instance's client side
        o = ops[lbl]
        body = [b for b in o[-1] if b[0] == "tick"]
        prog = [o[:-1] + [body]] + ([["cancel", lbl]] if cancelled else [])
        icfg = {"xie": True, "progs": [prog]}
        ires = {"status": res["status"], "events": sub, "n": 1, "final": res["finals"].get(lbl), "thread_exc": []}
        out[lbl] = (icfg, ires)
    return out


def oracle_periodic(cfg, res):
    """NewThreadScheduler.schedule_periodic (also ThreadPoolScheduler): a tick starts only after the `disposed` flag was consulted
    and found clear; once dispose() has set it, no further tick starts ("cancelled before it starts never runs") and the thread
    ends.  The linearisation point of "a tick starts" is that read of the flag."""
    ev = res["events"]
    set_pos = None
    last_obs = {}  # thread -> (pos, value) of its latest observation of the flag since its last tick ended
    for pos, e in enumerate(ev):
        t, k = e[0], e[1]
        if k == "evset" and set_pos is None:
            set_pos = pos
        elif k in ("ev_is_set", "ev_wait_ret") and t is not None:
            last_obs[t] = (pos, e[3])
        elif k == "ptick_end":
            last_obs.pop(t, None)
        elif k == "ptick_start":
            obs = last_obs.get(t)
            if obs is not None and obs[1]:
                return f"periodic action {e[2]}: a tick started although the disposed flag had been read as set"
            if set_pos is not None and (obs is None or obs[0] > set_pos):
                why = "without consulting the disposed flag" if obs is None else "after the flag was read as clear AFTER dispose() set it"
                return f"periodic action {e[2]}: a tick started at {e[3]} after dispose() had set the flag, {why}"
    if res["status"] in ("steplimit", "deadlock"):
        return f"run ended with status {res['status']} (the periodic thread never ends after dispose)"
    if res["thread_exc"]:
        return f"a thread raised: {res['thread_exc']}"
    return None


def oracle_private_loops(cfg, res):
    """NewThreadScheduler / ThreadPoolScheduler: every item obeys the single-scheduler property on its private loop, runs on a
    thread of its own (never a client thread, never shared with another item)"""
    if res["status"] in ("deadlock", "steplimit"):
        return f"run ended with status {res['status']}"
    if res["thread_exc"]:
        return f"a thread raised: {res['thread_exc']}"
    ran_on = {}
    for e in res["events"]:
        if e[0] is not None and e[1] == "invoke":
            ran_on[e[2]] = e[0]
    if len(set(ran_on.values())) != len(ran_on):
        return f"two items ran on the same thread: {ran_on}"
    for lbl, t in ran_on.items():
        if t < res["n"]:
            return f"item {lbl} ran on client thread {t}"
    for lbl, (icfg, ires) in split_instances(cfg, res).items():
        if ires["final"] is None:
            continue
        v = oracle(icfg, ires)
        if v:
            return f"item {lbl} (private loop): {v}"
    return None


GUARDED = {"rl_append", "rl_popleft", "pq_enq", "pq_deq", "pq_peek", "pq_len", "rl_len", "set_disposed", "set_thread", "get_thread"}


def labels_of(res):
    """observed events -> ([[thread, label]], problems, [[thread, label, extra]] with spawn ids for the event list)"""
    events = res["events"]
    clock_at = []
    clk = 0
    for e in events:
        if e[1] == "clock":
            clk = e[2]
        clock_at.append(clk)
    out, problems = [], []
    sec = {}  # thread -> {"start": pos, "evs": [...]}
    call = {}  # thread -> {"kind","lbl","arg","pos","sched_done"}
    for pos, e in enumerate(events):
        t, k = e[0], e[1]
        if t is None:
            continue
        if k == "call":
            call[t] = {"kind": e[2], "lbl": e[3], "arg": e[4], "pos": pos, "sched_done": False}
            if e[2] == "abs":
                out.append((pos, t, ["sched", e[3], e[4], clock_at[pos]], None))
                call[t]["sched_done"] = True
            continue
        if k == "ret":
            call.pop(t, None)
            continue
        if k == "acq" and e[2] == "el":
            if t in sec:
                problems.append(f"nested acquire of the condition by thread {t}")
            sec[t] = {"start": pos, "evs": [], "pevs": []}
            continue
        if k in ("rel", "wait") and e[2] == "el" and t in sec:
            s = sec.pop(t)
            evs = s["evs"]
            kinds = [x[1] for x in evs]
            c = call.get(t)
            if s.get("after_wait"):
                if any(x in GUARDED for x in kinds):
                    problems.append(f"activity after a condition wait inside the same locked block: {kinds}")
                continue
            # a locked section is linearised at the one access in it that unlocked steps of other threads can race with:
            # the clock read (collect / submission), the `_is_disposed` write (dispose)
            def pos_of(kind, default):
                ps = [p for p, x in s["pevs"] if x[1] == kind]
                return ps[0] if ps else default

            if c is not None and c["kind"] == "dispose":
                first = ("set_disposed", True) in [(x[1], x[2] if len(x) > 2 else None) for x in evs]
                out.append((pos_of("set_disposed", pos_of("get_disposed", s["start"])), t, ["dispose", first], None))
            elif c is not None:
                imm = "rl_append" in kinds
                if not imm and "pq_enq" not in kinds:
                    problems.append(f"schedule section without append/enqueue: {kinds}")
                spawn = [x[2] for x in evs if x[1] == "thread_start"]
                out.append((pos_of("now_read", s["start"]), t, ["enq", c["lbl"], imm, bool(spawn)], spawn[0] if spawn else None))
            elif kinds and kinds[0] == "get_disposed":
                if evs[0][2]:
                    out.append((s["start"], t, ["exitDisposed"], None))
                else:
                    # WHAT was gathered is filled in below from what the loop then takes (start/skip) until its next gathering:
                    # observable however the code moves items from `_ready_list`/`_queue` into its local batch
                    reads = [x[2] for x in evs if x[1] == "now_read"]
                    out.append((pos_of("now_read", s["start"]), t, ["collect", None, reads[0] if reads else None], pos))
            else:
                if k == "wait":
                    to = e[3]
                    reads = [x[2] for x in evs if x[1] == "now_read"]
                    lab = ["waitU"] if to is None else ["waitT", (reads[0] if reads else clock_at[pos]) + to]
                elif ("set_thread", True) in [(x[1], x[2] if len(x) > 2 else None) for x in evs]:
                    lab = ["exitEmpty"]
                else:
                    rl = [x[2] for x in evs if x[1] == "rl_len"]
                    lab = ["cont"] if rl and rl[0] > 0 else ["recheck"]
                out.append((s["start"], t, lab, None))
            if k == "wait":
                sec[t] = {"start": pos, "evs": [], "pevs": [], "after_wait": True}
            continue
        if k == "woke" and t in sec:
            out.append((pos, t, ["woke"], None))
            continue
        s = sec.get(t)
        if s is not None:
            s["evs"].append(e)
            s["pevs"].append((pos, e))
            if k in ("start", "fin", "skip", "cancel", "tick", "call"):
                problems.append(f"{k} inside the condition's lock")
            continue
        # outside the lock
        if k in GUARDED:
            problems.append(f"{k} outside the condition's lock by thread {t}")
        elif k == "now_read":
            c = call.get(t)
            if c is not None and not c["sched_done"] and c["kind"] in ("sched", "rel"):
                due = e[2] if c["kind"] == "sched" else e[2] + max(c["arg"], 0)
                out.append((pos, t, ["sched", c["lbl"], due, e[2]], None))
                c["sched_done"] = True
        elif k == "get_disposed":
            c = call.get(t)
            if c is not None and c["kind"] in ("sched", "rel", "abs"):
                out.append((pos, t, ["chk", c["lbl"], bool(e[2])], None))
            else:
                problems.append(f"_is_disposed read outside the lock and outside a schedule call by thread {t}")
        elif k == "start":
            out.append((pos, t, ["start", e[2]], e[3]))
        elif k in ("fin", "skip", "cancel", "tick"):
            out.append((pos, t, [k, e[2]], None))
    for t in sec:
        if not sec[t].get("after_wait"):
            problems.append(f"section left open by thread {t}")
    out.sort(key=lambda x: x[0])
    takes = {}
    for pos, e in enumerate(events):
        if e[0] is not None and e[1] in ("start", "skip"):
            takes.setdefault(e[0], []).append((pos, e[2]))
    ends = {}
    for p, t, l, x in out:
        if l[0] == "collect":
            ends.setdefault(t, []).append(x)  # position at which the gathering section released the lock
    for p, t, l, x in out:
        if l[0] == "collect":
            nxt = [q for q in ends[t] if q > x]
            hi = nxt[0] if nxt else len(events)
            l[1] = [lbl for q, lbl in takes.get(t, []) if x < q < hi]
    out = [(p, t, l, None if l[0] == "collect" else x) for p, t, l, x in out]
    # each trace entry carries the controlled clock at the moment of the step (the driver lets that much time pass first)
    return [[t, l, clock_at[p]] for p, t, l, _ in out], problems, [[t, l, x] for _, t, l, x in out]


def events_of(res):
    """the model's observable event list (Driver `elEvJson`) from the observed run"""
    _, problems, ext = labels_of(res)
    evs = []
    for t, l, x in ext:
        k = l[0]
        if k == "sched":
            evs.append(["sched", t, l[1], l[2], l[3]])
        elif k == "chk":
            if l[2]:
                evs.append(["raised", t, l[1]])
        elif k == "enq":
            evs.append(["enq", t, l[1], l[2], x])
        elif k in ("cancel", "skip", "fin"):
            evs.append([k, t, l[1]])
        elif k == "dispose":
            evs.append(["dispose", t, l[1]])
        elif k == "collect":
            evs.append(["collect", t, l[1], l[2]])
        elif k == "start":
            evs.append(["start", t, l[1], x])
        elif k == "waitT":
            evs.append(["waitT", t, l[1]])
        elif k in ("exitDisposed", "waitU", "exitEmpty", "woke"):
            evs.append([k, t])
    return evs, problems


def oracle(cfg, res):
    """the property's own oracle on the observed events (independent of the Lean model)"""
    if res["status"] in ("deadlock", "steplimit"):
        return f"run ended with status {res['status']}"
    if res["thread_exc"]:
        return f"a thread raised: {res['thread_exc']}"
    n = res["n"]
    events = res["events"]
    abs_due = {}

    def walk(prog):
        for o in prog:
            if o[0] == "abs":
                abs_due[o[1]] = o[2]
            if o[0] in ("sched", "rel", "abs"):
                walk(o[-1])

    for p in cfg.get("progs", []):
        walk(p)
    open_ = None
    cancelled = set()
    dispose_done = None  # position at which the first dispose() call returned
    in_dispose = {}
    call_start = {}
    item_due = {}
    submitted = []  # (pos, lbl, imm) in the order of the locked sections
    started = []
    skipped = set()
    raised = set()
    loop_threads = set()
    insec = {}
    cur_call = {}
    for pos, e in enumerate(events):
        t, k = e[0], e[1]
        if t is None:
            continue
        if k == "call":
            cur_call[t] = (e[2], e[3], pos)
            if e[2] == "dispose":
                in_dispose[t] = pos
        elif k == "ret":
            c = cur_call.pop(t, None)
            if c and c[0] == "dispose" and dispose_done is None:
                dispose_done = pos
        elif k == "raised":
            raised.add(e[2])
            c = cur_call.get(t)
        elif k == "item":
            item_due[e[2]] = abs_due.get(e[2], e[3])  # for schedule_absolute: the instant the caller asked for
            c = cur_call.get(t)
            if dispose_done is not None and c is not None and c[2] > dispose_done:
                return f"schedule of {e[2]} started after dispose() returned and did not raise DisposedException"
        elif k in ("rl_append", "pq_enq"):
            submitted.append((pos, e[2], k == "rl_append"))
        elif k == "cancel":
            cancelled.add(e[2])
        elif k == "skip":
            skipped.add(e[2])
        elif k == "start":
            if open_ is not None:
                return f"action {e[2]} started on thread {t} while action {open_[0]} is running on thread {open_[1]}"
            if t < n:
                return f"action {e[2]} ran on client thread {t}"
            loop_threads.add(t)
            if e[2] in cancelled:
                return f"action {e[2]} started after it was cancelled"
            if e[2] in item_due and e[3] < item_due[e[2]]:
                return f"action {e[2]} started at {e[3]} before its due time {item_due[e[2]]}"
            if e[2] in [s[0] for s in started]:
                return f"action {e[2]} started twice"
            sub = [s for s in submitted if s[1] == e[2]]
            if dispose_done is not None and sub and sub[0][0] > dispose_done:
                return f"action {e[2]} submitted after dispose() returned was run"
            open_ = (e[2], t)
            started.append((e[2], pos))
        elif k == "fin":
            open_ = None
    # call-level: a schedule call that began after dispose() returned must raise
    for pos, e in enumerate(events):
        if e[0] is not None and e[1] == "call" and e[2] != "dispose" and dispose_done is not None and pos > dispose_done and e[3] not in raised:
            return f"schedule of {e[3]} began after dispose() returned but did not raise DisposedException"
    imm_order = [s[1] for s in submitted if s[2]]
    timed = [s[1] for s in submitted if not s[2]]
    taken = [e[2] for e in events if e[0] is not None and e[1] in ("start", "skip")]
    ti = [x for x in taken if x in imm_order]
    if ti != [x for x in imm_order if x in ti][: len(ti)] or ti != imm_order[: len(ti)]:
        return f"immediately-due actions not taken in submission order: submitted {imm_order}, taken {ti}"
    tt = [x for x in taken if x in timed]
    keyed = [(item_due[x], [s[0] for s in submitted if s[1] == x][0]) for x in tt]
    if keyed != sorted(keyed):
        return f"timed actions not taken in due-time order: {list(zip(tt, keyed))}"
    disposed = res["final"]["disposed"]
    if not disposed and res["status"] in ("ok", "idle"):
        for _, lbl, _ in submitted:
            if lbl not in taken:
                return f"scheduler quiescent but action {lbl} was never taken (stranded)"
        if res["final"]["ready_list"] or res["final"]["queue"]:
            return "scheduler quiescent with pending items"
    if not cfg.get("xie") and len(loop_threads) > 1:
        return f"more than one loop thread ran actions without exit_if_empty: {sorted(loop_threads)}"
    # cross order between timed and immediately-due actions ("in due-time order"): the loop merges what is pending by due time.
    #  X1: a timed action T with T.due < I.due, submitted before the loop gathered the immediate action I, is taken before I;
    #  X2: an immediate action I with I.due < T.due, submitted before the loop gathered the timed action T, is taken before T
    #      (only claimed when the immediate submissions up to I were made in non-decreasing due order, i.e. no racing/past-due
    #      submission left the ready list itself out of due order).
    sub_pos = {lbl: p for p, lbl, _ in submitted}
    is_imm = {lbl: im for _, lbl, im in submitted}
    # the gathering that produced the batch an item was taken from = the loop thread's latest top-of-loop `_is_disposed` test
    # (outside any schedule*/dispose call of its own) before the item is taken
    gathered_at = {}
    last_top = {}
    in_disp = set()
    for pos, e in enumerate(events):
        t, k = e[0], e[1]
        if t is None:
            continue
        if k == "call":
            in_disp.add(t)
        elif k == "ret":
            in_disp.discard(t)
        elif k == "get_disposed" and t >= n and t not in in_disp and e[2] is False:
            last_top[t] = pos
        elif k in ("start", "skip") and e[2] not in gathered_at and t in last_top:
            gathered_at[e[2]] = last_top[t]
    take_idx = {lbl: i for i, lbl in enumerate(taken)}
    imm_seq = [(p, lbl) for p, lbl, im in submitted if im]
    for a in taken:
        for b in taken:
            if a == b or a not in item_due or b not in item_due or a not in sub_pos or b not in sub_pos:
                continue
            if not is_imm[a] and is_imm[b] and item_due[a] < item_due[b] and sub_pos[a] < gathered_at.get(b, -1) and take_idx[a] > take_idx[b]:
                return (f"timed action {a} (due {item_due[a]}) was pending when the loop gathered the immediately-due action {b} "
                        f"(due {item_due[b]}) but ran after it (not in due-time order)")
            if is_imm[a] and not is_imm[b] and item_due[a] < item_due[b] and sub_pos[a] < gathered_at.get(b, -1) and take_idx[a] > take_idx[b]:
                before = [item_due[l] for p, l in imm_seq if p <= sub_pos[a] and l in item_due]
                if before == sorted(before):
                    return (f"immediately-due action {a} (due {item_due[a]}) was pending when the loop gathered the timed action {b} "
                            f"(due {item_due[b]}) but ran after it (not in due-time order)")
    # a single dedicated thread: never two loop threads alive at once; without exit_if_empty never a second one at all
    alive = set()
    nstarted = 0
    for e in events:
        if e[1] == "thread_start":
            nstarted += 1
            if alive:
                return f"loop thread {e[2]} created while loop thread(s) {sorted(alive)} still alive"
            alive.add(e[2])
        elif e[0] in alive and (e[1] == "thread_end" or (e[1] == "set_thread" and e[2] is True)
                                or (e[1] == "get_disposed" and e[2] is True)):
            # the thread has decided to exit (reset `_thread` under the lock / saw the disposed flag at the top of its loop)
            alive.discard(e[0])
    if not cfg.get("xie") and nstarted > 1:
        return f"{nstarted} loop threads created without exit_if_empty"
    # submission order as the CALLER sees it: actions a thread submits one after the other, each already due when submitted,
    # must be taken in that order
    per_thread = {}
    for pos, e in enumerate(events):
        if e[0] is not None and e[1] == "item" and e[3] <= clock_at(events, pos):
            per_thread.setdefault(e[0], []).append(e[2])
    for t, lbls in per_thread.items():
        got = [x for x in taken if x in lbls]
        if got != [x for x in lbls if x in got]:
            return f"actions submitted by thread {t} as immediately due in the order {lbls} were taken in the order {got}"
    return None


def clock_at(events, pos):
    c = 0
    for e in events[: pos + 1]:
        if e[1] == "clock":
            c = e[2]
    return c

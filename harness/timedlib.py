"""Shared helpers of the Timed family (C15, C16, C17): timeline generators aimed at boundaries, the adapter that runs a real
operator on TestScheduler / HistoricalScheduler over hot or cold test observables, and small utilities for the oracles.

Time is integer ticks.  `SUB` = subscription time (TestScheduler default 200), disposal at 1000; all generated times and due
times stay far below 1000 except where an operator is unbounded (sample), in which case the horizon is part of the case."""
from datetime import datetime, timedelta, timezone

import fw
from fw import InjectedError, enc

SUB = 200
STOP = 1000
VALS = [None, 0, 1, False, "", "a", (), 2, 3, 0.0, [], {}]


def utc(t):
    return datetime.fromtimestamp(t, tz=timezone.utc)


# ----------------------------------------------------------------------------------- generators
def gen_times(rng, n, d, marks, lo=SUB - 3, hi=420):
    """n non-decreasing times: bursts (gap 0), gaps around the due time d (d-1, d, d+1), snaps to / around the marks."""
    ts = []
    t = rng.choice([lo, SUB, SUB + 1, SUB + 1, SUB + 2, SUB + 5, SUB + 10])
    gaps = [0, 0, 1, 2, max(d - 1, 0), d, d, d + 1, 2 * d, 3, 7]
    for _ in range(n):
        r = rng.random()
        if marks and r < 0.35:
            c = rng.choice(marks) + rng.choice([-1, 0, 0, 1])
            if c >= t:
                t = c
        elif ts or r < 0.8:
            t += rng.choice(gaps)
        t = min(t, hi)
        ts.append(t)
    return ts


def gen_msgs(rng, d, marks, vals=None, nmax=7, malformed=0.12, term_marks=True):
    """A timeline [[t, notif], ...] (absolute times, sorted): elements, then (mostly) one terminal placed at / around the last
    element, a mark, or last + d; with probability `malformed` extra messages after the terminal / before the subscription."""
    vals = vals or VALS
    n = rng.choice([0, 1, 1, 2, 2, 3, 3, 4, 5, nmax])
    ts = gen_times(rng, n, d, marks)
    msgs = [[t, ["N", enc(rng.choice(vals))]] for t in ts]
    last = ts[-1] if ts else SUB + 1
    k = rng.random()
    if k < 0.8:
        cands = [last, last, last + 1, last + d, last + d + 1, last + max(d - 1, 0), last + rng.randrange(0, 25)]
        if term_marks and marks:
            cands += [m for m in marks if m >= last] + [m + 1 for m in marks if m + 1 >= last]
        tt = rng.choice(cands)
        msgs.append([tt, ["C"]] if k < 0.5 else [tt, ["E", f"e{rng.randrange(3)}"]])
        if rng.random() < malformed:
            for _ in range(rng.randrange(1, 3)):
                tt += rng.choice([0, 1, d])
                msgs.append([tt, rng.choice([["N", enc(rng.choice(vals))], ["C"], ["E", "late"]])])
    if rng.random() < malformed:
        msgs = [[SUB - 20, ["N", 9]], [SUB, ["N", 8]]] + msgs
        msgs.sort(key=lambda m: m[0])
    return msgs


def to_cold(msgs):
    """the same timeline relative to the subscription at SUB (messages before SUB are clamped to offset 0)"""
    return [[max(t - SUB, 0), n] for t, n in msgs]


def seen_hot(msgs, sub=SUB):
    """what a subscription at `sub` to a hot observable receives (property-level helper for the oracles)"""
    out = []
    for t, n in msgs:
        if t <= sub:
            continue
        out.append([t, n])
        if n[0] != "N":
            break
    return out


def seen_cold(msgs, sub=SUB):
    out = []
    for t, n in msgs:
        out.append([sub + t, n])
        if n[0] != "N":
            break
    return out


def seen(case, key="msgs", src=None, sub=SUB):
    src = src or case["src"]
    return seen_cold(case[key], sub) if src == "cold" else seen_hot(case[key], sub)


def shrink_msgs(case, key="msgs"):
    m = case[key]
    for i in range(len(m)):
        c = dict(case)
        c[key] = m[:i] + m[i + 1:]
        yield c


# ----------------------------------------------------------------------------------- real code
def recorded(msgs):
    from reactivex.testing import ReactiveTest

    out = []
    for t, n in msgs:
        if n[0] == "N":
            out.append(ReactiveTest.on_next(t, fw.dec(n[1])))
        elif n[0] == "C":
            out.append(ReactiveTest.on_completed(t))
        else:
            out.append(ReactiveTest.on_error(t, InjectedError(n[1])))
    return out


def mk_source(sched, kind, msgs):
    r = recorded(msgs)
    return sched.create_cold_observable(r) if kind == "cold" else sched.create_hot_observable(r)


def run_test(case, build, sources=("msgs",)):
    """TestScheduler run: `build(sched, *sources)` returns the observable under test; subscribed at 200, disposed at 1000.
    Returns {"out": timed notifications, "subs": [[subscribe, unsubscribe] per source ...]} or {"raised": name}."""
    from reactivex.testing import TestScheduler

    sched = TestScheduler()
    srcs = []
    for key in sources:
        spec = case if key == "msgs" else case.get(key)
        if spec is None:
            srcs.append(None)
        elif key == "msgs":
            srcs.append(mk_source(sched, case["src"], case["msgs"]))
        else:
            srcs.append(mk_source(sched, spec["src"], spec["msgs"]))
    try:
        res = sched.start(lambda: build(sched, *srcs))
    except InjectedError as e:
        return {"raised": e.name}
    except Exception as e:  # noqa
        return {"raised": type(e).__name__}
    return {"out": fw.messages_json(res.messages),
            "subs": [fw.subs_json(s.subscriptions) if s is not None else None for s in srcs]}


def out_of(io):
    return io["out"] if isinstance(io, dict) and "out" in io else io


def model_out(case, resp, check_spec=True):
    """driver response {"run":…, "spec":…}: the run is what is compared with the real code; run ≠ spec on a generated
    (sorted) timeline would contradict the theorem and is turned into a mismatch."""
    if isinstance(resp, dict) and "run" in resp:
        if check_spec and "spec" in resp and fw.key(resp["run"]) != fw.key(resp["spec"]):
            return {"model run and spec differ": resp}
        return resp["run"]
    return resp


def kinds(msgs):
    return "".join(n[0] for _, n in msgs)


def shape(case, io):
    """coarse histogram labels"""
    m = case["msgs"]
    term = next((n[0] for _, n in m if n[0] != "N"), "-")
    yield f"{case['op']}:{case['src']}:term={term}"
    yield f"{case['op']}:n={min(sum(1 for _, n in m if n[0] == 'N'), 5)}"

"""Shared helpers of the Timed family (C15, C16, C17): timeline generators aimed at boundaries, the adapter that runs a real
operator on TestScheduler / HistoricalScheduler over hot or cold test observables, and small utilities for the oracles.

Time is integer ticks.  `SUB` = subscription time (TestScheduler default 200), disposal at 1000; all generated times and due
times stay far below 1000 except where an operator is unbounded (sample), in which case the horizon is part of the case."""
from datetime import datetime, timedelta, timezone

import fw
from fw import InjectedError, enc

SUB = 200
STOP = 1000
VALS = [None, 0, 1, False, "", "a", (), 2, 3, 0.0, [], {}]


def utc(t):
    return datetime.fromtimestamp(t, tz=timezone.utc)


# ----------------------------------------------------------------------------------- fractional seconds
# A case with "scale": q is generated, modelled and judged in integer units of 1/q second (exact arithmetic), but RUN in
# fractional seconds: a unit time t becomes SUB + (t - SUB)/q seconds (float clock of TestScheduler, or a datetime on
# HistoricalScheduler, optionally shifted to a wall-clock sized epoch: "wall"), a duration d becomes d/q seconds (a float, or a
# timedelta with "td").  Gaps exactly equal to a window / due time stay exactly equal; outputs are mapped back exactly.
WALL = 1715947200          # 2024-05-17 12:00:00 UTC


def q_of(case):
    return case.get("scale") or 1


def real_abs(case, t):
    q = q_of(case)
    return t if q == 1 else SUB + (t - SUB) / q


def real_rel(case, d):
    q = q_of(case)
    return d if q == 1 else d / q


def real_dur(case, d, hist=False):
    q = q_of(case)
    if case.get("td") or (hist and q > 1):
        return timedelta(microseconds=d * 1000000 // q)
    if hist:
        return timedelta(seconds=d)
    return d if q == 1 else d / q


def abs_dt(case, t):
    """absolute unit time -> aware datetime (exact)"""
    q = q_of(case)
    return utc((WALL if case.get("wall") else 0) + SUB) + timedelta(microseconds=(t - SUB) * 1000000 // q)


def unit_of_seconds(case, secs):
    """float seconds of a virtual clock -> unit time (an int when it is one, else the float: a visible mismatch)"""
    q = q_of(case)
    if q == 1:
        return int(secs)
    x = (secs - SUB) * q
    return SUB + round(x) if abs(x - round(x)) < 1e-4 else SUB + x


def unit_of_dt(case, dt):
    """aware datetime -> unit time, exactly (integer microsecond arithmetic)"""
    q = q_of(case)
    delta = dt - utc((WALL if case.get("wall") else 0) + SUB)
    n, rem = divmod(delta, timedelta(microseconds=1000000 // q))
    return SUB + n if not rem else SUB + delta.total_seconds() * q


def unit_of_span(case, td):
    q = q_of(case)
    n, rem = divmod(td, timedelta(microseconds=1000000 // q))
    return n if not rem else td.total_seconds() * q


def _real_tl(case, tl, rel):
    return [[(real_rel(case, t) if rel else real_abs(case, t)), n] for t, n in tl]


def realize(case):
    """the case as it is RUN (times in seconds); identity for scale 1"""
    if q_of(case) == 1:
        return case
    c = dict(case)
    c["orig"] = case
    c["msgs"] = _real_tl(case, case["msgs"], case["src"] == "cold")
    for k in ("d", "period"):
        if k in c:
            c[k] = real_dur(case, case[k])
    if "at" in c:
        c["at"] = real_abs(case, case["at"]) if case.get("abs") else real_dur(case, case["at"])
    if c.get("sub2") is not None:
        c["sub2"] = real_abs(case, case["sub2"])
    for k in ("other", "sampler"):
        if c.get(k):
            c[k] = {"src": case[k]["src"], "msgs": _real_tl(case, case[k]["msgs"], case[k]["src"] == "cold")}

    def inner(tl):
        if isinstance(tl, dict):
            return {"timer": real_rel(case, tl["timer"])} if "timer" in tl else tl
        return _real_tl(case, tl, True)

    if "inners" in c:
        c["inners"] = [inner(tl) for tl in case["inners"]]
    for k in ("first", "subdelay"):
        if c.get(k) is not None:
            c[k] = inner(case[k])
    return c


def in_tz(case, dt):
    """the same instant written as an aware datetime of a NON-UTC zone ("tz": offset in hours)"""
    if case.get("tz") is None:
        return dt
    return dt.astimezone(timezone(timedelta(hours=case["tz"])))


def gen_tz(rng, c, p=0.4):
    if c.get("abs") and rng.random() < p:
        c["tz"] = rng.choice([-11, -5, 2, 9])


def gen_opsched(rng, c, p=0.25):
    """the operator gets the scheduler of the timeline as its own `scheduler=` argument and the subscription a different one"""
    if rng.random() < p:
        c["opsched"] = True


def gen_scale(rng, c, p=0.3, qs=(10, 100), wall_ok=False):
    """turn a generated case into a fractional-seconds one (same unit timeline, run at 1/q second per unit)"""
    if rng.random() < p:
        c["scale"] = rng.choice(qs)
        if rng.random() < 0.4:
            c["td"] = True
        if wall_ok and rng.random() < 0.5:
            c["wall"] = True


def unit_messages(case, messages):
    """Recorded messages of a MockObserver -> [[unit time, notif], ...]"""
    out = []
    for m in messages:
        n = m.value
        t = unit_of_seconds(case, m.time)
        if n.kind == "N":
            out.append([t, ["N", enc(n.value)]])
        elif n.kind == "E":
            out.append([t, ["E", fw.err_name(n.exception)]])
        else:
            out.append([t, ["C"]])
    return out


def unit_subs(case, subscriptions):
    INF = 9223372036854775807
    return [[unit_of_seconds(case, s.subscribe), None if s.unsubscribe >= INF else unit_of_seconds(case, s.unsubscribe)]
            for s in subscriptions]


# ----------------------------------------------------------------------------------- generators
def gen_times(rng, n, d, marks, lo=SUB - 3, hi=420):
    """n non-decreasing times: bursts (gap 0), gaps around the due time d (d-1, d, d+1), snaps to / around the marks."""
    ts = []
    t = rng.choice([lo, SUB, SUB + 1, SUB + 1, SUB + 2, SUB + 5, SUB + 10])
    gaps = [0, 0, 1, 2, max(d - 1, 0), d, d, d + 1, 2 * d, 3, 7]
    for _ in range(n):
        r = rng.random()
        if marks and r < 0.35:
            c = rng.choice(marks) + rng.choice([-1, 0, 0, 1])
            if c >= t:
                t = c
        elif ts or r < 0.8:
            t += rng.choice(gaps)
        t = min(t, hi)
        ts.append(t)
    return ts


def gen_msgs(rng, d, marks, vals=None, nmax=7, malformed=0.12, term_marks=True):
    """A timeline [[t, notif], ...] (absolute times, sorted): elements, then (mostly) one terminal placed at / around the last
    element, a mark, or last + d; with probability `malformed` extra messages after the terminal / before the subscription."""
    vals = vals or VALS
    n = rng.choice([0, 1, 1, 2, 2, 3, 3, 4, 5, nmax])
    ts = gen_times(rng, n, d, marks)
    msgs = [[t, ["N", enc(rng.choice(vals))]] for t in ts]
    last = ts[-1] if ts else SUB + 1
    k = rng.random()
    if k < 0.8:
        cands = [last, last, last + 1, last + d, last + d + 1, last + max(d - 1, 0), last + rng.randrange(0, 25)]
        if term_marks and marks:
            cands += [m for m in marks if m >= last] + [m + 1 for m in marks if m + 1 >= last]
        tt = rng.choice(cands)
        msgs.append([tt, ["C"]] if k < 0.5 else [tt, ["E", f"e{rng.randrange(3)}"]])
        if rng.random() < malformed:
            for _ in range(rng.randrange(1, 3)):
                tt += rng.choice([0, 1, d])
                msgs.append([tt, rng.choice([["N", enc(rng.choice(vals))], ["C"], ["E", "late"]])])
    if rng.random() < malformed:
        msgs = [[SUB - 20, ["N", 9]], [SUB, ["N", 8]]] + msgs
        msgs.sort(key=lambda m: m[0])
    return msgs


def to_cold(msgs):
    """the same timeline relative to the subscription at SUB (messages before SUB are clamped to offset 0)"""
    return [[max(t - SUB, 0), n] for t, n in msgs]


def seen_hot(msgs, sub=SUB):
    """what a subscription at `sub` to a hot observable receives (property-level helper for the oracles)"""
    out = []
    for t, n in msgs:
        if t <= sub:
            continue
        out.append([t, n])
        if n[0] != "N":
            break
    return out


def seen_cold(msgs, sub=SUB):
    out = []
    for t, n in msgs:
        out.append([sub + t, n])
        if n[0] != "N":
            break
    return out


def seen(case, key="msgs", src=None, sub=SUB):
    src = src or case["src"]
    return seen_cold(case[key], sub) if src == "cold" else seen_hot(case[key], sub)


def shrink_msgs(case, key="msgs"):
    m = case[key]
    for i in range(len(m)):
        c = dict(case)
        c[key] = m[:i] + m[i + 1:]
        yield c


# ----------------------------------------------------------------------------------- real code
class Hang(Exception):
    pass


class guard:
    """watchdog for one virtual-time run: a run that spins or blocks (e.g. the datetime-clock spin branch of
    VirtualTimeScheduler.start re-acquiring its lock) is interrupted by SIGALRM and reported as raised 'HANG'"""

    leaks = 0          # actions the code under test put on the real-time TimeoutScheduler during the current run
    hangs = 0          # after a few interrupted runs in one process the remaining ones are cut short (0.3 s) to bound the wall time

    def __init__(self, seconds=6.0):
        # wall-clock limit, stretched with the machine's load (other checks, sweeps and builders share the box): a run that is merely
        # starved of CPU must not be reported as a hang
        import os

        try:
            factor = max(1.0, 3.0 * os.getloadavg()[0] / (os.cpu_count() or 1))
        except OSError:
            factor = 1.0
        self.seconds = (seconds if guard.hangs < 5 else 1.5) * factor

    def __enter__(self):
        import signal
        import threading

        # a timed observable that is not given the subscribe-time scheduler falls back to TimeoutScheduler (threading.Timer,
        # wall clock): replace its Timer by a stub that never fires and is counted, so that nothing real-time can leak into,
        # slow down or outlive the virtual-time run
        import reactivex.scheduler.timeoutscheduler as _ts

        guard.leaks = 0

        class _StubTimer:
            daemon = True

            def __init__(self, *a, **k):
                pass

            def start(self):
                guard.leaks += 1

            def cancel(self):
                pass

        self._ts, self._timer = _ts, _ts.Timer
        _ts.Timer = _StubTimer
        self.on = threading.current_thread() is threading.main_thread()
        if self.on:
            def handler(signum, frame):
                guard.hangs += 1
                raise Hang()

            self.old = signal.signal(signal.SIGALRM, handler)
            signal.setitimer(signal.ITIMER_REAL, self.seconds)
        return self

    def __exit__(self, *exc):
        import signal

        self._ts.Timer = self._timer
        if self.on:
            signal.setitimer(signal.ITIMER_REAL, 0)
            signal.signal(signal.SIGALRM, self.old)
        return False


def sk(case, sched):
    """keyword arguments for an operator that takes a scheduler: with "opsched" the operator gets the scheduler of the timeline
    explicitly while the subscription is made with a DIFFERENT scheduler: the operator-level one has to win"""
    return {"scheduler": sched} if case.get("opsched") else {}


def other_scheduler(case, hist=False):
    """the subscribe-level scheduler of an "opsched" case: a second virtual-time scheduler that is never started (a timer armed
    on it never fires); ImmediateScheduler where the case wants inner empty() observables to complete inline"""
    if case.get("inline"):
        from reactivex.scheduler import ImmediateScheduler

        return ImmediateScheduler.singleton()
    if hist:
        from reactivex.scheduler import HistoricalScheduler

        return HistoricalScheduler()
    from reactivex.testing import TestScheduler

    return TestScheduler()


def bare(obs):
    """the same observable as a minimal implementation of the public abc.ObservableBase (not derived from Observable)"""
    from reactivex import abc

    class Bare(abc.ObservableBase):
        def __init__(self, inner):
            self._inner = inner

        def subscribe(self, on_next=None, on_error=None, on_completed=None, *, scheduler=None):
            return self._inner.subscribe(on_next, on_error, on_completed, scheduler=scheduler)

    return Bare(obs)


def maybe_bare(case, obs):
    return bare(obs) if case.get("bare") and obs is not None else obs


def recorded(msgs):
    from reactivex.testing import ReactiveTest

    out = []
    for t, n in msgs:
        if n[0] == "N":
            out.append(ReactiveTest.on_next(t, fw.dec(n[1])))
        elif n[0] == "C":
            out.append(ReactiveTest.on_completed(t))
        else:
            out.append(ReactiveTest.on_error(t, InjectedError(n[1])))
    return out


def mk_source(sched, kind, msgs):
    r = recorded(msgs)
    return sched.create_cold_observable(r) if kind == "cold" else sched.create_hot_observable(r)


def _run_test_once(case, build, sources, subs_at, no_sched=False):
    """one TestScheduler experiment: the observable is created at 100 and subscribed at every time in `subs_at` (the SAME
    observable instance for all of them), everything disposed at 1000.  Mirrors TestScheduler.start (same scheduling order:
    hot sources first, then create / subscribe / dispose actions)."""
    from reactivex.scheduler import VirtualTimeScheduler
    from reactivex.testing import TestScheduler

    sched = TestScheduler()
    srcs = []
    for key in sources:
        spec = case if key == "msgs" else case.get(key)
        if spec is None:
            srcs.append(None)
        elif key == "msgs":
            srcs.append(mk_source(sched, case["src"], case["msgs"]))
        else:
            srcs.append(mk_source(sched, spec["src"], spec["msgs"]))
    box = {}
    observers = [sched.create_observer() for _ in subs_at]
    disps = []
    echo_at = set(case.get("echo") or [])
    if echo_at:
        # re-entrant feedback: when the consumer receives its k-th element (k in case["echo"], echoes themselves excepted) it
        # pushes ("echo", k) into the (hot) source synchronously, from inside on_next
        base = observers[0]
        count = [0]

        class Feedback:
            messages = base.messages

            def on_next(self, v):
                k = count[0]
                count[0] += 1
                base.on_next(v)
                if k in echo_at and not (isinstance(v, tuple) and v[:1] == ("echo",)):
                    for o in srcs[0].observers[:]:
                        o.on_next(("echo", k))

            def on_error(self, e):
                base.on_error(e)

            def on_completed(self):
                base.on_completed()

        fb = Feedback()
    else:
        fb = None

    sub_sched = other_scheduler(case) if case.get("opsched") else sched

    def do_create(s, st):
        box["o"] = build(sched, srcs[0], *[maybe_bare(case, x) for x in srcs[1:]])

    def mk_sub(obs):
        def act(s, st):
            if no_sched:
                disps.append(box["o"].subscribe(obs))
            elif fb is not None and obs is observers[0]:
                disps.append(box["o"].subscribe(fb.on_next, fb.on_error, fb.on_completed, scheduler=sub_sched))
            else:
                disps.append(box["o"].subscribe(obs, scheduler=sub_sched))
        return act

    def do_dispose(s, st):
        for d in disps:
            d.dispose()

    sched.schedule_absolute(100, do_create)
    for t, obs in zip(subs_at, observers):
        sched.schedule_absolute(t, mk_sub(obs))
    sched.schedule_absolute(STOP, do_dispose)
    try:
        with guard():
            VirtualTimeScheduler.start(sched)
    except Hang:
        return {"raised": "HANG"}
    except InjectedError as e:
        return {"raised": e.name}
    except Exception as e:  # noqa
        return {"raised": type(e).__name__}
    return {"outs": [unit_messages(case, o.messages) for o in observers], "leaks": guard.leaks,
            "subs": [unit_subs(case, s.subscriptions) if s is not None else None for s in srcs]}


def run_test(case, build, sources=("msgs",), no_sched=False):
    """TestScheduler run: `build(sched, *sources)` returns the observable under test; subscribed at 200, disposed at 1000.
    With case["sub2"] the same observable instance is subscribed a second time at that instant ("out2"), and "solo2" is what
    a fresh observable subscribed only once, at sub2, delivers (the per-subscription reference).
    Returns {"out", "subs"[, "out2", "solo2"]} or {"raised": name}."""
    t2 = case.get("sub2")
    r = _run_test_once(case, build, sources, [SUB] + ([t2] if t2 is not None else []), no_sched)
    if "raised" in r:
        return r
    res = {"out": r["outs"][0], "subs": r["subs"]}
    if r.get("leaks"):
        res["leaks"] = r["leaks"]
    if t2 is not None:
        res["out2"] = r["outs"][1]
        solo = _run_test_once(case, build, sources, [t2], no_sched)
        res["solo2"] = solo["outs"][0] if "outs" in solo else solo
    return res


def out_of(io):
    if isinstance(io, dict) and "out2" in io:
        return {"out": io["out"], "out2": io["out2"]}
    return io["out"] if isinstance(io, dict) and "out" in io else io


def leak_oracle(case, io):
    """the subscribe-time scheduler must reach every inner subscription: nothing may be scheduled on the real-time default"""
    if isinstance(io, dict) and io.get("leaks"):
        return (f"{case['op']}: {io['leaks']} action(s) were scheduled on the real-time TimeoutScheduler instead of the scheduler "
                f"given at subscribe time; output {io.get('out')}")
    return None


def second_sub_oracle(case, io):
    """per-subscription state: a second (possibly overlapping) subscription of the same observable instance must get what a
    fresh observable subscribed alone at that instant gets"""
    if "out2" in io and fw.key(io["out2"]) != fw.key(io["solo2"]):
        return (f"{case['op']}: second subscription at {case['sub2']} of the same observable got {io['out2']}, a fresh observable "
                f"subscribed alone at that instant gets {io['solo2']}")
    return None


def gen_sub2(rng, msgs, p=0.25):
    """instant of an optional second subscription: overlapping the first (between / at element times) or after it"""
    if rng.random() >= p:
        return None
    ts = [t for t, _ in msgs]
    return rng.choice([SUB + 3, SUB + 10, SUB + 30] + [t for t in ts if t > SUB] + [t + 1 for t in ts if t >= SUB] + [max(ts + [SUB]) + 40])


def model_out(case, resp, check_spec=True):
    """driver response {"run":…, "spec":…}: the run is what is compared with the real code; run ≠ spec on a generated
    (sorted) timeline would contradict the theorem and is turned into a mismatch."""
    if isinstance(resp, dict) and "run" in resp:
        if check_spec and "spec" in resp and fw.key(resp["run"]) != fw.key(resp["spec"]):
            return {"model run and spec differ": resp}
        if "sim" in resp and fw.key(resp["run"]) != fw.key(resp["sim"]):
            return {"two-stream run and scheduler simulation differ": resp}
        if "sim2" in resp and fw.key(resp["run2"]) != fw.key(resp["sim2"]):
            return {"two-stream run and scheduler simulation differ (second subscription)": resp}
        if "run2" in resp:
            if check_spec and fw.key(resp["run2"]) != fw.key(resp["spec2"]):
                return {"model run and spec differ (second subscription)": resp}
            return {"out": resp["run"], "out2": resp["run2"]}
        return resp["run"]
    return resp


def kinds(msgs):
    return "".join(n[0] for _, n in msgs)


def shape(case, io):
    """coarse histogram labels"""
    m = case["msgs"]
    term = next((n[0] for _, n in m if n[0] != "N"), "-")
    yield f"{case['op']}:{case['src']}:term={term}"
    yield f"{case['op']}:n={min(sum(1 for _, n in m if n[0] == 'N'), 5)}"


def _run_hist_once(case, build, subs_at):
    from reactivex.notification import OnCompleted, OnError, OnNext
    from reactivex.scheduler import HistoricalScheduler
    from reactivex.testing.coldobservable import ColdObservable
    from reactivex.testing.hotobservable import HotObservable
    from reactivex.testing.recorded import Recorded

    sched = HistoricalScheduler()
    cold = case["src"] == "cold"

    def note(n):
        if n[0] == "N":
            return OnNext(fw.dec(n[1]))
        if n[0] == "C":
            return OnCompleted()
        return OnError(InjectedError(n[1]))

    recs = [Recorded(real_dur(case, t, hist=True) if cold else abs_dt(case, t), note(n)) for t, n in case["msgs"]]
    xs = (ColdObservable if cold else HotObservable)(sched, recs)
    outs = [[] for _ in subs_at]
    box = {}
    disps = []

    def secs():
        return unit_of_dt(case, sched.now)

    def do_create(s, st):
        box["o"] = build(sched, xs)

    sub_sched = other_scheduler(case, hist=True) if case.get("opsched") else sched

    def mk_sub(out):
        def act(s, st):
            disps.append(box["o"].subscribe(lambda v: out.append([secs(), ["N", enc(v)]]),
                                            lambda e: out.append([secs(), ["E", fw.err_name(e)]]),
                                            lambda: out.append([secs(), ["C"]]), scheduler=sub_sched))
        return act

    def do_dispose(s, st):
        for d in disps:
            d.dispose()

    sched.schedule_absolute(abs_dt(case, SUB) - timedelta(seconds=100), do_create)
    for t, out in zip(subs_at, outs):
        sched.schedule_absolute(abs_dt(case, t), mk_sub(out))
    sched.schedule_absolute(abs_dt(case, SUB) + timedelta(seconds=STOP - SUB), do_dispose)
    try:
        with guard():
            sched.start()
    except Hang:
        return {"raised": "HANG"}
    except InjectedError as e:
        return {"raised": e.name}
    except Exception as e:  # noqa
        return {"raised": type(e).__name__}

    def sec(x):
        if isinstance(x, (int, float)):
            # ColdObservable records its unsubscription as int(seconds since the epoch)
            return None if x >= 9223372036854775807 else unit_of_dt(case, utc(x))
        return unit_of_dt(case, x)

    return {"outs": outs, "subs": [[[sec(s.subscribe), sec(s.unsubscribe)] for s in xs.subscriptions]]}


def run_hist(case, build):
    """The same experiment on HistoricalScheduler (datetime clock, tick = 1 s): hot/cold test observable over the datetime
    scheduler, created at 100 s, subscribed at 200 s (and again at case["sub2"]), disposed at 1000 s; times in whole seconds."""
    t2 = case.get("sub2")
    r = _run_hist_once(case, build, [SUB] + ([t2] if t2 is not None else []))
    if "raised" in r:
        return r
    res = {"out": r["outs"][0], "subs": r["subs"]}
    if t2 is not None:
        res["out2"] = r["outs"][1]
        solo = _run_hist_once(case, build, [t2])
        res["solo2"] = solo["outs"][0] if "outs" in solo else solo
    return res


# ----------------------------------------------------------------------------------- *_with_mapper helpers
def gen_inner(rng, d):
    """timeline (relative times) of an observable returned by a mapper: first signal next / completed / error / never"""
    r = rng.choice([0, 0, 1, max(d - 1, 0), d, d, d + 1, 2 * d])
    k = rng.random()
    if k < 0.40:
        tl = [[r, ["N", 0]]]
        if rng.random() < 0.5:
            tl.append([r + rng.choice([0, 3]), rng.choice([["N", 1], ["C"], ["E", "lateInnerErr"]])])
        return tl
    if k < 0.65:
        return [[r, ["C"]]]
    if k < 0.78:
        return [[r, ["E", "innerErr"]]]
    if k < 0.88:
        return []
    return [[r, ["N", 0]], [r, ["N", 1]], [r + 2, ["C"]]]


INLINE = {"B": [["N", 0]], "CS": [["C"]], "EI": [["C"]], "ES": [["E", "inlineErr"]], "RI": [["N", 0], ["C"]]}
# "RI" = return_value() on ImmediateScheduler: emits AND completes inside subscribe.  On the current tree delay_with_mapper then
# delivers the element twice (fixes/C15_delay_with_mapper_inline_twice.patch; the model ignores the second signal).  Generated
# only once that fix is in /repo: set to True then.
GEN_INLINE_BOTH = True


def gen_inners(rng, d, inline=0.2):
    """timelines of the observables a mapper returns; with probability `inline` one that signals synchronously inside
    subscribe: {"inline": "B"} BehaviorSubject (element), "CS" already-completed Subject, "EI" empty() on ImmediateScheduler,
    "ES" already-failed Subject"""
    kinds = ["B", "B", "CS", "EI", "ES"] + (["RI", "RI"] if GEN_INLINE_BOTH else [])

    def one():
        r = rng.random()
        if r < inline:
            return {"inline": rng.choice(kinds)}
        if r < inline + 0.2:
            # reactivex.timer(d) WITHOUT a scheduler argument: must run on the scheduler given at subscribe time
            return {"timer": rng.choice([0, 1, max(d - 1, 0), d, d, d + 1, 2 * d])}
        return gen_inner(rng, d)

    return [one() for _ in range(rng.choice([1, 2, 3, 3]))]


def inner_timeline(tl):
    """the signals of a scheduled (non-inline) mapper observable, relative to its subscription"""
    if isinstance(tl, dict):
        return [[tl["timer"], ["N", 0]], [tl["timer"], ["C"]]]
    return conform(tl)


def is_inline(tl):
    return isinstance(tl, dict) and "inline" in tl


def mapper_observable(sched, tl):
    import reactivex

    if isinstance(tl, dict) and "timer" in tl:
        return reactivex.timer(tl["timer"])
    return sched.create_cold_observable(recorded(tl)) if tl else reactivex.never()


def inner_of(inners, k):
    return inners[k % len(inners)] if inners else []


def make_mapper(sched, case, off=0):
    """the user's mapper: the k-th call returns a cold observable with timeline inners[(k+off) % n] (never() if empty) or
    raises InjectedError('mapErr') when k == raise_at"""
    import reactivex

    calls = [0]

    def mapper(x):
        k = calls[0]
        calls[0] += 1
        if case.get("raise_at") is not None and k == case["raise_at"]:
            raise InjectedError("mapErr")
        tl = inner_of(case["inners"], k + off)
        if is_inline(tl):
            from reactivex.scheduler import ImmediateScheduler
            from reactivex.subject import BehaviorSubject, Subject

            kind = tl["inline"]
            if kind == "B":
                return BehaviorSubject(0)
            if kind == "EI":
                return reactivex.empty(scheduler=ImmediateScheduler.singleton())
            if kind == "RI":
                return reactivex.return_value(0, scheduler=ImmediateScheduler.singleton())
            sj = Subject()
            if kind == "CS":
                sj.on_completed()
            else:
                sj.on_error(InjectedError("inlineErr"))
            return sj
        return mapper_observable(sched, tl)

    return mapper


def conform(tl):
    out = []
    for t, n in tl:
        out.append([t, n])
        if n[0] != "N":
            break
    return out


def merged_events(streams):
    """streams in the order in which their messages were scheduled; stable sort by time = the (due, seq) order"""
    ev = [e for s in streams for e in s]
    return sorted(ev, key=lambda e: e[0])          # list.sort is stable


def elem_streams(src_seen, inners, off=0):
    """for every source element (ordinal k, arriving at t) the events of its inner observable (index k+off), if that is a
    scheduled (cold) observable; inline ones are part of `src_stream`"""
    out = []
    k = 0
    for t, n in src_seen:
        if n[0] == "N":
            tl = inner_of(inners, k + off)
            if not is_inline(tl):
                out.append([[t + r, ("inner", k + off, m)] for r, m in inner_timeline(tl)])
            k += 1
    return out


def src_stream(src_seen, inners, off=0):
    """the source's events; an inner observable that signals synchronously inside subscribe does so right after the
    element it was created for (before anything else queued for that instant)"""
    out = []
    k = 0
    for t, n in src_seen:
        out.append([t, ("src", n)])
        if n[0] == "N":
            tl = inner_of(inners, k + off)
            if is_inline(tl):
                out += [[t, ("inner", k + off, m)] for m in INLINE[tl["inline"]]]
            k += 1
    return out

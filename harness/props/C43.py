"""C43 — combinators serialize concurrently emitting sources (DESIGN.md §5 C43).

Three parts:
  regenerate()  dynamic translator: runs every listed combinator single-threaded with instrumented locks
                over all short tagged event sequences and writes lean/RxGen/Locks.lean — one row per handler
                path (source × notification kind × control path) with the lock roles held at every
                downstream call and every state write.  `C43.locks_table_ok` (by `decide`) fails to build
                when a path is unlocked.
  cases()/impl  single schedules of real threads under the interleaving controller; the observed lock /
                call / enter / exit events are replayed in the Lean interleaving model (`lock_replay`) and
                must be reproduced step for step; the concurrent downstream output must equal the
                single-threaded output of the real operator in lock-acquisition order.
  extra()       the search: ENUMERATION of all schedules with <= 2 (quick) / 3 (thorough) preemptions over
                all yield points and start orders for fixed and generated scenarios, property oracle only
                (no two threads inside the downstream observer; next* terminal? at the subscriber).
"""
from __future__ import annotations

import hashlib
import json
import os
import time
from pathlib import Path

import fw
from sched import thr2_comb as C
from sched import thr2_ctl as tc

LEAN_TARGETS = ["RxProofs.C43"]
DRIVER = "drv_thr2"
DRIVER_ROOT = "Thr2"
THEOREMS = [
    "C43.guarded_terminal_final",
    "C43.merge_all_grammar",
    "C43.amb_n_serial",
    "C43.locked_calls_exclusive",
    "C43.locked_paths_serialize",
    "C43.serialized_grammar",
    "C43.amb_serial",
    "C43.unlocked_call_overlaps",
    "C43.unlocked_call_breaks_grammar",
    "C43.locks_table_ok",
]
RULE = ("correspondence: scenarios = combinator x one short script per source thread (generated, ending in "
        "completion/error/nothing) x schedule (start thread + <=3 preemptions at generated yield points); each is run "
        "on the real operator with real threads under the deterministic controller and replayed in the Lean "
        "interleaving model; non-trivial = at least one preemption actually switched threads inside a handler "
        "or two threads contended for the operator lock; distinct by canonical JSON of the scenario+schedule. "
        "search (coverage.search_*): exhaustive enumeration of all schedules with <=2 (quick) / <=3 (thorough, "
        "strided) preemptions over all yield points and start orders per scenario.")
ASSUMPTIONS = [
    "each source emits serially (one thread per source), as the property states",
    "atomicity: a line of Python inside reactivex/ is the preemption granularity explored; the Lean model's atomic steps "
    "are lock acquire/release, one handler step, and the three steps of an AutoDetachObserver call",
    "window contents oracle: the k-th timer the operator creates belongs to its k-th window (true of the code as written)",
    "subscription of the combinator itself is not concurrent with emissions (rows of kind S in the lock table are not "
    "required to be locked)",
    "operations on self-synchronised disposable containers (CompositeDisposable.add/remove/len) are atomic and may "
    "happen outside the operator lock (merge_all's outer on_next, as in Rx.NET)",
]
TRUSTED_EXTRA = ["thread-interleaving controller harness/sched/thr2_ctl.py (search tool and trace recorder)",
                 "dynamic lock-table translator (props/C43.py regenerate + sched/thr2_comb.py run_paths/write_lines)"]
LEVEL_TEXT = ("Lean theorems over an atomic-step interleaving model (any number of threads, any schedule, resumable "
              "state-dependent handler programs mixing locked blocks, atomic steps outside the lock and unlocked calls): if "
              "every downstream call is made under one lock no two threads are ever inside the downstream observer and the "
              "subscriber sees next* terminal? (the AutoDetachObserver's check-then-set is modelled as separate steps); if in "
              "addition every state step is under the lock the run equals the sequential run of the handlers in "
              "lock-acquisition order; guarded finality (`guarded_terminal_final`) for programs with atomic steps outside "
              "the lock, instantiated for merge_all/flat_map (`merge_all_grammar`: group.add outside the lock, hot inners with "
              "terminal replay at subscription: exclusion, grammar at the subscriber, and at operator level on_completed at "
              "most once, last, only when the outer completed and the group is empty); binary amb and n-ary amb (fold, one "
              "lock and choice cell per stage) proved without a lock on the call; the regenerated lock table of the real "
              "combinators is checked by decide. Tied to the code by the dynamic lock table, by step-for-step replay of real "
              "controlled-thread runs in the model, by the merge_all model run handler-by-handler against the real "
              "merge_all/flat_map, and by an enumerative <=k-preemption search with the property oracle.")
LEVEL_NOTE = ("Raw operator-level next*terminal? does not hold for these combinators even sequentially (merge forwards every "
              "inner error, zip may call on_completed twice; they rely on the downstream AutoDetachObserver), so grammar is "
              "claimed at the subscriber (all combinators) and, at operator level, as `serialized_grammar` relative to the "
              "sequential handler (fully locked combinators) and as finality of on_completed for merge_all/flat_map. "
              "window_with_count has a single source and no timer: the table check is 'only source 0 drives it'. "
              "buffer_with_time is covered as window_with_time + flat_map (table + search). Window operators: the timer "
              "thread is modelled as one more thread. Subscription of a combinator is assumed not to race with emissions.")
TECHNIQUE = "Lean 4 invariants over an atomic-step interleaving model; dynamic lock-table translator; controlled real threads"

PROCS = None
GEN = fw.LEAN / "RxGen" / "Locks.lean"

COMB_LEAN = {"merge": "merge", "merge_all": "mergeAll", "merge_maxc": "mergeMaxc", "flat_map": "flatMap", "zip": "zip",
             "combine_latest": "combineLatest", "with_latest_from": "withLatestFrom", "amb": "amb",
             "window_time": "windowTime", "window_toc": "windowToc", "window_count": "windowCount",
             "buffer_time": "bufferTime"}


# =============================================================================== translator
def _role_code(r):
    if r == "OP":
        return 1
    if r.startswith("S"):
        return 10 + int(r[1:])
    if r.startswith("OBS"):
        return 100 + int(r[3:])
    return 999


def _alphabet(op):
    if op in C.HIGHER:
        return [(0, ["I", 0]), (0, ["I", 1]), (0, ["J"]), (0, ["E", "x"]), (0, ["C"]),
                (1, ["N", 1]), (1, ["E", "y"]), (1, ["C"]), (2, ["N", 2]), (2, ["E", "z"]), (2, ["C"])]
    if op in C.NO_TIMER:
        return [(0, ["N", 1]), (0, ["E", "x"]), (0, ["C"])]
    if op in C.WINDOW:
        return [(0, ["N", 1]), (0, ["E", "x"]), (0, ["C"]), (1, ["T"])]
    return [(k, it) for k in (0, 1) for it in (["N", k + 1], ["E", "x"], ["C"])]


def _valid(op, seq):
    """per-source conformance (nothing after a source's terminal; inner k only after it was emitted)."""
    done = set()
    emitted = set()
    for k, it in seq:
        if k in done:
            return False
        if op in C.HIGHER:
            if k == 0 and it[0] == "I":
                if it[1] in emitted:
                    return False
                emitted.add(it[1])
            if k > 0 and (k - 1) not in emitted:
                return False
        if it[0] in ("E", "C"):
            done.add(k)
    return True


def _sequences(op, maxlen):
    alpha = _alphabet(op)
    out = [[]]
    frontier = [[]]
    for _ in range(maxlen):
        nxt = []
        for s in frontier:
            for a in alpha:
                s2 = s + [a]
                if _valid(op, s2):
                    nxt.append(s2)
        out += nxt
        frontier = nxt
    return out


def _tree_hash():
    h = hashlib.sha1()
    for p in sorted((fw.REPO / "reactivex").rglob("*.py")):
        if "mainloop" in str(p):
            continue
        h.update(str(p.relative_to(fw.REPO)).encode())
        h.update(p.read_bytes())
    for p in (Path(__file__), Path(C.__file__), Path(tc.__file__)):
        h.update(p.read_bytes())
    return h.hexdigest()[:16]


def collect_rows():
    """rows[(op, src, kind)] -> {path signature: (calls, writes, tsafe, guard)}"""
    rows = {}
    nseq = 0
    for op in C.OPS:
        maxlen = 3 if op in C.HIGHER else 4
        params = [None]
        if op == "window_time":
            params = [None, {"shift": 0.5}]
        if op == "merge_maxc":
            params = [{"maxc": 1}, {"maxc": 2}]
        for par in params:
            for seq in _sequences(op, maxlen):
                if not seq and par is not params[0]:
                    continue
                nseq += 1
                res = C.run_paths(op, seq, fw.REPO, par)
                for (k, kind, lines, calls, writes) in res:
                    if kind == "S" and seq:
                        continue  # subscription path recorded once (empty sequence)
                    key = (op, 99 if k < 0 else k, "I" if kind == "J" else kind)
                    sig = tuple(sorted(set(lines)))
                    ent = (tuple((c[0], tuple(_role_code(r) for r in c[1])) for c in calls),
                           tuple((w[0], tuple(_role_code(r) for r in w[3])) for w in writes if w[2] == "plain"),
                           sum(1 for w in writes if w[2] == "tsafe"),
                           tuple((c[2][0] == "R", c[2][1]) for c in calls if c[2] is not None))
                    rows.setdefault(key, set()).add((sig, ent))
    return rows, nseq


def _lean_list(xs):
    return "[" + ", ".join(xs) + "]"


def render(rows, nseq, tag):
    L = ["import RxModel.Thr2Table",
         "/-! GENERATED by harness/props/C43.py `regenerate()` from the working tree of the repository — do not edit.",
         f"    tree/translator hash: {tag}; {nseq} single-threaded instrumented runs. -/",
         "namespace RxGen.Locks", "open Thr2", "", "def table : List Row := ["]
    items = []
    n_unlocked = 0
    for key in sorted(rows):
        op, src, kind = key
        for cls, (sig, ent) in enumerate(sorted(rows[key], key=lambda kv: (kv[0], str(kv[1])))):
            calls, writes, tsafe, guard = ent
            if kind != "S" and op not in ("amb", "window_count") and any(len(c[1]) == 0 for c in calls + writes):
                n_unlocked += 1
            cs = _lean_list([f"(K.{c[0]}, {_lean_list([str(r) for r in c[1]])})" for c in calls])
            ws = _lean_list([f"({w[0]}, {_lean_list([str(r) for r in w[1]])})" for w in writes])
            gs = _lean_list([f"({'true' if g[0] else 'false'}, "
                             + ("none" if g[1] is None else f"some {'true' if g[1] == 'R' else 'false'}") + ")"
                             for g in guard])
            items.append(f"  {{ op := .{COMB_LEAN[op]}, src := {src}, kind := .{kind}, cls := {cls}, calls := {cs}, "
                         f"writes := {ws}, tsafe := {tsafe}, guard := {gs} }}")
    L.append(",\n".join(items))
    L += ["]", "", "end RxGen.Locks", ""]
    return "\n".join(L), len(items), n_unlocked


def regenerate():
    tag = _tree_hash()
    if GEN.exists():
        head = GEN.read_text()[:600]
        if f"hash: {tag};" in head:
            return {"locks_table": "cached", "hash": tag}
    t0 = time.time()
    rows, nseq = collect_rows()
    text, nrows, n_unlocked = render(rows, nseq, tag)
    if not GEN.exists() or GEN.read_text() != text:
        GEN.write_text(text)
    return {"locks_table_rows": nrows, "instrumented_runs": nseq, "rows_with_unlocked_call_or_write": n_unlocked,
            "hash": tag, "seconds": round(time.time() - t0, 1)}


# =============================================================================== scenarios
VAL = {0: [1, 2, 3], 1: [10, 20, 30], 2: [100, 200, 300]}


def gen_script(rng, k, maxlen=2, terminal=None):
    n = rng.randrange(0, maxlen + 1)
    s = [["N", VAL[k][i]] for i in range(n)]
    t = terminal if terminal is not None else rng.choice(["C", "E", "E", "C", None])
    if t == "C":
        s.append(["C"])
    elif t == "E":
        s.append(["E", f"e{k}"])
    if not s:
        s.append(["N", VAL[k][0]])
    return s


def gen_scenario(rng, op=None, nthreads=None):
    op = op or rng.choice(C.OPS)
    if op in C.NO_TIMER:
        return {"op": op, "scripts": [gen_script(rng, 0, 3)], "params": {"count": 2, "skip": rng.choice([None, 1, 3])}}
    if op in C.WINDOW:
        params = {"shift": 0.5} if (op == "window_time" and rng.random() < 0.3) else None
        sc = {"op": op, "scripts": [gen_script(rng, 0, 2), [["T"]] * rng.choice([1, 1, 2])]}
        if params:
            sc["params"] = params
        return sc
    if op in C.HIGHER:
        n = nthreads or rng.choice([2, 2, 3])
        outer = [["I", i] for i in range(n - 1)]
        if rng.random() < 0.25:
            outer.insert(rng.randrange(len(outer) + 1), ["J"])
        t = rng.choice(["C", "E", "E", None])
        if t == "C":
            outer.append(["C"])
        elif t == "E":
            outer.append(["E", "eo"])
        sc = {"op": op, "scripts": [outer] + [gen_script(rng, k, 2) for k in range(1, n)]}
        if op == "merge_maxc":
            sc["params"] = {"maxc": rng.choice([1, 1, 2])}
        return sc
    n = nthreads or (2 if op in ("amb",) else rng.choice([2, 2, 3]))
    return {"op": op, "scripts": [gen_script(rng, k, 2) for k in range(n)]}


FIXED = [
    {"op": "zip", "scripts": [[["N", 1], ["N", 2]], [["N", 10], ["E", "x"]]]},
    {"op": "zip", "scripts": [[["N", 1], ["C"]], [["N", 10], ["N", 20], ["C"]]]},
    {"op": "combine_latest", "scripts": [[["N", 1], ["N", 2]], [["N", 10], ["E", "x"]]]},
    {"op": "combine_latest", "scripts": [[["N", 1], ["C"]], [["N", 10], ["C"]]]},
    {"op": "with_latest_from", "scripts": [[["N", 1], ["N", 2], ["C"]], [["N", 10], ["E", "x"]]]},
    {"op": "with_latest_from", "scripts": [[["N", 1], ["E", "p"]], [["N", 10], ["N", 20]]]},
    {"op": "amb", "scripts": [[["N", 1], ["N", 2], ["C"]], [["N", 10], ["E", "x"]]]},
    {"op": "merge", "scripts": [[["N", 1], ["N", 2], ["C"]], [["N", 10], ["E", "x"]]]},
    {"op": "merge_all", "scripts": [[["I", 0], ["E", "y"]], [["N", 1], ["C"]]]},
    {"op": "merge_all", "scripts": [[["I", 0], ["C"]], [["N", 1], ["C"]]]},
    {"op": "merge_maxc", "scripts": [[["I", 0], ["E", "y"]], [["N", 1], ["C"]]], "params": {"maxc": 1}},
    {"op": "merge_maxc", "scripts": [[["I", 0], ["C"]], [["N", 1], ["C"]]], "params": {"maxc": 1}},
    {"op": "flat_map", "scripts": [[["I", 0], ["E", "y"]], [["N", 1], ["C"]]]},
    {"op": "window_time", "scripts": [[["N", 1], ["E", "x"]], [["T"]]]},
    {"op": "window_toc", "scripts": [[["N", 1], ["N", 2], ["C"]], [["T"]]]},
    {"op": "window_toc", "scripts": [[["N", 1], ["N", 2], ["N", 3], ["C"]], [["T"]]], "params": {"count": 2}},
    {"op": "window_toc", "scripts": [[["N", 1], ["N", 2], ["N", 3]], [["T"], ["T"]]], "params": {"count": 2}},
    {"op": "window_count", "scripts": [[["N", 1], ["N", 2], ["N", 3], ["C"]]], "params": {"count": 2, "skip": 1}},
]
# subscription on its own thread, racing the operator's timer thread (calls made from subscribe() itself)
FIXED_SUB = [
    {"op": "window_time", "scripts": [[["N", 1], ["C"]], [["T"]]], "sub_thread": True},
    {"op": "window_toc", "scripts": [[["N", 1], ["C"]], [["T"]]], "sub_thread": True},
    {"op": "buffer_time", "scripts": [[["N", 1], ["C"]], [["T"]]], "sub_thread": True},
    {"op": "buffer_time", "scripts": [[["N", 1], ["E", "x"]], [["T"]]]},
]
FIXED3 = [
    {"op": "zip", "scripts": [[["N", 1]], [["N", 10], ["E", "x"]], [["N", 100], ["C"]]]},
    {"op": "merge_all", "scripts": [[["I", 0], ["I", 1], ["C"]], [["N", 1], ["C"]], [["N", 2], ["E", "z"]]]},
    {"op": "merge_maxc", "scripts": [[["I", 0], ["I", 1], ["C"]], [["N", 1], ["C"]], [["N", 2], ["E", "z"]]],
     "params": {"maxc": 1}},
    {"op": "amb", "scripts": [[["N", 1], ["C"]], [["N", 10], ["E", "x"]], [["N", 100]]]},
]


# =============================================================================== one schedule on the real code
def _op_role(log):
    cnt = {}
    for e in log:
        if len(e) == 4 and e[1] == "acq" and e[3] == "op":
            cnt[e[2]] = cnt.get(e[2], 0) + 1
    return max(cnt, key=cnt.get) if cnt else None


def project(log, nthreads):
    """observed events of the run -> per-thread op lists + schedule for the Lean model (`lock_replay`).
    The setup (main) thread is thread index `nthreads`."""
    role = _op_role(log)
    progs = [[] for _ in range(nthreads + 1)]
    sched, labels = [], []
    for e in log:
        t = e[0] if isinstance(e[0], int) and e[0] >= 0 else nthreads
        if len(e) == 4 and e[1] == "acq" and e[2] == role:
            progs[t].append("acq"); sched.append(t); labels.append("acq")
        elif len(e) == 3 and e[1] == "rel" and e[2] == role:
            progs[t].append("rel"); sched.append(t); labels.append("rel")
        elif len(e) == 3 and e[1] == "call":
            progs[t].append(["call", e[2]]); sched.append(t); labels.append("call")
        elif len(e) >= 4 and e[1] == "enter" and e[2] == "out":
            sched.append(t); labels.append("enter")
        elif len(e) == 3 and e[1] == "exit" and e[2] == "out":
            sched.append(t); labels.append("exit")
    return progs, sched, labels, role


_CACHE = {}


def _run(case):
    k = fw.key(case)
    if k not in _CACHE:
        if len(_CACHE) > 4000:
            _CACHE.clear()
        r = C.run_threads(case)
        if r["outcome"] == "hang":  # a loaded machine can starve a run: confirm before calling it a hang
            r = C.run_threads(case, wall=40.0)
        _CACHE[k] = r
    return _CACHE[k]


# combinators whose handlers are single locked blocks and that subscribe their sources once, at subscription
# time: for these the concurrent output must equal the sequential output in lock-acquisition order
SERIAL_OPS = ("zip", "combine_latest", "with_latest_from", "window_time", "window_toc", "window_count")


def _to_items(outer, inners):
    o = [["I", e[1]] if e[0] == "I" else (["E", "eo"] if e[0] == "E" else ["C"]) for e in outer]
    ins = [[["N", 1] if k == "N" else (["E", "ei"] if k == "E" else ["C"]) for k in seq] for seq in inners]
    return o, ins


def _until_terminal(seq):
    out = []
    for k in seq:
        out.append(k)
        if k in ("E", "C"):
            break
    return out


def impl(case):
    if case.get("type") == "merge_seq":
        o, ins = _to_items(case["outer"], case["inners"])
        calls, delivered = C.run_seq_calls(case["op"], case["order"], o, ins)
        return {"calls": calls, "delivered": delivered}
    r = _run(case)
    log = r["log"]
    n = len(case["scripts"])
    progs, sched, labels, role = project(log, n)
    out_log = [e for e in log if not (len(e) >= 3 and e[1] in ("enter", "exit") and e[2] != "out")]
    delivered = [e[3] for e in log if len(e) >= 4 and e[1] == "enter" and e[2] == "out"]
    acq = [(e[0] if e[0] >= 0 else n) for e in log if len(e) == 4 and e[1] == "acq" and e[2] == role]
    # max number of threads inside the OUTER observer's callbacks (what the model counts)
    act, mx = {}, 0
    for e in out_log:
        if len(e) >= 4 and e[1] == "enter":
            act[e[0]] = act.get(e[0], 0) + 1
            mx = max(mx, sum(1 for c in act.values() if c > 0))
        elif len(e) == 3 and e[1] == "exit":
            act[e[0]] -= 1
    seq_equal = None
    if case["op"] in SERIAL_OPS and r["outcome"] == "ok":
        order = C.linearisation(log, n)
        seq = C.run_sequential(case, order, r.get("fired", ()))
        seq_equal = (seq == C.downstream(log))
    return {"outcome": r["outcome"], "excs": r["excs"], "steps": r["steps"], "preempted": r["preempted"],
            "labels": labels, "delivered": delivered, "max_active": mx, "acq": acq,
            "overlap": C.overlap_of(log), "grammar": C.grammar_of(log), "seq_equal": seq_equal,
            "windows": C.window_contents_of(case, r) if (case["op"] in ("window_toc", "window_time") and r["outcome"] == "ok") else None,
            "contended": _contended(log, role)}


def _contended(log, role):
    """some thread other than the holder ran while the operator lock was held"""
    owner = None
    for e in log:
        if len(e) == 4 and e[1] == "acq" and e[2] == role:
            owner = e[0]
        elif len(e) == 3 and e[1] == "rel" and e[2] == role:
            owner = None
        elif owner is not None and isinstance(e[0], int) and e[0] != owner:
            return True
    return False


def model_request(case):
    if case.get("type") == "merge_seq":
        return {"op": "merge_seq", "outer": case["outer"], "inners": case["inners"], "order": case["order"]}
    r = _run(case)
    progs, sched, labels, role = project(r["log"], len(case["scripts"]))
    return {"op": "lock_replay", "progs": progs, "sched": sched}


def canon_impl(case, out):
    if case.get("type") == "merge_seq":
        # after the first terminal the real subscriptions are disposed; the model keeps the laggards (adversarial)
        return {"calls": _until_terminal(out["calls"]), "delivered": out["delivered"]}
    if out.get("outcome") != "ok":
        return {"outcome": out.get("outcome")}
    return {"labels": out["labels"], "delivered": out["delivered"], "max_active": out["max_active"], "acq": out["acq"],
            "seq_equal": out["seq_equal"] in (None, True)}


def canon_model(case, resp):
    if "error" in resp:
        return resp
    if case.get("type") == "merge_seq":
        return {"calls": _until_terminal(resp["calls"]), "delivered": resp["delivered"]}
    return {"labels": resp["labels"], "delivered": resp["delivered"], "max_active": resp["max_active"],
            "acq": resp["acq"], "seq_equal": True}


def oracle(case, out):
    """The property: the downstream observer is never entered by two threads at once, and it sees next* terminal?."""
    if case.get("type") == "merge_seq":
        d = out["delivered"]
        bad = [i for i, k in enumerate(d) if k in ("E", "C") and i != len(d) - 1]
        return f"grammar violated at the subscriber: {d}" if bad else None
    if out["outcome"] == "hang":
        raise RuntimeError("controller watchdog fired (harness hang)")
    if out["outcome"] != "ok":
        return f"run ended with {out['outcome']} (threads blocked inside the combinator)"
    if out["overlap"]:
        return f"two threads inside the downstream observer at once: {out['overlap']}"
    if out["grammar"]:
        return f"notification grammar violated at the subscriber: {out['grammar']}"
    if out["excs"]:
        return f"exception escaped into a source thread: {out['excs']}"
    if out.get("windows"):
        return f"windows are not the time-or-count partition of the source (stale timer acted / spurious window): {out['windows']}"
    return None


def nontrivial(case, out):
    if case.get("type") == "merge_seq":
        return len(out["calls"]) > 0
    return out["outcome"] == "ok" and (out["preempted"] > 0 and out["contended"])


def bucket(case, out):
    if case.get("type") == "merge_seq":
        yield f"merge_seq:{case['op']}"
        yield "merge_seq:ends:" + (out["delivered"][-1] if out["delivered"] and out["delivered"][-1] in ("E", "C") else "open")
        return
    yield f"op:{case['op']}"
    yield f"threads:{len(case['scripts'])}"
    yield f"preemptions:{len(case.get('pre', []))}"
    if out.get("contended"):
        yield "lock-contended"
    if "E" in out.get("delivered", []):
        yield "ends:error"
    elif "C" in out.get("delivered", []):
        yield "ends:completed"
    else:
        yield "ends:open"
    if out.get("seq_equal") is not None:
        yield "serial-equivalence-checked"


def shrink(case):
    if case.get("type") == "merge_seq":
        return
    pre = case.get("pre", [])
    for i in range(len(pre)):
        yield dict(case, pre=pre[:i] + pre[i + 1:])


def cases(rng, tier):
    n = fw.tier_scale(tier, 300, 4000)
    base_steps = {}
    for i in range(n):
        sc = dict(rng.choice(FIXED + FIXED3 + FIXED_SUB * 2)) if rng.random() < 0.3 else gen_scenario(rng)
        k = fw.key(sc)
        if k not in base_steps:
            base_steps[k] = C.run_threads(dict(sc, first=0, pre=[]))["steps"]
        S = max(2, base_steps[k])
        nt = len(sc["scripts"]) + (1 if sc.get("sub_thread") else 0)
        npre = rng.choice([0, 1, 2, 2, 2, 3])
        steps = sorted(rng.sample(range(S), min(npre, S)))
        sc["first"] = nt - 1 if sc.get("sub_thread") else rng.randrange(nt)
        sc["pre"] = [[s, rng.randrange(nt)] for s in steps]
        yield sc
    # the merge_all model itself (atomic group.add outside the lock), handler by handler, vs the real operator
    for i in range(fw.tier_scale(tier, 150, 1500)):
        ninner = rng.choice([1, 2, 3])
        outer = [["I", k] for k in range(ninner)]
        rng.shuffle(outer)
        t = rng.choice(["C", "C", "E", None])
        if t:
            outer.insert(rng.randrange(len(outer) + 1) if rng.random() < 0.3 else len(outer), [t])
        inners = []
        for k in range(ninner):
            seq = ["N"] * rng.randrange(0, 3)
            tt = rng.choice(["C", "C", "E", None])
            if tt:
                seq.append(tt)
            inners.append(seq)
        order = [0] * len(outer) + [k + 1 for k in range(ninner) for _ in inners[k]]
        rng.shuffle(order)
        yield {"type": "merge_seq", "op": rng.choice(["merge_all", "flat_map"]), "outer": outer, "inners": inners, "order": order}


# =============================================================================== search
def _check(case, r):
    if r["outcome"] == "hang":
        return ("hang", None)
    if r["outcome"] != "ok":
        return ("bad", f"run ended with {r['outcome']}")
    ov = C.overlap_of(r["log"])
    if ov:
        return ("bad", f"two threads inside the downstream observer at once: {ov}")
    g = C.grammar_of(r["log"])
    if g:
        return ("bad", f"notification grammar violated at the subscriber: {g}")
    if r["excs"]:
        return ("bad", f"exception escaped into a source thread: {r['excs']}")
    if case["op"] in ("window_toc", "window_time"):
        w = C.window_contents_of(case, r)
        if w:
            return ("bad", f"windows are not the time-or-count partition of the source (stale timer acted / spurious window): {w}")
    return ("ok", None)


COARSE = ("cb", "ado", "lock", "H")  # inside a downstream callback / the observer / lock wrapper / between handlers


def explore_batch(batch):
    """batch = {"sc": scenario, "first": i, "p1": [level-1 schedules...], "allow": [kinds allowed at level 2, level 3]}
    Runs every schedule of the batch and all its deeper children (a level is skipped when its entry is absent)."""
    sc, first = batch["sc"], batch["first"]
    allow = batch.get("allow", [])
    n = len(sc["scripts"]) + (1 if sc.get("sub_thread") else 0)
    st = {"runs": 0, "hang": 0, "nontrivial": 0}
    bad = []

    def one(pre):
        case = dict(sc, first=first, pre=pre)
        r = C.run_threads(case)
        if r["outcome"] == "hang":  # a loaded machine can starve a run: confirm before calling it a hang
            r = C.run_threads(case, wall=40.0)
        st["runs"] += 1
        verdict, why = _check(case, r)
        if verdict == "hang":
            st["hang"] += 1
        elif verdict == "bad" and len(bad) < 3:
            bad.append({"case": case, "why": why})
        if r["preempted"] > 0:
            st["nontrivial"] += 1
        return r

    def kids(pre, r, level):
        al = allow[level]
        return tc.children(pre, r["choices"], n, kinds=r["kinds"], allowed=None if al == "all" else set(al))

    for p1 in batch["p1"]:
        r1 = one(p1)
        if p1 and len(allow) >= 1:
            for p2 in kids(p1, r1, 0):
                r2 = one(p2)
                if len(allow) >= 2:
                    for p3 in kids(p2, r2, 1):
                        one(p3)
    return {"runs": st["runs"], "bad": bad, "hang": st["hang"], "nontrivial": st["nontrivial"], "op": sc["op"]}


def plan(scenarios, allow, batch_runs=300, cap=None):
    """Split the enumeration of every scenario (all level-1 preemptions; deeper levels restricted to the yield-point
    kinds in `allow`) into batches of roughly batch_runs schedules."""
    batches = []
    info = []
    for sc in scenarios:
        n = len(sc["scripts"]) + (1 if sc.get("sub_thread") else 0)
        for first in ([n - 1] if sc.get("sub_thread") else range(n)):
            r0 = C.run_threads(dict(sc, first=first, pre=[]))
            S = len(r0["choices"])
            l1 = list(tc.children([], r0["choices"], n))
            def est(allow_):
                per_ = 1
                for al in allow_:
                    k = S if al == "all" else sum(1 for x in r0["kinds"] if x in al)
                    per_ *= max(1, k * (n - 1) // 2)
                return per_

            allow_here = allow
            per = est(allow_here)
            if cap is not None and len(l1) * (1 + per) > cap and allow_here:
                allow_here = allow_here[:-1] + [["cb", "H"]]  # long scenario: deepest level at callbacks/handler boundaries only
                per = est(allow_here)
            group = max(1, batch_runs // max(1, per))
            batches.append({"sc": sc, "first": first, "p1": [[]], "allow": []})
            for i in range(0, len(l1), group):
                batches.append({"sc": sc, "first": first, "p1": l1[i:i + group], "allow": allow_here})
            info.append({"op": sc["op"], "threads": n, "first": first, "yield_points": S, "level1": len(l1),
                         "est_runs": len(l1) * (1 + per)})
    return batches, info


def extra(rng, tier):
    t0 = time.time()
    quick = tier != "thorough"
    coarse = list(COARSE)
    if quick:
        gen2 = [gen_scenario(rng, op, 2) for op in rng.sample(C.OPS, 4)]
        gen3 = []
        allow2, allow3 = [coarse], [["cb", "H"]]
    else:
        gen2 = [gen_scenario(rng, op, 2) for op in C.OPS for _ in range(3)]
        gen3 = [gen_scenario(rng, op, 3) for op in ("zip", "combine_latest", "merge_all", "merge_maxc", "flat_map", "merge")]
        allow2, allow3 = ["all", ["cb", "H"]], ["all"]
    b2, i2 = plan(FIXED + gen2, allow2, cap=2000 if quick else 200000)
    b3, i3 = plan(FIXED3 + gen3, allow3, cap=2000 if quick else 200000)
    b4, i4 = plan(FIXED_SUB, [["cb", "H", "lock"]] if quick else ["all"], cap=4000 if quick else 200000)
    batches = b2 + b3 + b4
    i3 = i3 + i4
    res = fw.pmap("props.C43", "explore_batch", batches, chunk=1)
    failures = []
    runs = hang = nontriv = 0
    per_op = {}
    for r in res:
        if "harness_exception" in r:
            raise RuntimeError("explore_batch crashed: " + r["harness_exception"] + r.get("tb", ""))
        runs += r["runs"]
        hang += r["hang"]
        nontriv += r["nontrivial"]
        per_op[r["op"]] = per_op.get(r["op"], 0) + r["runs"]
        for b in r["bad"]:
            failures.append(fw.Failure("oracle", b["case"], b["why"]))
    if hang:
        raise RuntimeError(f"{hang} controller runs hit the wall-clock watchdog twice (harness hang)")
    cov = {"search_schedules": runs, "search_schedules_with_preemption": nontriv, "search_per_op": per_op,
           "search_scenarios": len(FIXED) + len(gen2) + len(FIXED3) + len(gen3) + len(FIXED_SUB),
           "search_rule": ("every start order x every single preemption at every yield point (line of the operator's files, "
                           "of synchronized(), of AutoDetachObserver, inside the subscriber's callbacks, between handlers) x "
                           + ("a second preemption at every coarse yield point (callback / observer / lock wrapper / handler boundary) "
                              "for two threads, at every callback / handler boundary for three threads"
                              if quick else
                              "a second preemption at every yield point x a third inside every callback / at every handler "
                              "boundary (two threads); a second at every yield point (three threads)")),
           "search_plan": (i2 + i3)[:80], "search_wall_s": round(time.time() - t0, 1), "exhaustive": False}
    return {"failures": failures, "coverage": cov, "proof_failures": []}

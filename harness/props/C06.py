"""C06 — aggregating operators match their reference semantics (DESIGN.md §5 C06)."""
import functools
import itertools
import json

import fw
from fw import FnTab, InjectedError, dec, enc, err_name

LEAN_TARGETS = ["RxProofs.C06"]
PROCS = 1  # impl is ~0.3 ms per case; forking a pool costs more than it saves
DRIVER = "drv_agg"
DRIVER_ROOT = "Agg"
THEOREMS = [
    # framework
    "C06.out_through_ado", "C06.out_lag_irrelevant", "C06.out_comp", "C06.out_prefix", "C06.outT_untimed", "C06.outT_times",
    # primitives / compositions vs. the Python reference
    "C06.scan_eq", "C06.reduce_eq", "C06.reduce_noseed_eq", "C06.count_eq", "C06.count_pred_eq", "C06.count_pred_pure_eq",
    "C06.sum_eq", "C06.sum_by_eq", "C06.average_eq",
    "C06.extrema_eq_fold", "C06.max_by_eq", "C06.min_by_eq", "C06.max_eq", "C06.min_eq",
    "C06.to_list_eq", "C06.to_set_eq", "C06.to_dict_eq", "C06.to_dict_last_wins",
    "C06.first_eq", "C06.first_or_default_eq", "C06.last_eq", "C06.last_or_default_eq",
    "C06.single_eq", "C06.single_or_default_eq", "C06.single_fails_at_second", "C06.empty_no_default_fails",
    "C06.some_eq", "C06.some_at_first", "C06.all_eq", "C06.all_pure_eq", "C06.contains_eq", "C06.contains_at_first_match",
    "C06.is_empty_eq",
    # sequence_equal
    "C06.seqeq_eq_spec", "C06.sequence_equal_correct", "C06.seqeq_true_only_when_both_done", "C06.seqeq_false_at_mismatch",
    "C06.seqeq_error", "C06.seqeq_lag_irrelevant", "C06.seqeq_asymmetric_spec", "C06.to_set_hashing_eq", "C06.to_dict_hashing_eq", "C06.to_set_unhashable_asis",
]
RULE = ("per operator: a hot TestScheduler timeline (0..8 elements from a small domain with duplicates and falsy values, times with ties, "
        "ending completed/error/open, 20% with notifications after the terminal) or the same list pushed synchronously inside subscribe "
        "(lagging disposal); parameters: seeds/defaults incl. None, predicate/key/accumulator/comparer tables incl. raising entries, rank-induced "
        "and arbitrary comparers; sequence_equal: two hot timelines (ties, errors) or source + iterable of several iterable types (list, tuple, generator, iterator, "
        "dict keys, one-element set, itertools.chain, map object, deque, a class with only __iter__). Plus RESTART cases (oracle only): agg | retry(2) over a source failing half-way "
        "on its first subscription, agg | repeat(2..3) over a source whose data differ per subscription - every run aggregated on its own "
        "elements. Plus a re-entrant FEEDBACK source (oracle only, untimed): Subjects into which the "
        "consumer pushes the next pending element from inside its own on_next. Compared: full timed output and the "
        "exceptions escaping to the emitter. non-trivial = the operator emitted something")
ASSUMPTIONS = [
    "single-threaded / virtual-time execution; one run of an operator is the list of notifications its source(s) deliver",
    "downstream callbacks return normally (exceptions of user callbacks of the operator itself are modelled)",
    "Python == / hash on the value domain is Val.pyEq (driver); numbers are int/bool (exact); average is compared as sum/count evaluated in IEEE double on both sides",
]
TRUSTED_EXTRA = ["Val-level primitives of the driver (addNum, subNum, toFloat, pyEq, truthy) stand for Python's +, -, float(), ==, bool() on the generated domain"]

NOEL = "SequenceContainsNoElementsError"
VALS = [None, 0, 1, 2, 3, False, True, "", "a", (), (1,)]
VALS_EQ = [None, 0, 1, 2, False, True, "", "a", (), (1,), 0.0, 1.0]
NUMS = [0, 1, 2, 3, -1, 5, True, False]
RES = [0, 1, 2, None, "a"]
TRUTH = [True, False, 0, 1, None, "", "a", (), (0,)]

SINGLE_OPS = ["scan", "reduce", "count", "sum", "average", "min", "max", "min_by", "max_by", "to_list", "to_set", "to_dict",
              "first", "first_or_default", "last", "last_or_default", "single", "single_or_default",
              "some", "all", "contains", "is_empty"]


# --------------------------------------------------------------------------- generators
def gen_src(rng, dom, maxlen=8):
    t = 200
    msgs = []
    n = rng.choice([0, 0, 1, 1, 2, 3, 4, 5, 6, maxlen])
    sub = rng.sample(dom, min(len(dom), rng.choice([1, 2, 3, 4])))  # small alphabet => duplicates
    for _ in range(n):
        t += rng.choice([0, 1, 5, 10, 10])
        if t == 200:
            t = 201
        msgs.append([t, ["N", enc(rng.choice(sub))]])
    r = rng.random()
    t += rng.choice([0, 1, 10])
    if t == 200:
        t = 201
    if r < 0.6:
        msgs.append([t, ["C"]])
    elif r < 0.8:
        msgs.append([t, ["E", f"s{rng.randrange(3)}"]])
    if msgs and msgs[-1][1][0] != "N" and rng.random() < 0.25:  # non-conforming tail
        for _ in range(rng.randrange(1, 4)):
            t += rng.choice([0, 5])
            k = rng.random()
            msgs.append([t, ["N", enc(rng.choice(sub))] if k < 0.6 else (["C"] if k < 0.8 else ["E", "late"])])
    return msgs, sub


def tab1(rng, dom, results, p_raise=0.08, name="cb"):
    tab = []
    for i, v in enumerate(dom):
        r = {"raise": f"{name}{i}"} if rng.random() < p_raise else enc(rng.choice(results))
        tab.append([enc(v), r])
    return {"tab": tab, "dflt": enc(rng.choice(results))}


class Raise(dict):
    """a pre-encoded raising table entry"""


def tab2(rng, doma, domb, resf, p_raise=0.05, name="cb2"):
    tab = []
    for i, a in enumerate(doma):
        for j, b in enumerate(domb):
            r = Raise({"raise": f"{name}_{i}_{j}"}) if rng.random() < p_raise else resf(a, b)
            r = r if isinstance(r, Raise) else enc(r)
            tab.append([enc((a, b)), r])
    return tab


def uniq(vals):
    seen, out = set(), []
    for v in vals:
        k = fw.key(enc(v))
        if k not in seen:
            seen.add(k)
            out.append(v)
    return out


def gen_single(rng, op):
    c = {"op": op, "mode": "hot" if rng.random() < 0.75 else "sync"}
    dom = VALS
    if op in ("sum", "average", "min", "max"):
        dom = NUMS + ([None] if rng.random() < 0.25 else []) + (["a"] if rng.random() < 0.1 and op in ("sum", "average") else [])
    if op in ("to_set", "contains"):
        dom = VALS_EQ
    if op == "to_set" and rng.random() < 0.15:
        dom = VALS_EQ[:6] + [[], [1]]  # unhashable elements: set(xs) raises TypeError; to_set delivers it as on_error (as repaired)
        c["unhashable"] = True
    src, sub = gen_src(rng, dom)
    c["src"] = src
    praise = rng.choice([0, 0, 0.1, 0.3])
    if op in ("scan", "reduce"):
        has_seed = rng.random() < 0.6
        seed = rng.choice(RES + [None, 0])
        accdom = uniq(RES + ([seed] if has_seed else sub))
        c["acc"] = {"tab": tab2(rng, accdom, sub, lambda a, b: rng.choice(RES), praise / 2, "acc"), "dflt": enc(rng.choice(RES))}
        if has_seed:
            c["seed"] = [enc(seed)]
    if op in ("count", "first", "last", "single", "first_or_default", "last_or_default", "single_or_default", "some"):
        if rng.random() < 0.6:
            c["pred"] = tab1(rng, sub, TRUTH, praise, "pred")
    if op == "all":
        c["pred"] = tab1(rng, sub, TRUTH if rng.random() < 0.5 else [True, 1, "a"], praise, "pred")
    if op in ("first_or_default", "last_or_default", "single_or_default"):
        c["default"] = enc(rng.choice([None, 0, "d", False, ()]))
    if op in ("sum", "average") and rng.random() < 0.5:
        c["key"] = tab1(rng, sub, NUMS + ([None] if rng.random() < 0.2 else []), praise, "key")
    if op in ("min", "max", "min_by", "max_by"):
        keydom = sub
        if op.endswith("_by"):
            kres = rng.sample([0, 1, 2, 3, 5, True], rng.choice([1, 2, 3]))
            c["key"] = tab1(rng, sub, kres, praise, "key")
            keydom = uniq(kres + [dec(c["key"]["dflt"])])
        r = rng.random()
        if r < 0.4:
            c["cmp_kind"] = "default"
        elif r < 0.8:
            rank = {fw.key(enc(k)): rng.randrange(0, 3) for k in keydom}
            c["cmp"] = {"tab": tab2(rng, keydom, keydom, lambda a, b: rank[fw.key(enc(a))] - rank[fw.key(enc(b))], 0, "cmp"), "dflt": 0}
            c["cmp_kind"] = "rank"
            c["rank"] = [[enc(k), rank[fw.key(enc(k))]] for k in keydom]
        else:
            c["cmp"] = {"tab": tab2(rng, keydom, keydom, lambda a, b: rng.choice([-1, 0, 1, 2]), praise, "cmp"), "dflt": rng.choice([-1, 0, 1])}
            c["cmp_kind"] = "arbitrary"
    if op == "to_dict":
        kres = rng.sample([0, 1, False, True, "a", None, 0.0, (1,), ""], rng.choice([1, 2, 3]))
        if rng.random() < 0.15:
            kres = kres + [[]]  # unhashable key: the dict comprehension raises TypeError; to_dict delivers it as on_error (as repaired)
            c["unhashable"] = True
        c["key"] = tab1(rng, sub, kres, praise, "key")
        if rng.random() < 0.5:
            c["elem"] = tab1(rng, sub, RES, praise, "elem")
    if op == "contains":
        c["value"] = enc(rng.choice(sub + VALS_EQ[:4]))
        if rng.random() < 0.5:
            c["cmp"] = {"tab": tab2(rng, sub, [dec(c["value"])], lambda a, b: rng.choice(TRUTH), praise, "cmp"), "dflt": enc(rng.choice(TRUTH))}
    return c


def gen_seq(rng):
    dom = rng.sample(VALS_EQ, rng.choice([1, 2, 3]))
    c = {"op": "sequence_equal", "mode": "hot"}
    left, _ = gen_src(rng, dom, 6)
    c["left"] = left
    lvals = [dec(m[1][1]) for m in left if m[1][0] == "N"]
    kind = rng.random()
    if kind < 0.3:  # iterable second
        it = mutate(rng, lvals, dom)
        c["iter"] = [enc(v) for v in it]
        c["iter_type"] = rng.choice(ITER_TYPES)
        c["t0"] = 200
    else:
        if rng.random() < 0.6:  # same elements at other times, perhaps mutated
            vals = mutate(rng, lvals, dom)
            t = 200
            right = []
            for v in vals:
                t += rng.choice([0, 1, 5, 10, 20])
                t = max(t, 201)
                right.append([t, ["N", enc(v)]])
            r = rng.random()
            t = max(t + rng.choice([0, 1, 10, 50]), 201)
            if r < 0.75:
                right.append([t, ["C"]])
            elif r < 0.87:
                right.append([t, ["E", "r0"]])
            c["right"] = right
        else:
            c["right"] = gen_src(rng, dom, 6)[0]
    r = rng.random()
    if r < 0.35:
        sym = rng.random() < 0.7
        memo = {}

        def resf(a, b):
            ka, kb = fw.key(enc(a)), fw.key(enc(b))
            k = tuple(sorted([ka, kb])) if sym else (ka, kb)
            if k not in memo:
                memo[k] = Raise({"raise": f"cmp{len(memo)}"}) if rng.random() < praise else ((a == b) if rng.random() < 0.6 else rng.choice(TRUTH))
            return memo[k]
        praise = rng.choice([0, 0, 0.1])
        c["cmp"] = {"tab": tab2(rng, dom, dom, resf, 0, "cmp"), "dflt": False}
        c["cmp_sym"] = sym
    return c


ITER_TYPES = ["list", "tuple", "generator", "iter", "dict_keys", "set1", "chain", "custom", "map", "deque"]


class OnlyIter:
    """an iterable that is nothing but iterable (no __len__, no __getitem__)"""

    def __init__(self, vals):
        self.vals = vals

    def __iter__(self):
        return iter(list(self.vals))


def make_iterable(kind, vals):
    """the iterable second argument of sequence_equal, as different iterable TYPES (one-shot ones are built per run)"""
    import collections
    import itertools

    vals = list(vals)

    def distinct_hashable():
        try:
            return len(set(vals)) == len(vals)
        except TypeError:
            return False
    if kind == "tuple":
        return tuple(vals)
    if kind == "generator":
        return (v for v in vals)
    if kind == "iter":
        return iter(vals)
    if kind == "dict_keys" and distinct_hashable():
        return {v: None for v in vals}.keys()
    if kind == "set1" and len(vals) <= 1 and distinct_hashable():
        return set(vals)
    if kind == "chain":
        return itertools.chain(vals[: len(vals) // 2], vals[len(vals) // 2:])
    if kind == "custom":
        return OnlyIter(vals)
    if kind == "map":
        return map(lambda v: v, vals)
    if kind == "deque":
        return collections.deque(vals)
    return vals


def mutate(rng, vals, dom):
    vals = list(vals)
    r = rng.random()
    if r < 0.45:
        return vals
    if r < 0.6 and vals:
        i = rng.randrange(len(vals))
        vals[i] = rng.choice(dom)
        return vals
    if r < 0.75 and vals:
        return vals[:-1]
    if r < 0.9:
        return vals + [rng.choice(dom)]
    rng.shuffle(vals)
    return vals


# Operators that have to wait for a fix before they can be put on a re-entrant source (see fixes/C06_reentrant_*.patch):
# their handlers make two downstream calls (`on_next(result); on_completed()`) and a re-entered handler emits a second result.
# Operators that have to wait for a fix before they can be put on a re-entrant source (none: first / first_or_default, some / all /
# contains / is_empty and sequence_equal were fixed by ace7822 / 13a6126 / 818e2bd - they now record the decision before emitting it).
REENTRANT_PENDING_FIX = set()


def reentrant_skip():
    return REENTRANT_PENDING_FIX


def gen_restart(rng, op):
    """RESTART cases: the aggregated observable is subscribed several times in one pipeline - `agg | retry(2)` over a source that
    fails half-way on its first subscription, or `agg | repeat(n)` over a source whose data differ per subscription.  Every run
    must be aggregated on its own elements only (no accumulator / container carried over)."""
    c = gen_single(rng, op)
    while c.get("unhashable") or not any(m[1][0] == "N" for m in c["src"]):
        c = gen_single(rng, op)
    c["mode"] = "restart"
    dom = uniq([dec(m[1][1]) for m in c["src"] if m[1][0] == "N"])  # the callback tables are defined on these values

    def run(ending):
        msgs = [[0, ["N", enc(rng.choice(dom))]] for _ in range(rng.choice([0, 1, 2, 3, 4]))]
        if ending is not None:
            msgs.append([0, ending])
        return msgs
    if rng.random() < 0.5:
        c["restart"] = "retry"
        c["runs"] = [run(["E", "attempt0"]), run(rng.choice([["C"], ["C"], ["C"], ["E", "attempt1"]]))]
    else:
        c["restart"] = "repeat"
        n = rng.choice([2, 2, 3])
        c["runs"] = [run(["C"]) for _ in range(n - 1)] + [run(rng.choice([["C"], ["C"], ["E", "last"]]))]
    del c["src"]
    return c


def cases(rng, tier):
    per = fw.tier_scale(tier, 110, 1500)
    for op in SINGLE_OPS:
        for _ in range(per):
            yield gen_single(rng, op)
    for _ in range(per * 5):
        yield gen_seq(rng)
    # re-entrant feedback source (oracle only): the consumer pushes the next element from inside its own on_next
    skip = reentrant_skip()
    for op in SINGLE_OPS:
        if op in skip:
            continue
        for _ in range(per // 3):
            c = gen_single(rng, op)
            c["mode"] = "feedback"
            yield c
    for op in SINGLE_OPS:
        for _ in range(per // 3):
            yield gen_restart(rng, op)
    if "sequence_equal" not in skip:
        for _ in range(per):
            c = gen_seq(rng)
            if "iter" in c:
                continue
            c["mode"] = "feedback"
            yield c


def model_request(case):
    if case.get("mode") in ("feedback", "restart"):
        return None  # the atomic-handler model cannot express a handler re-entered inside its downstream call
    c = {k: v for k, v in case.items() if k not in ("mode", "cmp_kind", "rank", "cmp_sym", "unhashable", "iter_type")}
    c["lag"] = case.get("mode") == "sync"
    if case.get("mode") == "sync":  # inputs are tagged by their index
        c["src"] = [[i, m[1]] for i, m in enumerate(case["src"])]
    return c


# --------------------------------------------------------------------------- the real code
def fn(j):
    return None if j is None else FnTab.from_json(j)


def build(case):
    from reactivex import operators as ops

    op = case["op"]
    pred = fn(case.get("pred"))
    key = fn(case.get("key"))
    cmp = fn(case.get("cmp"))
    if op == "scan":
        return ops.scan(fn(case["acc"]), dec(case["seed"][0])) if "seed" in case else ops.scan(fn(case["acc"]))
    if op == "reduce":
        return ops.reduce(fn(case["acc"]), dec(case["seed"][0])) if "seed" in case else ops.reduce(fn(case["acc"]))
    if op == "count":
        return ops.count(pred)
    if op == "sum":
        return ops.sum(key)
    if op == "average":
        return ops.average(key)
    if op == "min":
        return ops.min(cmp)
    if op == "max":
        return ops.max(cmp)
    if op == "min_by":
        return ops.min_by(key, cmp)
    if op == "max_by":
        return ops.max_by(key, cmp)
    if op == "to_list":
        return ops.to_list()
    if op == "to_set":
        return ops.to_set()
    if op == "to_dict":
        return ops.to_dict(key, fn(case.get("elem")))
    if op == "first":
        return ops.first(pred)
    if op == "first_or_default":
        return ops.first_or_default(pred, dec(case["default"]))
    if op == "last":
        return ops.last(pred)
    if op == "last_or_default":
        return ops.last_or_default(dec(case["default"]), pred)
    if op == "single":
        return ops.single(pred)
    if op == "single_or_default":
        return ops.single_or_default(pred, dec(case["default"]))
    if op == "some":
        return ops.some(pred)
    if op == "all":
        return ops.all(pred)
    if op == "contains":
        return ops.contains(dec(case["value"]), cmp)
    if op == "is_empty":
        return ops.is_empty()
    raise ValueError(op)


def recorded(msgs):
    from reactivex.testing import ReactiveTest

    out = []
    for t, n in msgs:
        if n[0] == "N":
            out.append(ReactiveTest.on_next(t, dec(n[1])))
        elif n[0] == "C":
            out.append(ReactiveTest.on_completed(t))
        else:
            out.append(ReactiveTest.on_error(t, InjectedError(n[1])))
    return out


def run_sched(sched, create):
    """TestScheduler.start(create) that survives exceptions escaping into the scheduler; returns (messages, escaped names)"""
    from reactivex.testing.mockobserver import MockObserver

    observer = MockObserver(sched)
    holder = {}

    def do_sub(s, st):
        holder["sub"] = create().subscribe(observer, scheduler=sched)

    def do_disp(s, st):
        if "sub" in holder:
            holder["sub"].dispose()

    sched.schedule_absolute(200, do_sub)
    sched.schedule_absolute(1000, do_disp)
    escaped = []
    for _ in range(50):
        try:
            sched.start()
            break
        except Exception as e:  # noqa: an exception escaped into the scheduler
            escaped.append(err_name(e))
    return observer.messages, escaped


def run_feedback(case):
    """RE-ENTRANT source(s): Subjects used as a feedback queue (same discipline as C05.run_feedback).  The notifications are
    pushed in order, each exactly once; whenever the consumer receives an element it pushes the next pending *element* from
    inside its own on_next (so the operator's handler is re-entered while it is still inside its downstream call); terminals and
    whatever the consumer did not trigger are pushed from the top level.  -> untimed output."""
    from reactivex import operators as ops
    from reactivex.subject import Subject

    subj = {"L": Subject(), "R": Subject()}
    if case["op"] == "sequence_equal":
        evs = sorted([(t, "L", n) for t, n in case["left"]] + [(t, "R", n) for t, n in case["right"]], key=lambda e: (e[0], e[1]))
        pending = [(sd, n) for _, sd, n in evs]
        obs = subj["L"].pipe(ops.sequence_equal(subj["R"], fn(case.get("cmp"))))
    else:
        pending = [("L", n) for _, n in case["src"]]
        obs = subj["L"].pipe(build(case))
    out, esc = [], []
    depth = [0]
    armed = [False]

    def push():
        sd, n = pending.pop(0)
        depth[0] += 1
        try:
            if n[0] == "N":
                subj[sd].on_next(dec(n[1]))
            elif n[0] == "E":
                subj[sd].on_error(InjectedError(n[1]))
            else:
                subj[sd].on_completed()
        finally:
            depth[0] -= 1

    def on_next(v):
        out.append(["N", enc(v)])
        if armed[0] and pending and pending[0][1][0] == "N" and depth[0] < 40:
            push()

    obs.subscribe(on_next, lambda e: out.append(["E", err_name(e)]), lambda: out.append(["C"]))
    armed[0] = True
    while pending:
        try:
            push()
        except Exception as e:  # noqa: escaped to the emitter
            esc.append(err_name(e))
    return {"out": [[0, n] for n in out], "escaped": esc}


def run_restart(case):
    """`source.pipe(agg, retry(2) | repeat(n))`: the k-th subscription of the source delivers the k-th run (synchronously)"""
    import reactivex
    from reactivex import operators as ops
    from reactivex.disposable import Disposable

    runs = case["runs"]
    k = [0]
    out, esc = [], []

    def subscribe(observer, scheduler=None):
        msgs = runs[min(k[0], len(runs) - 1)]
        k[0] += 1
        for _, n in msgs:
            if n[0] == "N":
                observer.on_next(dec(n[1]))
            elif n[0] == "C":
                observer.on_completed()
            else:
                observer.on_error(InjectedError(n[1]))
        return Disposable()

    again = ops.retry(len(runs)) if case["restart"] == "retry" else ops.repeat(len(runs))
    try:
        reactivex.create(subscribe).pipe(build(case), again).subscribe(
            lambda v: out.append([0, ["N", enc(v)]]), lambda e: out.append([0, ["E", err_name(e)]]), lambda: out.append([0, ["C"]]))
    except Exception as e:  # noqa: escaped out of subscribe
        esc.append(err_name(e))
    return {"out": out, "escaped": esc, "subscriptions": k[0]}


def impl(case):
    import reactivex
    from reactivex.disposable import Disposable
    from reactivex.testing import TestScheduler

    if case.get("mode") == "feedback":
        return run_feedback(case)
    if case.get("mode") == "restart":
        return run_restart(case)

    if case["op"] == "sequence_equal":
        from reactivex import operators as ops

        sched = TestScheduler()
        left = sched.create_hot_observable(*recorded(case["left"]))
        if "iter" in case:
            second = make_iterable(case.get("iter_type", "list"), [dec(v) for v in case["iter"]])
        else:
            second = sched.create_hot_observable(*recorded(case["right"]))
        cmp = fn(case.get("cmp"))
        msgs, escaped = run_sched(sched, lambda: left.pipe(ops.sequence_equal(second, cmp)))
        return {"out": fw.messages_json(msgs), "escaped": escaped}
    oper = build(case)
    if case["mode"] == "hot":
        sched = TestScheduler()
        src = sched.create_hot_observable(*recorded(case["src"]))
        msgs, escaped = run_sched(sched, lambda: src.pipe(oper))
        return {"out": fw.messages_json(msgs), "escaped": escaped}
    # sync: every raw notification is pushed inside subscribe, before the subscription exists (lagging disposal)
    cur = [None]
    out, escaped = [], []

    def subscribe(observer, scheduler=None):
        for i, (_, n) in enumerate(case["src"]):
            cur[0] = i
            try:
                if n[0] == "N":
                    observer.on_next(dec(n[1]))
                elif n[0] == "C":
                    observer.on_completed()
                else:
                    observer.on_error(InjectedError(n[1]))
            except Exception as e:  # noqa: escaped to the emitter
                escaped.append(err_name(e))
        return Disposable()

    reactivex.create(subscribe).pipe(oper).subscribe(
        lambda v: out.append([cur[0], ["N", enc(v)]]),
        lambda e: out.append([cur[0], ["E", err_name(e)]]),
        lambda: out.append([cur[0], ["C"]]))
    return {"out": out, "escaped": escaped}


def _setkey(e):
    return json.dumps(e, sort_keys=True)


def canon_model(case, resp):
    if not isinstance(resp, dict) or "out" not in resp:
        return resp
    out = []
    for t, n in resp["out"]:
        if n[0] == "N" and isinstance(n[1], dict) and "t" in n[1] and n[1]["t"][:1] == [".set"]:
            n = ["N", {"t": [".set"] + sorted(n[1]["t"][1:], key=_setkey)}]
        elif n[0] == "N" and isinstance(n[1], dict) and "t" in n[1] and n[1]["t"][:1] == [".avg"]:
            n = ["N", enc(n[1]["t"][1] / float(n[1]["t"][2]))]
        out.append([t, n])
    return {"out": out, "escaped": resp["escaped"]}


# --------------------------------------------------------------------------- oracle: the Python reference computation
CAUGHT = (InjectedError, TypeError, ValueError)


def conform(src):
    elems = []
    for t, n in src:
        if n[0] == "N":
            elems.append((t, dec(n[1])))
        elif n[0] == "C":
            return elems, ("C", t)
        else:
            return elems, ("E", t, n[1])
    return elems, None


def guard(f):
    try:
        return f()
    except CAUGHT as e:
        return [["E", err_name(e)]]


def N(v):
    return ["N", enc(v)]


C = ["C"]


def reference(case):
    """(partial, final): what must have been emitted after seeing exactly `p` (no terminal yet) / after `p` then completion"""
    op = case["op"]
    pred = fn(case.get("pred")) or (lambda x: True)
    key = fn(case.get("key"))
    cmpf = fn(case.get("cmp"))
    none = lambda f: (lambda p: guard(lambda: (f(p), [])[1]))  # noqa: E731  evaluate for exceptions only

    def fin(f):
        return lambda p: guard(lambda: [N(f(p)), C])
    if op == "reduce":
        acc = fn(case["acc"])
        if "seed" in case:
            f = lambda p: functools.reduce(acc, p, dec(case["seed"][0]))  # noqa: E731
            return none(f), fin(f)
        f = lambda p: functools.reduce(acc, p) if p else None  # noqa: E731
        return none(f), lambda p: guard(lambda: [N(functools.reduce(acc, p)), C]) if p else [["E", NOEL]]
    if op == "scan":
        acc = fn(case["acc"])

        def part(p):
            out = []
            # accumulate(chain([seed], p)) == accumulate(p, initial=seed), also for seed None
            it = itertools.accumulate(itertools.chain([dec(case["seed"][0])], p), acc) if "seed" in case else itertools.accumulate(p, acc)
            try:
                if "seed" in case:
                    next(it)
                for v in it:
                    out.append(N(v))
            except CAUGHT as e:
                out.append(["E", err_name(e)])
            return out
        return part, lambda p: part(p) + [C]
    if op == "count":
        f = lambda p: len([x for x in p if pred(x)])  # noqa: E731
        return none(f), fin(f)
    if op == "sum":
        f = lambda p: sum(key(x) for x in p) if key else sum(p)  # noqa: E731
        return none(f), fin(f)
    if op == "average":
        def f(p):
            ks = [key(x) if key else float(x) for x in p]
            return sum(ks) / float(len(ks)) if ks else None
        return none(f), lambda p: guard(lambda: [N(f(p)), C]) if p else [["E", NOEL]]
    if op in ("min", "max", "min_by", "max_by"):
        kind = case["cmp_kind"]
        if kind == "arbitrary":
            return None, None
        rank = {fw.key(k): r for k, r in case.get("rank", [])}
        rk = (lambda k: rank[fw.key(enc(k))]) if kind == "rank" else (lambda k: k)
        ext = min if op.startswith("min") else max

        def f(p):
            ks = [key(x) if key else x for x in p]
            if not ks:
                return []
            m = ext(rk(k) for k in ks)  # on non-numbers min()/max() raise TypeError, like the default comparer x - y
            return [x for x, k in zip(p, ks) if rk(k) == m]
        if op in ("min", "max"):
            return none(f), lambda p: guard(lambda: [N(f(p)[0]), C]) if p else [["E", NOEL]]
        return none(f), fin(f)
    if op == "to_list":
        return none(list), fin(list)
    if op == "to_set":
        return none(set), fin(set)
    if op == "to_dict":
        el = fn(case.get("elem")) or (lambda x: x)
        f = lambda p: {key(x): el(x) for x in p}  # noqa: E731
        return none(f), fin(f)
    if op in ("first", "first_or_default"):
        def part(p):
            m = next(([x] for x in p if pred(x)), None)
            return [N(m[0]), C] if m else []

        def final(p):
            m = part(p)
            return m or ([N(dec(case["default"])), C] if "default" in case else [["E", NOEL]])
        return (lambda p: guard(lambda: part(p))), (lambda p: guard(lambda: final(p)))
    if op in ("last", "last_or_default"):
        f = lambda p: [x for x in p if pred(x)]  # noqa: E731

        def final(p):
            m = f(p)
            return [N(m[-1]), C] if m else ([N(dec(case["default"])), C] if "default" in case else [["E", NOEL]])
        return none(f), (lambda p: guard(lambda: final(p)))
    if op in ("single", "single_or_default"):
        f = lambda p: [x for x in p if pred(x)]  # noqa: E731

        def part(p):
            return [["E", "Exception"]] if len(f(p)) > 1 else []

        def final(p):
            m = f(p)
            if len(m) > 1:
                return [["E", "Exception"]]
            return [N(m[0]), C] if m else ([N(dec(case["default"])), C] if "default" in case else [["E", NOEL]])
        return (lambda p: guard(lambda: part(p))), (lambda p: guard(lambda: final(p)))
    if op == "some":
        return (lambda p: guard(lambda: [N(True), C] if any(pred(x) for x in p) else [])), (lambda p: guard(lambda: [N(any(bool(pred(x)) for x in p)), C]))
    if op == "all":
        return (lambda p: guard(lambda: [] if all(pred(x) for x in p) else [N(False), C])), (lambda p: guard(lambda: [N(all(bool(pred(x)) for x in p)), C]))
    if op == "contains":
        v = dec(case["value"])
        test = (lambda p: any(cmpf(x, v) for x in p)) if cmpf else (lambda p: v in p)
        return (lambda p: guard(lambda: [N(True), C] if test(p) else [])), (lambda p: guard(lambda: [N(bool(test(p))), C]))
    if op == "is_empty":
        return (lambda p: [N(False), C] if p else []), (lambda p: [N(not p), C])
    raise ValueError(op)


def expected_single(case):
    part, final = reference(case)
    if part is None:
        return None
    elems, end = conform(case["src"])
    tags = list(range(len(case["src"]))) if case["mode"] == "sync" else None
    out, emitted = [], []

    def closed():
        return bool(emitted) and emitted[-1][0] in ("E", "C")

    def push(t, total):
        nonlocal emitted
        if total[:len(emitted)] != emitted:
            raise AssertionError(f"reference not monotone: {emitted} then {total}")
        for n in total[len(emitted):]:
            if closed():
                break
            emitted.append(n)
            out.append([t, n])
    vals = []
    for i, (t, v) in enumerate(elems):
        vals.append(v)
        if closed():
            break
        push(tags[i] if tags else t, part(list(vals)))
    if end is not None and not closed():
        idx = len(elems)
        t = tags[idx] if tags else end[1]
        if end[0] == "C":
            push(t, final(list(vals)))
        else:
            out.append([t, ["E", end[2]]])
    return out


def expected_seq(case):
    if case.get("cmp") is not None and not case.get("cmp_sym", True):
        return None
    cmpf = fn(case.get("cmp")) or (lambda a, b: a == b)
    evs = []
    if "iter" in case:
        evs += [(case["t0"], "R", ["N", v]) for v in case["iter"]] + [(case["t0"], "R", ["C"])]
        evs += [(t, "L", n) for t, n in case["left"]]
    else:
        evs = sorted([(t, "L", n) for t, n in case["left"]] + [(t, "R", n) for t, n in case["right"]], key=lambda e: (e[0], e[1]))
    seen = {"L": [], "R": []}
    done = {"L": False, "R": False}
    stopped = {"L": False, "R": False}
    compared = 0
    for t, side, n in evs:
        if stopped[side]:
            continue
        if n[0] == "E":
            return [[t, ["E", n[1]]]]
        if n[0] == "C":
            done[side] = stopped[side] = True
        else:
            seen[side].append(dec(n[1]))
        ls, rs = seen["L"], seen["R"]
        while compared < min(len(ls), len(rs)):  # the pair that just became available
            a, b = ls[compared], rs[compared]
            compared += 1
            try:
                if not cmpf(a, b):
                    return [[t, N(False)], [t, C]]
            except CAUGHT as e:
                return [[t, ["E", err_name(e)]]]
        if (done["L"] and len(rs) > len(ls)) or (done["R"] and len(ls) > len(rs)):
            return [[t, N(False)], [t, C]]
        if done["L"] and done["R"]:
            return [[t, N(True)], [t, C]]
    return []


def expected_restart(case):
    """the reference on each run's OWN elements: retry continues after a run that ends in an error, repeat after one that completes"""
    exp = []
    runs = case["runs"]
    for i, run in enumerate(runs):
        e = expected_single({**case, "src": run, "mode": "hot"})
        if e is None:
            return None
        e = [n for _, n in e]
        last = i == len(runs) - 1
        term = e[-1][0] if e and e[-1][0] in ("E", "C") else None
        goes_on = (term == "E") if case["restart"] == "retry" else (term == "C")
        if goes_on and not last:
            exp += e[:-1]
            continue
        exp += e
        break
    return [[0, n] for n in exp]


def oracle(case, out):
    if out["escaped"]:
        return f"exception escaped to the emitter: {out['escaped']}"
    exp = (expected_restart(case) if case.get("mode") == "restart" else
           expected_seq(case) if case["op"] == "sequence_equal" else expected_single(case))
    seq = [n for _, n in out["out"]]
    if any(n[0] in ("E", "C") for n in seq[:-1]):
        return f"ill-formed output {seq}"
    if exp is None:
        return None
    if case.get("mode") == "feedback":
        exp = [[0, n] for _, n in exp]
    if fw.key(exp) != fw.key(out["out"]):
        return f"{case['op']}: expected {exp} (Python reference), got {out['out']}"
    return None


def nontrivial(case, out):
    return len(out["out"]) > 0


def bucket(case, out):
    op = case["op"]
    yield "op:" + op
    yield "mode:" + case.get("mode", "hot")
    if "restart" in case:
        yield "restart:" + case["restart"]
    src = case["left"] if op == "sequence_equal" else (case["runs"][-1] if "runs" in case else case["src"])
    _, end = conform(src)
    yield "ending:" + ("open" if end is None else end[0])
    o = out["out"]
    yield "out:" + ("none" if not o else ("error" if o[-1][1][0] == "E" else ("value+C" if o[-1][1][0] == "C" else "values")))
    if o and o[-1][1][0] == "E":
        nm = o[-1][1][1]
        yield "error:" + ("source" if nm.startswith("s") and len(nm) == 2 or nm in ("r0", "late") else
                          (nm if nm in (NOEL, "Exception", "TypeError", "ValueError") else "callback"))
    if op == "sequence_equal":
        yield "seq:" + ("iter" if "iter" in case else "obs") + (":cmp" if case.get("cmp") else "")
        if "iter" in case:
            yield "seq-iter-type:" + case.get("iter_type", "list")
        if o and o[0][1][0] == "N":
            yield "seq-result:" + str(o[0][1][1])
    if any(k in case for k in ("pred", "key", "cmp", "acc")):
        yield "with-callback"
    if case.get("unhashable"):
        yield "unhashable:" + ("escaped" if out["escaped"] else ("TypeError" if out["out"] and out["out"][-1][1] == ["E", "TypeError"] else "not-hit"))


def shrink(case):
    if "runs" in case:
        for r in range(len(case["runs"])):
            for i in range(len(case["runs"][r]) - 1):
                c = dict(case)
                c["runs"] = [list(x) for x in case["runs"]]
                del c["runs"][r][i]
                yield c
        return
    for fld in ("src", "left", "right", "iter"):
        if fld in case and isinstance(case[fld], list):
            for i in range(len(case[fld])):
                c = dict(case)
                c[fld] = case[fld][:i] + case[fld][i + 1:]
                yield c
    if case.get("mode") == "sync":
        c = dict(case)
        c["mode"] = "hot"
        yield c


LEVEL_TEXT = ("Lean theorems (induction over the notification list, no bound): for every raw source notification list (conforming or not), every "
              "callback (possibly raising at any element), prompt or lagging disposal, what the subscriber of the modelled operator sees equals the "
              "Python reference computation (foldlM = functools.reduce, length, sum, extrema filter, dict last-wins, first/last/single with defaults, "
              "any/all/in) on the conforming prefix, emitted at completion — or at the deciding element for some/contains/all/first/single — with "
              "SequenceContainsNoElementsError on empty input exactly where no default applies; sequence_equal: for every interleaving of the two "
              "sides the output is the declarative decision function seqSpec of what each side delivered. Operators are modelled handler by handler and "
              "composed as the library pipes them; the model is tied to /repo by differential execution on every run.")
LEVEL_NOTE = ("Theorems: scan, reduce(seed / no seed), count(+pred), sum(+key), average ((sum,count) pair = exact rational), extrema_by fold identity for "
              "arbitrary (raising) key/comparer, max_by/min_by/max/min for comparers induced by a total preorder (non-raising), to_list, to_set, to_dict "
              "(+last-wins lookup), first/last/single(+_or_default, +pred), some(+pred), all, contains, is_empty, sequence_equal (spec theorems for a total symmetric "
              "comparer; error forwarding seqeq_error; lag-irrelevance for arbitrary comparers). seqeq_asymmetric_spec states what the code computes for an arbitrary total comparer (earlier-arrived element is the first argument); "
              "to_set_hashing_eq / to_dict_hashing_eq: unhashable elements/keys end the sequence with TypeError at that element like set(xs) / the dict "
              "comprehension (models as repaired by fixes/C06_toset_todict_unhashable.patch; to_set_unhashable_asis is the witness of the pinned behaviour: "
              "TypeError raised into the emitter, element skipped). Correspondence-only: min/max/min_by/max_by with arbitrary "
              "(non-preorder) or raising comparers beyond the fold identity, sequence_equal with an asymmetric comparer (the code passes the queued "
              "value first on both sides, so the result then depends on the interleaving), float inputs. Re-entrant sources (a handler re-entered from inside its downstream call) are outside the atomic-handler model: "
              "oracle-only (feedback mode); the Lean models of first / some / sequence_equal carry the repaired done/decided flag (raw-mode handlers stop "
              "emitting after the decision). Composition `⨾` is exact when the downstream "
              "operator's handlers do not raise (proved in C09 for this family).")

"""C18 — windows and buffers partition the source correctly (DESIGN.md §5 C18).

Every case runs the REAL window operator and its buffer twin on the same hot timelines under a
TestScheduler.  A recording observer is subscribed to every emitted window inside the outer on_next;
a spy observer subscribed to every hot source *before* the operator logs each arrival just before the
operator sees it, so the global log interleaves arrivals, outer notifications and per-window
notifications in real order.  The Lean machines get the statically merged tagged event list.
"""
import signal

import fw
from fw import InjectedError, enc, err_name

LEAN_TARGETS = ["RxProofs.C18", "RxProofs.C02Win"]
DRIVER = "drv_win"
DRIVER_ROOT = "Win"
T0 = 200
KNOWN_TOGGLE = "C18-toggle-open-at-source-completion"
T0_US = 200_000_000          # subscription instant of the microsecond-resolution (HistoricalScheduler) cases


def t0_of(case):
    return case.get("t0", T0)

VALS = [None, 0, 1, False, "", "a", (), 2, 3, 4, 5, 0.0]


# ----------------------------------------------------------------------------------------- generators
def gen_timeline(rng, n, t=None, term=None, nonconf=False, gaps=(0, 1, 5, 10, 10, 20, 30)):
    """hot timeline: n elements at non-decreasing times > T0 (a few before T0), then an optional terminal."""
    t = T0 - 10 if t is None else t
    out = []
    for i in range(n):
        t += rng.choice(gaps)
        out.append([t, ["N", enc(rng.choice(VALS))]])
    term = rng.choice(["C", "C", "E", None]) if term is None else term
    if term == "C":
        out.append([t + rng.choice(gaps), ["C"]])
    elif term == "E":
        out.append([t + rng.choice(gaps), ["E", f"s{rng.randrange(3)}"]])
    if nonconf and out:
        t = out[-1][0]
        for _ in range(rng.randrange(1, 3)):
            t += rng.choice(gaps)
            out.append([t, rng.choice([["N", 7], ["C"], ["E", "late"]])])
    return out


def gen_dispose(rng, src, always=False):
    last = max([T0] + [m[0] for m in src])
    r = rng.random()
    if r < 0.45 and not always:
        return None, True
    if r < 0.8 and src:
        d = rng.choice(src)[0] + rng.choice([-1, 0, 0, 1])   # at / around an arrival
    else:
        d = rng.randrange(T0, last + 40)
    return max(d, T0), rng.random() < 0.5


def cases(rng, tier):
    n = fw.tier_scale(tier, 400, 4000)
    for _ in range(n):
        yield gen_count(rng)
    for g in EXTRA_GENS:
        for _ in range(fw.tier_scale(tier, g[1], g[1] * 10)):
            yield g[0](rng)
    # the same piped observable subscribed twice (oracle only): the second subscription must behave like a fresh one
    for _ in range(fw.tier_scale(tier, 150, 1500)):
        c = rng.choice([gen_count, gen_time, gen_time_count])(rng)
        c.update({"resub": True, "cold": True, "dispose": None, "dw": True, "first_len": rng.choice([5, 15, 30, 60, 120, 400])})
        yield c


def gen_count(rng):
    n = rng.choice([0, 1, 2, 3, 5, 8, 8, 12, 12, 20])
    count = rng.choice([1, 1, 2, 2, 3, 3, 4, 5, max(1, n - 1), max(1, n), n + 1])
    skip = rng.choice([None, 1, 1, 2, 3, 5, count, count + 1, count + 2, max(1, count - 1), max(1, count // 2)])
    src = gen_timeline(rng, n, nonconf=rng.random() < 0.15)
    d, dw = gen_dispose(rng, src)
    return {"op": "win_count", "count": count, "skip": skip, "src": src, "dispose": d, "dw": dw, "cold": rng.random() < 0.25}


def around(rng, src, lo=T0 + 1, hi=None):
    """a time at / around an arrival of the source (or anywhere)."""
    hi = hi or max([T0 + 60] + [m[0] + 30 for m in src])
    if src and rng.random() < 0.7:
        return max(lo, rng.choice(src)[0] + rng.choice([-1, 0, 0, 0, 1, 5]))
    return rng.randrange(lo, max(hi, lo + 30) + 1)


def gen_src(rng):
    n = rng.choice([0, 1, 2, 3, 4, 6, 8, 12])
    return gen_timeline(rng, n, nonconf=rng.random() < 0.12)


def gen_bound(rng):
    src = gen_src(rng)
    times = sorted(around(rng, src) for _ in range(rng.choice([0, 1, 2, 3, 5])))
    bnd = [[t, ["N", enc(rng.choice(VALS))]] for t in times]
    r = rng.random()
    if r < 0.25:
        bnd.append([around(rng, src, lo=(times or [T0 + 1])[-1]), ["C"]])
    elif r < 0.4:
        bnd.append([around(rng, src, lo=(times or [T0 + 1])[-1]), ["E", "b0"]])
    d, dw = gen_dispose(rng, src + bnd)
    c = {"op": "win_bound", "src": src, "bnd": bnd, "bfirst": rng.random() < 0.5, "dispose": d, "dw": dw,
         "cold": rng.random() < 0.25}
    if rng.random() < 0.12:
        c["bsync"] = rng.choice(["N", "N", "C", ["E", "b1"]])     # boundaries delivering inside their own subscribe
        c["bnd"] = []
    elif rng.random() < 0.3:
        # cold source AND cold boundaries with equal virtual times: the tie is decided by subscription order
        c["cold"], c["cold_b"] = True, True
        ts = [m[0] for m in src if m[0] > T0]
        c["bnd"] = sorted([[t, ["N", 0]] for t in rng.sample(ts, min(len(ts), rng.choice([1, 2, 3])))], key=lambda m: m[0])
        if rng.random() < 0.4 and ts:
            c["bnd"].append([max(ts[-1], c["bnd"][-1][0] if c["bnd"] else T0), ["C"]])
    return c


def gen_closing(rng, src, after):
    """hot closing timeline: maybe noise before `after` (not seen: not subscribed yet), then one firing event."""
    tl = []
    if rng.random() < 0.3:
        tl.append([max(T0 - 5, after - rng.choice([1, 5, 20])), ["N", 0]])
    r = rng.random()
    if r < 0.12:
        return tl, None     # never fires
    t = max(after + rng.choice([0, 0, 1, 5, 10, 30]), around(rng, src, lo=after))
    kind = ["N", 0] if r < 0.65 else ["C"] if r < 0.9 else ["E", f"c{rng.randrange(3)}"]
    tl.append([t, kind])
    if rng.random() < 0.3:
        tl.append([t + rng.choice([0, 5, 10]), rng.choice([["N", 1], ["C"]])])
    return sorted(tl, key=lambda m: m[0]), t


def gen_when(rng):
    src = gen_src(rng)
    closings, after = [], T0
    for _ in range(rng.choice([0, 1, 2, 3, 4, 5])):
        if rng.random() < 0.22:
            # fires inside its own subscribe: empty() / BehaviorSubject(v) / throw(e)
            r = rng.random()
            closings.append({"sync": ["C"] if r < 0.5 else ["N", 0] if r < 0.88 else ["E", f"c{rng.randrange(3)}"]})
            if closings[-1]["sync"][0] == "E":
                break
            continue
        tl, fired = gen_closing(rng, src, after)
        closings.append(tl)
        if fired is None:
            break
        after = fired
    order = list(range(len(closings) + 1))
    if rng.random() < 0.5:
        rng.shuffle(order)
    d, dw = gen_dispose(rng, src + [m for c in closings if not isinstance(c, dict) for m in c])
    return {"op": "win_when", "src": src, "closings": closings, "order": order,
            "raise_at": rng.choice([None] * 6 + [0, 1, 2]), "dispose": d, "dw": dw, "cold": rng.random() < 0.2}


def gen_toggle(rng):
    src = gen_src(rng)
    times = sorted(around(rng, src) for _ in range(rng.choice([0, 1, 2, 3, 4])))
    openings = [[t, ["N", enc(rng.choice(VALS))]] for t in times]
    r = rng.random()
    if r < 0.25:
        openings.append([around(rng, src, lo=(times or [T0 + 1])[-1]), ["C"]])
    elif r < 0.35:
        openings.append([around(rng, src, lo=(times or [T0 + 1])[-1]), ["E", "o0"]])
    closings = []
    for t in times:
        if rng.random() < 0.1:
            break    # pool exhausted: never()
        if rng.random() < 0.15:
            r = rng.random()
            closings.append({"sync": ["C"] if r < 0.5 else ["N", 0] if r < 0.9 else ["E", f"c{rng.randrange(3)}"]})
            continue
        closings.append(gen_closing(rng, src, t)[0])
    order = list(range(len(closings) + 2))
    if rng.random() < 0.5:
        rng.shuffle(order)
    d, dw = gen_dispose(rng, src + openings)
    return {"op": "win_toggle", "src": src, "openings": openings, "closings": closings, "order": order,
            "raise_at": rng.choice([None] * 8 + [0, 1]), "dispose": d, "dw": dw, "cold": rng.random() < 0.2}


def gen_time(rng):
    src = gen_timeline(rng, rng.choice([0, 1, 2, 3, 5, 8, 12]), nonconf=rng.random() < 0.1, gaps=(0, 1, 5, 10, 10, 20, 30, 50))
    span = rng.choice([0, 1, 5, 10, 10, 20, 30, 50, 100])
    shift = rng.choice([None, 1, 5, 10, 10, 20, 30, 50, 100, max(1, span), max(1, span - 5), span + 5])
    if shift is None and span == 0:
        span = 10
    d, dw = gen_dispose(rng, src, always=True)
    d = min(d, T0 + 400)
    return {"op": "win_time", "src": src, "span": span, "shift": shift, "dispose": d, "dw": dw,
            "sub_sched": rng.choice([None, None, "test", "immediate"])}


def gen_time_count(rng):
    src = gen_timeline(rng, rng.choice([0, 1, 2, 3, 5, 8, 12]), nonconf=rng.random() < 0.1, gaps=(0, 1, 5, 10, 10, 20, 30, 50))
    d, dw = gen_dispose(rng, src, always=True)
    d = min(d, T0 + 400)
    return {"op": "win_time_count", "src": src, "span": rng.choice([1, 5, 10, 20, 30, 50, 100]),
            "count": rng.choice([1, 2, 2, 3, 5]), "dispose": d, "dw": dw,
            "sub_sched": rng.choice([None, None, "test", "immediate"])}


US_SPANS = [2_010_000, 4_020_000, 8_030_000, 1_001_000, 10_500, 1_000_500, 2_000_001, 333_333, 100_000, 1_000_000, 50_001]


def gen_us_src(rng, marks):
    """elements just before / at / after the window boundaries `marks` (microseconds), plus a few elsewhere"""
    ts = set()
    for m in rng.sample(marks, min(len(marks), rng.choice([2, 4, 6, 8]))):
        for off in rng.sample([-1000, -999, -500, -1, 0, 1, 500, 999, 1000], rng.choice([1, 2, 3])):
            if m + off > T0_US:
                ts.add(m + off)
    for _ in range(rng.choice([0, 1, 3])):
        ts.add(T0_US + rng.randrange(1, max(marks) - T0_US + 2))
    ts = sorted(ts)
    src = [[t, ["N", enc(rng.choice(VALS))]] for t in ts]
    last = ts[-1] if ts else T0_US
    r = rng.random()
    if r < 0.35:
        src.append([last + rng.choice([0, 1, 500, 1000, 100_000]), ["C"]])
    elif r < 0.5:
        src.append([last + rng.choice([0, 1, 1000]), ["E", "s0"]])
    return src


def gen_time_us(rng):
    span = rng.choice(US_SPANS)
    shift = rng.choice([None, None, span] + US_SPANS)
    sh = shift or span
    marks = [T0_US + k * sh for k in range(1, 9)] + [T0_US + k * sh + span for k in range(0, 8)]
    src = gen_us_src(rng, marks)
    d = rng.choice(marks[:8]) + rng.choice([-1, 0, 1, 500_000]) if rng.random() < 0.5 else T0_US + 9 * sh + span
    d = max(d, T0_US)
    return {"op": "win_time", "us": True, "t0": T0_US, "src": src, "span": span, "shift": shift, "dispose": d,
            "dw": rng.random() < 0.6, "as_td": rng.random() < 0.3, "sub_sched": rng.choice([None, None, "test"]),
            "horizon": max([d] + [m[0] for m in src]) + 3 * (sh + span) + 10}


def gen_time_count_us(rng):
    span = rng.choice(US_SPANS)
    marks = [T0_US + k * span for k in range(1, 9)]
    src = gen_us_src(rng, marks)
    d = rng.choice(marks) + rng.choice([-1, 0, 1, 500_000]) if rng.random() < 0.5 else T0_US + 10 * span
    d = max(d, T0_US)
    return {"op": "win_time_count", "us": True, "t0": T0_US, "src": src, "span": span, "count": rng.choice([1, 2, 3, 5]),
            "dispose": d, "dw": rng.random() < 0.6, "as_td": rng.random() < 0.3, "sub_sched": rng.choice([None, None, "test"]),
            "horizon": max([d] + [m[0] for m in src]) + 4 * span + 10}


def gen_derived(rng):
    """boundaries / openings / closings derived from the hot source itself: same-instant order = subscription order"""
    op = rng.choice(["win_bound", "win_bound", "win_when", "win_toggle"])
    n = rng.choice([2, 4, 6, 8, 12])
    src = gen_timeline(rng, n, nonconf=False)
    marks = rng.sample([enc(v) for v in VALS], rng.choice([1, 2, 3, 5]))
    d, dw = gen_dispose(rng, src)
    c = {"op": op, "src": src, "derived": marks, "dispose": d, "dw": dw, "cold": False}
    if op == "win_bound":
        c.update({"bnd": [], "bfirst": False})
    elif op == "win_when":
        c.update({"closings": [], "pool": n + 2, "raise_at": rng.choice([None] * 5 + [1, 2])})
    else:
        times = [m[0] for m in src if m[1][0] == "N" and fw.key(m[1][1]) in {fw.key(x) for x in marks} and m[0] > T0]
        c.update({"openings": [], "closings": [gen_closing(rng, src, t)[0] for t in times], "raise_at": None})
    return c


EXTRA_GENS = [(gen_derived, 200), (gen_time_us, 150), (gen_time_count_us, 100), (gen_bound, 200), (gen_when, 220), (gen_toggle, 250), (gen_time, 300), (gen_time_count, 200)]


# ----------------------------------------------------------------------------------------- real code
class _Hang(BaseException):   # not swallowed by `except Exception`
    pass


def _alarm(signum, frame):
    raise _Hang()


def mkrec(tl):
    from reactivex.testing import ReactiveTest

    rec = []
    for t, n in tl:
        if n[0] == "N":
            rec.append(ReactiveTest.on_next(t, fw.dec(n[1])))
        elif n[0] == "C":
            rec.append(ReactiveTest.on_completed(t))
        else:
            rec.append(ReactiveTest.on_error(t, InjectedError(n[1])))
    return rec


def timelines_of(case):
    """name -> timeline in hot-observable CREATION order (that order decides same-instant ties)."""
    op = case["op"]
    tl = {}
    if case.get("derived") is not None:
        # boundaries / openings / closings are derived from the hot source itself: source.pipe(filter(marker))
        tl["0"] = case["src"]
        if op == "win_toggle":
            for k in range(len(case["closings"])):
                if not isinstance(case["closings"][k], dict):
                    tl[str(k + 2)] = case["closings"][k]
        return tl
    if op == "win_bound":
        if case.get("bsync") is not None:
            return {"0": case["src"]}       # the boundaries observable delivers inside its own subscribe: no hot timeline
        names = ["1", "0"] if case.get("bfirst") else ["0", "1"]
        for k in names:
            tl[k] = case["src"] if k == "0" else case["bnd"]
        return tl
    if op == "win_when":
        order = case.get("order") or list(range(len(case["closings"]) + 1))
        for k in order:
            if k > 0 and isinstance(case["closings"][k - 1], dict):
                continue      # a closing that fires inside its own subscribe: not a hot timeline
            tl[str(k)] = case["src"] if k == 0 else case["closings"][k - 1]
        return tl
    if op == "win_toggle":
        order = case.get("order") or list(range(len(case["closings"]) + 2))
        for k in order:
            if k >= 2 and isinstance(case["closings"][k - 2], dict):
                continue
            tl[str(k)] = case["src"] if k == 0 else case["openings"] if k == 1 else case["closings"][k - 2]
        return tl
    return {"0": case["src"]}


def build(case, hots, sched, buffer):
    import reactivex as rx
    from reactivex import operators as ops

    op = case["op"]
    src = hots["0"]
    if op == "win_count":
        f = ops.buffer_with_count if buffer else ops.window_with_count
        return src.pipe(f(case["count"], case["skip"]))
    def sync_obs(n):
        """an observable that delivers `n` inside its own subscribe (and then stays silent)"""
        if n[0] == "C":
            return rx.empty()
        if n[0] == "E":
            return rx.throw(InjectedError(n[1]))
        from reactivex.subject import BehaviorSubject
        return BehaviorSubject(fw.dec(n[1]) if len(n) > 1 else 0)

    def derived():
        marks = {fw.key(m) for m in case["derived"]}
        return src.pipe(ops.filter(lambda v: fw.key(enc(v)) in marks))

    if op == "win_bound":
        f = ops.buffer if buffer else ops.window
        if case.get("derived") is not None:
            return src.pipe(f(derived()))
        bs = case.get("bsync")
        if bs is not None:
            return src.pipe(f(sync_obs(["N", 0] if bs == "N" else ["C"] if bs == "C" else bs)))
        return src.pipe(f(hots["1"]))
    if op == "win_when":
        calls = [0]

        def closing():
            k = calls[0]
            calls[0] += 1
            if case.get("raise_at") == k:
                raise InjectedError(f"cm{k}")
            if case.get("derived") is not None:
                return derived()
            if k < len(case["closings"]) and isinstance(case["closings"][k], dict):
                n = case["closings"][k]["sync"]       # fires inside its own subscribe
                if n[0] == "C":
                    return rx.empty()
                if n[0] == "E":
                    return rx.throw(InjectedError(n[1]))
                from reactivex.subject import BehaviorSubject
                return BehaviorSubject(fw.dec(n[1]))
            return hots[str(k + 1)] if str(k + 1) in hots else rx.never()

        f = ops.buffer_when if buffer else ops.window_when
        return src.pipe(f(closing))
    if op == "win_toggle":
        calls = [0]

        def closing(_):
            k = calls[0]
            calls[0] += 1
            if case.get("raise_at") == k:
                raise InjectedError(f"cm{k}")
            if k < len(case["closings"]) and isinstance(case["closings"][k], dict):
                return sync_obs(case["closings"][k]["sync"])
            return hots[str(k + 2)] if str(k + 2) in hots else rx.never()

        f = ops.buffer_toggle if buffer else ops.window_toggle
        return src.pipe(f(derived() if case.get("derived") is not None else hots["1"], closing))
    def dur(x):
        """timespan argument: integer ticks; in microsecond cases a float of seconds (or a timedelta)"""
        if x is None or not case.get("us"):
            return x
        if case.get("as_td"):
            from datetime import timedelta
            return timedelta(microseconds=x)
        return x / 1e6

    if op == "win_time":
        f = ops.buffer_with_time if buffer else ops.window_with_time
        return src.pipe(f(dur(case["span"]), dur(case["shift"]), scheduler=sched))
    if op == "win_time_count":
        f = ops.buffer_with_time_or_count if buffer else ops.window_with_time_or_count
        return src.pipe(f(dur(case["span"]), case["count"], scheduler=sched))
    raise ValueError(op)


def run_real(case, buffer):
    from reactivex.testing import TestScheduler

    us = bool(case.get("us"))
    if us:
        # microsecond resolution: a HistoricalScheduler (datetime clock, exact timedelta arithmetic); case times are
        # integer microseconds since the scheduler's epoch
        from datetime import timedelta
        from reactivex.scheduler import HistoricalScheduler
        from reactivex.testing.hotobservable import HotObservable
        from reactivex.testing.recorded import Recorded

        s = HistoricalScheduler()
        epoch = s.now

        def at(t):
            return epoch + timedelta(microseconds=t)

        def now():
            return round((s.now - epoch) / timedelta(microseconds=1))

        def mkhot(tl):
            return HotObservable(s, [Recorded(at(r.time), r.value) for r in mkrec(tl)])

        def subs_of(h):
            out = []
            for x in h.subscriptions:
                u = x.unsubscribe
                out.append([round((x.subscribe - epoch) / timedelta(microseconds=1)),
                            None if isinstance(u, int) else round((u - epoch) / timedelta(microseconds=1))])
            return out
    else:
        s = TestScheduler()

        def at(t):
            return t

        def now():
            return int(s.clock)

        def mkhot(tl):
            return s.create_hot_observable(*mkrec(tl))

        def subs_of(h):
            return fw.subs_json(h.subscriptions)
    log = []
    hots = {}
    colds = {}
    for k, tl in timelines_of(case).items():
        if (k == "0" and case.get("cold")) or (k == "1" and case.get("cold_b")):
            # cold source (and, for window_(boundaries), cold boundaries: subscribed after the source, so at equal virtual
            # times the source's message comes first): messages are scheduled when the operator subscribes (relative times); a logging wrapper
            # stands in for the spy
            import reactivex as rx
            cold = s.create_cold_observable(*mkrec([[t - t0_of(case), n] for t, n in tl if t >= t0_of(case)]))
            colds[k] = cold

            def mkwrap(cold, k):
                def subscribe(observer, scheduler=None):
                    def nx(v):
                        if not buffer:
                            log.append([now(), "A", int(k), ["N", enc(v)]])
                        observer.on_next(v)

                    def er(e):
                        if not buffer:
                            log.append([now(), "A", int(k), ["E", err_name(e)]])
                        observer.on_error(e)

                    def co():
                        if not buffer:
                            log.append([now(), "A", int(k), ["C"]])
                        observer.on_completed()
                    return cold.subscribe(nx, er, co, scheduler=scheduler)
                return rx.Observable(subscribe)
            hots[k] = mkwrap(cold, k)
            continue
        h = mkhot(tl)
        hots[k] = h
        if not buffer:
            # spy: first observer of the hot source -> logs every arrival just before the operator sees it
            def mk(k):
                from reactivex import abc

                class Spy(abc.ObserverBase):   # raw observer: never stops, sees every message of the hot source
                    def on_next(self, v):
                        log.append([now(), "A", int(k), ["N", enc(v)]])

                    def on_error(self, e):
                        log.append([now(), "A", int(k), ["E", err_name(e)]])

                    def on_completed(self):
                        log.append([now(), "A", int(k), ["C"]])
                return Spy()
            h.observers.append(mk(k))
    wsubs = []
    nwin = [0]
    sub = []

    def on_next(w):
        if buffer:
            log.append([now(), "O", ["N", enc(w)]])
            return
        i = nwin[0]
        nwin[0] += 1
        log.append([now(), "O", ["N", i]])
        wsubs.append(w.subscribe(lambda v: log.append([now(), "W", i, ["N", enc(v)]]),
                                 lambda e: log.append([now(), "W", i, ["E", err_name(e)]]),
                                 lambda: log.append([now(), "W", i, ["C"]])))

    def do_sub(sc, st):
        o = build(case, hots, s, buffer)
        kw = {}
        if case.get("sub_sched"):
            # a DIFFERENT scheduler at subscribe level (never started): the scheduler given explicitly to the operator
            # must win, so nothing changes
            from reactivex.scheduler import ImmediateScheduler
            kw["scheduler"] = TestScheduler() if case["sub_sched"] == "test" else ImmediateScheduler()
        sub.append(o.subscribe(on_next, lambda e: log.append([now(), "O", ["E", err_name(e)]]),
                               lambda: log.append([now(), "O", ["C"]]), **kw))

    def do_disp(sc, st):
        log.append([now(), "D"])
        sub[0].dispose()
        if case.get("dw", True):
            for d in wsubs:
                d.dispose()

    s.schedule_absolute(at(t0_of(case)), do_sub)
    if case.get("dispose") is not None:
        s.schedule_absolute(at(case["dispose"]), do_disp)
    s.schedule_absolute(at(case.get("horizon", 3000)), lambda sc, st: s.stop())
    esc = []
    for _ in range(20):
        try:
            s.start()
            break
        except InjectedError as e:
            esc.append([now(), e.name])
            s.stop()      # start() left _is_enabled set; without this the restart returns at once
        except Exception as e:  # noqa: library exception escaping into the scheduler
            esc.append([now(), type(e).__name__])
            s.stop()
    return {"log": log, "subs": {k: subs_of(colds.get(k) or h) for k, h in sorted(hots.items())}, "escaped": esc}


def run_resub(case, twice):
    """one piped (buffer) observable over a cold source; subscribed at t0_of(case) (disposed after first_len) when `twice`, and
    again at 1000: returns what the subscription at 1000 sees (times relative to 1000)."""
    from reactivex.testing import TestScheduler

    s = TestScheduler()
    cold = s.create_cold_observable(*mkrec([[t - t0_of(case), n] for t, n in case["src"] if t >= t0_of(case)]))
    o = build(case, {"0": cold}, s, True)
    out = []

    def sub(record, until):
        def act(sc, st):
            t0 = int(s.clock)
            d = o.subscribe(lambda v: record and out.append([int(s.clock) - t0, ["N", enc(v)]]),
                            lambda e: record and out.append([int(s.clock) - t0, ["E", err_name(e)]]),
                            lambda: record and out.append([int(s.clock) - t0, ["C"]]))
            s.schedule_absolute(until, lambda sc2, st2: d.dispose())
        return act
    if twice:
        s.schedule_absolute(t0_of(case), sub(False, t0_of(case) + case["first_len"]))
    s.schedule_absolute(1000, sub(True, 1600))
    s.schedule_absolute(3000, lambda sc, st: s.stop())
    try:
        s.start()
    except Exception as e:  # noqa
        out.append(["escaped", err_name(e)])
    return out


def impl(case):
    import reactivex  # noqa: F401  (imports happen before the watchdog is armed)
    import reactivex.operators  # noqa: F401
    import reactivex.testing  # noqa: F401

    # CPU-time watchdog (a runaway scheduler loop burns CPU; wall-clock stalls of a loaded machine do not count)
    old = signal.signal(signal.SIGVTALRM, _alarm)
    signal.setitimer(signal.ITIMER_VIRTUAL, 10.0)
    try:
        if case.get("resub"):
            return {"resub": [run_resub(case, False), run_resub(case, True)]}
        w = run_real(case, False)
        b = run_real(case, True)
        return {"win": w, "buf": b}
    except _Hang:
        return {"hang": True}
    finally:
        signal.setitimer(signal.ITIMER_VIRTUAL, 0)
        signal.signal(signal.SIGVTALRM, old)


# ----------------------------------------------------------------------------------------- model side
PRIO_D = 10 ** 6


def merged_events(case):
    """static global order of the hot messages on the TestScheduler: by time, then creation order of the hot
    observable, then message index; the subscribe (t0_of(case)) and dispose actions are scheduled after every hot message,
    so messages at time <= t0_of(case) are never seen and a dispose comes last in its instant."""
    evs = []
    if case.get("derived") is not None:
        # one hot source, several subscriptions of the operator to it: a message is delivered to them in SUBSCRIPTION
        # order.  window_: source first, then boundaries; window_when: source first, then the current closing (all
        # closing ids in descending order: the one subscribed while this message is handled does not see it);
        # window_toggle (group_join): openings (left) are subscribed first, then the source (right).
        marks = {fw.key(m) for m in case["derived"]}
        op = case["op"]
        others = []
        for k, tl in timelines_of(case).items():
            if k != "0":
                for i, (t, n) in enumerate(tl):
                    if t > t0_of(case):
                        others.append((t, 5 + int(k), i, [t, int(k), n]))
        for i, (t, n) in enumerate(case["src"]):
            if t <= t0_of(case):
                continue
            hit = n[0] != "N" or fw.key(n[1]) in marks
            seq = []
            if op == "win_bound":
                seq = [[t, 0, n]] + ([[t, 1, n]] if hit else [])
            elif op == "win_when":
                seq = [[t, 0, n]] + ([[t, j, n] for j in range(case["pool"], 0, -1)] if hit else [])
            else:
                seq = ([[t, 1, n]] if hit else []) + [[t, 0, n]]
            for j, e in enumerate(seq):
                evs.append((t, 0, i * 100 + j, e))
        evs += others
        if case.get("dispose") is not None:
            evs.append((case["dispose"], PRIO_D, 0, [case["dispose"], "D", bool(case.get("dw", True))]))
        evs.sort(key=lambda e: e[:3])
        return [e[3] for e in evs]
    for prio, (k, tl) in enumerate(timelines_of(case).items()):
        cold = (k == "0" and case.get("cold")) or (k == "1" and case.get("cold_b"))
        for i, (t, n) in enumerate(tl):
            if cold:
                # a cold observable schedules its messages at subscription: they come after every hot message and after
                # the harness' dispose action of their instant, and a message due at the subscription instant itself is
                # delivered; cold boundaries are subscribed after the (cold) source: SUBSCRIPTION order decides ties
                if t >= t0_of(case):
                    evs.append((t, PRIO_D + 1 + int(k), i, [t, int(k), n]))
            elif t > t0_of(case):
                evs.append((t, prio, i, [t, int(k), n]))
    if case.get("dispose") is not None:
        evs.append((case["dispose"], PRIO_D, 0, [case["dispose"], "D", bool(case.get("dw", True))]))
    evs.sort(key=lambda e: e[:3])
    return [e[3] for e in evs]


MODELLED = {"win_count", "win_bound", "win_when", "win_toggle", "win_time", "win_time_count"}


def model_request(case):
    if case["op"] not in MODELLED or case.get("resub"):
        return None
    r = {k: v for k, v in case.items() if k not in ("src", "bnd", "closings", "openings")}
    r["t0"] = t0_of(case)
    r["horizon"] = case.get("horizon", 3000)
    r["events"] = merged_events(case)
    if case["op"] == "win_count" and r.get("skip") is None:
        r["skip"] = case["count"]
    if case["op"] == "win_time" and r.get("shift") is None:
        r["shift"] = case["span"]
    if "closings" in case:
        r["pool"] = case.get("pool", len(case["closings"]))
        if case["op"] in ("win_when", "win_toggle"):
            r["sync"] = [None if not isinstance(c, dict) else ("fire" if c["sync"][0] in ("N", "C") else ["E", c["sync"][1]])
                         for c in case["closings"]]
    if r.get("raise_at") is None:
        r.pop("raise_at", None)
    return r


def _strip(log):
    return [e for e in log if e[1] in ("O", "W")]


def _flat(subs):
    return {"all": [iv for k in sorted(subs, key=int) for iv in subs[k]]}


def canon_impl(case, out):
    if "hang" in out or "resub" in out:
        return out
    if case.get("derived") is not None:
        # every subscription of the operator to the one hot source, in subscription order
        return {"log": _strip(out["win"]["log"]), "subs": out["win"]["subs"], "escaped": out["win"]["escaped"],
                "blog": _strip(out["buf"]["log"]), "bsubs": out["buf"]["subs"]}
    return {"log": _strip(out["win"]["log"]), "subs": {k: v for k, v in out["win"]["subs"].items()},
            "escaped": out["win"]["escaped"],
            "blog": _strip(out["buf"]["log"]), "bsubs": out["buf"]["subs"]}


def _subs_from(log, names):
    subs = {k: [] for k in names}
    for e in log:
        if e[1] == "S":
            subs.setdefault(str(e[2]), []).append([e[0], None])
        elif e[1] == "U":
            for iv in subs.get(str(e[2]), []):
                if iv[1] is None:
                    iv[1] = e[0]
                    break
    return subs


def canon_model(case, resp):
    if isinstance(resp, dict) and "error" in resp:
        return resp
    names = sorted(timelines_of(case).keys())
    if case.get("derived") is not None:
        def order(log):
            # intervals in the order of the model's subscribe events; derived ids (not hot timelines) belong to source "0"
            ivs, res = {}, {n: [] for n in names}
            for e in log:
                if e[1] == "S":
                    iv = [e[0], None]
                    ivs.setdefault(e[2], []).append(iv)
                    res[str(e[2]) if str(e[2]) in names else "0"].append(iv)
                elif e[1] == "U":
                    for iv in ivs.get(e[2], []):
                        if iv[1] is None:
                            iv[1] = e[0]
                            break
            return res
        return {"log": _strip(resp["log"]), "subs": order(resp["log"]),
                "escaped": [[e[0], e[2]] for e in resp["log"] if e[1] == "X"],
                "blog": _strip(resp["blog"]), "bsubs": order(resp["blog"])}
    return {"log": _strip(resp["log"]), "subs": _subs_from(resp["log"], names),
            "escaped": [[e[0], e[2]] for e in resp["log"] if e[1] == "X"],
            "blog": _strip(resp["blog"]), "bsubs": _subs_from(resp["blog"], names)}


# ----------------------------------------------------------------------------------------- oracle
def src_elems(case):
    """(time, value) of the source elements the operator can see: after t0_of(case), before the source's first terminal."""
    out, term = [], None
    for t, n in case["src"]:
        if t < t0_of(case) or (t == t0_of(case) and not case.get("cold")):
            continue
        if n[0] == "N":
            out.append((t, n[1]))
        else:
            term = (t, n)
            break
    return out, term


def windows_of(log):
    """observed windows: id -> {"open": t, "items": [(t, v)], "end": (t, notif) | None}"""
    w = {}
    for e in log:
        if e[1] == "O" and e[2][0] == "N":
            w[e[2][1]] = {"open": e[0], "items": [], "end": None}
        elif e[1] == "W":
            if e[3][0] == "N":
                w[e[2]]["items"].append((e[0], e[3][1]))
            else:
                w[e[2]]["end"] = (e[0], e[3])
    return w


def oracle_partition(case, log):
    """window_partition, directly on the interleaved log: each source arrival is delivered, immediately and in
    window-creation order, to exactly the windows that are open (emitted, not ended, recorder still attached)."""
    open_ = []
    detached = False
    i = 0
    src_done = False
    while i < len(log):
        e = log[i]
        i += 1
        if e[1] == "D":
            if case.get("dw", True):
                open_, detached = [], True
        elif e[1] == "O" and e[2][0] == "N" and not detached:
            open_.append(e[2][1])
        elif e[1] == "W" and e[3][0] != "N":
            if e[2] in open_:
                open_.remove(e[2])
            else:
                return f"window {e[2]} ended twice or while not open: {e}"
        elif e[1] == "W":
            return f"window element outside the delivery of a source arrival: {e}"
        elif e[1] == "A" and e[2] == 0 and (e[0] > t0_of(case) or case.get("cold")):
            if e[3][0] != "N":
                src_done = True
                continue
            if src_done:
                continue
            j, got = i, []
            if case.get("derived") is not None and case["op"] == "win_toggle":
                # openings derived from the source are subscribed first: this very message may open a window before the
                # source path delivers it
                while j < len(log) and log[j][1] == "O" and log[j][2][0] == "N" and not detached:
                    open_.append(log[j][2][1])
                    j += 1
            while j < len(log) and log[j][1] == "W" and log[j][3][0] == "N":
                got.append((log[j][2], log[j][3][1]))
                j += 1
            exp = [(w, e[3][1]) for w in open_]
            if fw.key(got) != fw.key(exp):
                return f"arrival {e} delivered to {got}, open windows {open_}"
            i = j
    return None


def oracle_end_with_source(case, log):
    """all windows open when the source terminates (seen by the operator) end with the source's terminal kind at that
    instant.  Windows opened afterwards are not constrained by the property."""
    open_ = []
    for i, e in enumerate(log):
        if e[1] == "D" and case.get("dw", True):
            return None
        if e[1] == "O" and e[2][0] == "N":
            open_.append(e[2][1])
        elif e[1] == "W" and e[3][0] != "N":
            if e[2] in open_:
                open_.remove(e[2])
        elif e[1] == "A" and e[2] == 0 and (e[0] > t0_of(case) or case.get("cold")) and e[3][0] != "N":
            ends = {}
            for f in log[i + 1:]:
                if f[0] != e[0] or f[1] in ("A", "D"):
                    break
                if f[1] == "W" and f[3][0] != "N":
                    ends[f[2]] = f[3]
            for w in open_:
                if w not in ends:
                    return f"window {w} is open when the source terminates at {e[0]} with {e[3]} but does not end then"
                if fw.key(ends[w]) != fw.key(e[3]):
                    return f"window {w} ends with {ends[w]}, the source terminated with {e[3]}"
            return None
    return None


def oracle_buffers(case, out):
    """each buffer equals the contents of its window: the k-th buffer is the k-th completed window's items,
    emitted when that window completes (buffer_with_count drops empty ones); the buffer stream fails with the
    first error of the window stream (outer or window) and completes when the outer and every window completed."""
    if case.get("dispose") is not None and not case.get("dw", True):
        return None  # window run and buffer run are disposed differently
    wlog = out["win"]["log"]
    ws = windows_of(wlog)
    exp, term, outer_c, open_ = [], None, None, set()
    for e in wlog:
        if e[1] == "O" and e[2][0] == "N":
            open_.add(e[2][1])
        elif e[1] == "W" and e[3][0] == "C":
            open_.discard(e[2])
            items = [v for t, v in ws[e[2]]["items"]]
            if not (case["op"] == "win_count" and not items):
                exp.append([e[0], items])
            if outer_c is not None and not open_:
                term = [e[0], "O", ["C"]]
                break
        elif (e[1] == "W" and e[3][0] == "E") or (e[1] == "O" and e[2][0] == "E"):
            term = [e[0], "O", e[3] if e[1] == "W" else e[2]]
            break
        elif e[1] == "O" and e[2][0] == "C":
            outer_c = e[0]
            if not open_:
                term = [e[0], "O", ["C"]]
                break
    got = [[e[0], e[2][1]] for e in out["buf"]["log"] if e[1] == "O" and e[2][0] == "N"]
    if fw.key(got) != fw.key(exp):
        return f"buffers {got} != contents of completed windows {exp}"
    bt = [e for e in out["buf"]["log"] if e[1] == "O" and e[2][0] != "N"]
    if fw.key(bt) != fw.key([term] if term else []):
        return f"buffer stream terminal {bt} != window stream terminal {term}"
    return None


def oracle_count(case, out):
    log = out["win"]["log"]
    ws = windows_of(log)
    elems, term = src_elems(case)
    count, skip = case["count"], case["skip"] or case["count"]
    d, dw = case.get("dispose"), case.get("dw", True)
    cold = case.get("cold")

    def bd(t):      # "before the dispose action": a cold source's message due at the dispose instant comes after it
        return t < d if cold else t <= d

    if d is not None:
        if dw:
            elems = [e for e in elems if bd(e[0])]
            if term and not bd(term[0]):
                term = None
    for k, w in sorted(ws.items()):
        exp = elems[k * skip: k * skip + count]
        if d is not None and dw:
            pass
        if fw.key([list(x) for x in w["items"]]) != fw.key([list(x) for x in exp]):
            return f"window {k} holds {w['items']}, expected elements {k*skip}..{k*skip+count-1}: {exp}"
        opened = t0_of(case) if k == 0 else (elems[k * skip - 1][0] if k * skip - 1 < len(elems) else None)
        if opened != w["open"]:
            return f"window {k} opened at {w['open']}, expected {opened}"
        if len(elems) >= k * skip + count:
            exp_end = (elems[k * skip + count - 1][0], ["C"])
        elif term is not None:
            exp_end = (term[0], term[1])
        else:
            exp_end = None
        if d is not None and dw and exp_end and not bd(exp_end[0]):
            exp_end = None
        if fw.key(w["end"] and [w["end"][0], w["end"][1]]) != fw.key(exp_end and [exp_end[0], exp_end[1]]):
            return f"window {k} ended {w['end']}, expected {exp_end}"
    # number of windows: one per k with k*skip <= number of elements seen while the outer observer is alive
    alive = [e for e in elems if d is None or bd(e[0])]
    nexp = len(alive) // skip + 1
    if term is not None and (d is None or term[0] <= d) and len(alive) == len(elems):
        pass
    if len(ws) != nexp:
        return f"{len(ws)} windows emitted, expected {nexp}"
    return None


def toggle_shape(case, log):
    """the known-finding shape: the source COMPLETES (seen by the operator) while a toggle window is open."""
    if case["op"] != "win_toggle":
        return False
    open_ = set()
    for e in log:
        if e[1] == "O" and e[2][0] == "N":
            open_.add(e[2][1])
        elif e[1] == "W" and e[3][0] != "N":
            open_.discard(e[2])
        elif e[1] == "D" and case.get("dw", True):
            return False
        elif e[1] == "A" and e[2] == 0 and (e[0] > t0_of(case) or case.get("cold")) and e[3][0] != "N":
            return e[3][0] == "C" and bool(open_)
    return False


SHAPE_TAG = "[toggle window open when source completes] "


def oracle(case, out):
    if "hang" in out:
        return "implementation hangs"
    if "resub" in out:
        a, b = out["resub"]
        if fw.key(a) != fw.key(b):
            return f"second subscription of the same piped observable sees {b}, a fresh one sees {a}"
        return None
    v = oracle_(case, out)
    if v and toggle_shape(case, out["win"]["log"]):
        return SHAPE_TAG + v
    return v


def oracle_(case, out):
    if out["win"]["escaped"] or out["buf"]["escaped"]:
        return f"exception escaped into the scheduler: {out['win']['escaped'] or out['buf']['escaped']}"
    log = out["win"]["log"]
    for f in (oracle_partition, oracle_end_with_source):
        v = f(case, log)
        if v:
            return v
    v = oracle_buffers(case, out)
    if v:
        return v
    f = OP_ORACLES.get(case["op"])
    return f(case, out) if f else None


# ---- "windows open and close when their rule dictates": expected window tables computed from the timelines
def _static_events(case):
    return [e for e in merged_events({**case, "dispose": None})]


def _sc(case):
    return "cold" if case.get("cold") else "hot"


def _win(t, cause):
    return {"open": t, "ocause": cause, "items": [], "end": None}


def spec_bound(case):
    ws, alive = [_win(t0_of(case), "init")], True
    bc = "cold" if case.get("cold_b") else "hot"      # a cold boundary due at the dispose instant comes after the dispose
    bs = case.get("bsync")
    if bs == "N":
        ws[-1]["end"] = (t0_of(case), ["C"], "init")
        ws.append(_win(t0_of(case), "init"))
    elif bs is not None:
        ws[-1]["end"] = (t0_of(case), ["C"] if bs == "C" else bs, "init")
        return ws
    for t, k, n in _static_events(case):
        if not alive:
            break
        if n[0] == "N":
            if k == 0:
                ws[-1]["items"].append((t, n[1]))
            else:
                ws[-1]["end"] = (t, ["C"], bc)
                ws.append(_win(t, bc))
        else:
            ws[-1]["end"] = (t, n, _sc(case) if k == 0 else bc)
            alive = False
    return ws


def spec_when(case):
    """a closing signal (first next / completion of the current closing observable) ends the window and opens the next; a
    closing observable that fires inside its own subscribe does so at once; when the closing selector raises or a closing
    errors, the open window and the outer sequence both end with that error."""
    ws, cur = [_win(t0_of(case), "init")], 0
    cl = case["closings"]

    def arm(t, cause):
        """the closing for window `cur` is requested at time t; returns False when the operator is finished."""
        nonlocal cur
        while True:
            if case.get("raise_at") == cur:
                ws[-1]["end"] = (t, ["E", f"cm{cur}"], cause)
                return False
            if cur < len(cl) and isinstance(cl[cur], dict):
                n = cl[cur]["sync"]
                if n[0] == "E":
                    ws[-1]["end"] = (t, n, cause)
                    return False
                ws[-1]["end"] = (t, ["C"], cause)
                ws.append(_win(t, cause))
                cur += 1
                continue
            return True

    if not arm(t0_of(case), "init"):
        return ws
    for t, k, n in _static_events(case):
        if k == 0:
            if n[0] == "N":
                ws[-1]["items"].append((t, n[1]))
            else:
                ws[-1]["end"] = (t, n, _sc(case))
                break
        elif k == cur + 1:
            if n[0] == "E":
                ws[-1]["end"] = (t, n, "hot")
                break
            ws[-1]["end"] = (t, ["C"], "hot")
            ws.append(_win(t, "hot"))
            cur += 1
            if not arm(t, "hot"):
                break
    return ws


def spec_toggle(case):
    """up to the source's terminal only (what happens to openings after it is not constrained by the property)."""
    ws, open_, nopen = [], {}, 0
    for t, k, n in _static_events(case):
        if k == 0:
            if n[0] == "N":
                for j in open_:
                    ws[j]["items"].append((t, n[1]))
            else:
                for j in open_:
                    ws[j]["end"] = (t, n, _sc(case))
                return ws, t
        elif k == 1:
            if n[0] == "N":
                ws.append(_win(t, "hot"))
                open_[nopen] = True
                if case.get("raise_at") == nopen:
                    for j in open_:
                        ws[j]["end"] = (t, ["E", f"cm{nopen}"], "hot")
                    return ws, t
                cl = case["closings"]
                if nopen < len(cl) and isinstance(cl[nopen], dict):     # the closing fires inside its own subscribe
                    n2 = cl[nopen]["sync"]
                    if n2[0] == "E":
                        for j in open_:
                            ws[j]["end"] = (t, n2, "hot")
                        return ws, t
                    ws[nopen]["end"] = (t, ["C"], "hot")
                    del open_[nopen]
                nopen += 1
            elif n[0] == "E":
                for j in open_:
                    ws[j]["end"] = (t, n, "hot")
                return ws, t
            else:
                pass    # openings completed: no more windows; open ones go on
                # (later opening messages are not delivered: its AutoDetachObserver stopped)
                case = {**case, "openings": [m for m in case["openings"] if m[0] < t or (m[0] == t and m[1][0] == "C")]}
                rest = [e for e in _static_events(case)]
                # continue the walk without further openings
                return _toggle_rest(case, ws, open_, nopen, t)
        else:
            j = k - 2
            if j in open_ and ws[j]["open"] <= t:
                if n[0] == "E":
                    for i in open_:
                        ws[i]["end"] = (t, n, "hot")
                    return ws, t
                ws[j]["end"] = (t, ["C"], "hot")
                del open_[j]
    return ws, None


def _toggle_rest(case, ws, open_, nopen, t0):
    seen = False
    for t, k, n in _static_events(case):
        if not seen:
            if k == 1 and n[0] == "C" and t == t0:
                seen = True
            continue
        if k == 0:
            if n[0] == "N":
                for j in open_:
                    ws[j]["items"].append((t, n[1]))
            else:
                for j in open_:
                    ws[j]["end"] = (t, n, _sc(case))
                return ws, t
        elif k >= 2:
            j = k - 2
            if j in open_:
                if n[0] == "E":
                    for i in open_:
                        ws[i]["end"] = (t, n, "hot")
                    return ws, t
                ws[j]["end"] = (t, ["C"], "hot")
                del open_[j]
    return ws, None


def spec_time(case):
    span, shift = case["span"], case["shift"] or case["span"]
    elems, term = src_elems(case)
    horizon = (term[0] if term else max([case.get("dispose") or t0_of(case)] + [e[0] for e in elems])) + span + shift + 1
    ws, k = [], 0
    while True:
        o = t0_of(case) + k * shift
        if o >= (term[0] if term else horizon):      # the source wins ties: a window due at the terminal instant never opens
            break
        w = _win(o, "init" if k == 0 else "timer")
        c = o + span
        w["items"] = [(t, v) for t, v in elems if o < t <= c]
        w["end"] = (term[0], term[1], "hot") if term and term[0] <= c else (c, ["C"], "timer")
        ws.append(w)
        k += 1
    return ws


def spec_time_count(case):
    span, count = case["span"], case["count"]
    elems, term = src_elems(case)
    limit = (term[0] if term else max([case.get("dispose") or t0_of(case)] + [e[0] for e in elems]) + span + 1)
    ws, o, i, cause = [], t0_of(case), 0, "init"
    while True:
        w = _win(o, cause)
        ws.append(w)
        c = o + span
        while i < len(elems) and elems[i][0] <= c and len(w["items"]) < count:
            w["items"].append(elems[i])
            i += 1
        if len(w["items"]) == count:
            o, cause = w["items"][-1][0], "hot"
            if term and term[0] < o:
                pass
            w["end"] = (o, ["C"], "hot")
        elif term and term[0] <= c:
            w["end"] = (term[0], term[1], "hot")
            break
        else:
            w["end"] = (c, ["C"], "timer")
            o, cause = c, "timer"
        if o > limit:
            break
    return ws


def oracle_rule(case, out):
    op = case["op"]
    cut = None
    if op == "win_bound":
        exp = spec_bound(case)
    elif op == "win_when":
        exp = spec_when(case)
    elif op == "win_toggle":
        exp, cut = spec_toggle(case)
    elif op == "win_time":
        exp = spec_time(case)
    else:
        exp = spec_time_count(case)
    d, dw = case.get("dispose"), case.get("dw", True)

    def before(t, cause):
        return d is None or (t <= d if cause in ("hot", "init") else t < d)

    def item_before(t):
        return t < d if case.get("cold") else t <= d

    want = []
    for w in exp:
        if not before(w["open"], w["ocause"]):
            continue
        items, end = w["items"], w["end"]
        if d is not None and dw:
            items = [it for it in items if item_before(it[0])]
            if end and not before(end[0], end[2]):
                end = None
        want.append({"open": w["open"], "items": [list(x) for x in items], "end": end and [end[0], end[1]]})
    got = []
    for k, w in sorted(windows_of(out["win"]["log"]).items()):
        if cut is not None and w["open"] > cut:
            continue
        items, end = w["items"], w["end"]
        if cut is not None:
            items = [it for it in items if it[0] <= cut]
            if end and end[0] > cut:
                end = None
        got.append({"open": w["open"], "items": [list(x) for x in items], "end": end and [end[0], end[1]]})
    if cut is not None:
        want = [w for w in want if w["open"] <= cut]
        # a window opened AT the cut instant after the terminal (same instant, later in order) is not constrained
        if len(got) > len(want) and all(g["open"] == cut for g in got[len(want):]):
            got = got[:len(want)]
    if fw.key(got) != fw.key(want):
        for i, (g, w) in enumerate(zip(got, want)):
            if fw.key(g) != fw.key(w):
                return f"window {i}: observed {g}, the rule dictates {w}"
        return f"{len(got)} windows observed, the rule dictates {len(want)}: observed {got[len(want):]}, expected {want[len(got):]}"
    return None


OP_ORACLES = {"win_count": oracle_count, "win_bound": oracle_rule, "win_when": oracle_rule, "win_toggle": oracle_rule,
              "win_time": oracle_rule, "win_time_count": oracle_rule}


def classify(case, why):
    if case["op"] == "win_toggle" and why.startswith(SHAPE_TAG):
        return KNOWN_TOGGLE
    return None


def nontrivial(case, out):
    if "hang" in out:
        return True
    if "resub" in out:
        return len(out["resub"][0]) >= 2
    ws = windows_of(out["win"]["log"])
    return len(ws) >= 2 and any(w["items"] for w in ws.values())


def bucket(case, out):
    yield case["op"]
    yield "source:" + ("cold" if case.get("cold") else "hot")
    if case.get("cold_b"):
        yield "cold source and cold boundaries at equal instants"
    if case.get("derived") is not None:
        yield "derived from the source (tie order = subscription order):" + case["op"]
    if case.get("sub_sched"):
        yield "operator scheduler A + subscribe scheduler B (" + case["sub_sched"] + ")"
    if case.get("us"):
        yield "float seconds / timedelta spans (microsecond clock)"
    if "resub" in out:
        yield "resubscription"
        return
    if "hang" in out:
        yield "hang"
        return
    if case["op"] in ("win_when", "win_toggle") and any(isinstance(c, dict) for c in case["closings"]):
        yield case["op"][4:] + ":closing fires inside subscribe"
    if case.get("bsync") is not None:
        yield "boundaries deliver inside subscribe"
    if case["op"] == "win_count":
        c, s = case["count"], case["skip"] or case["count"]
        yield "count:" + ("skip<count" if s < c else "skip>count" if s > c else "skip=count")
    elems, term = src_elems(case)
    yield "term:" + (term[1][0] if term else "none")
    if case.get("dispose") is not None:
        yield "dispose:" + ("windows too" if case.get("dw", True) else "outer only")
    yield "windows:" + str(min(len(windows_of(out["win"]["log"])), 6))


def shrink(case):
    for fld in ("src", "bnd", "openings"):
        if fld in case:
            for i in range(len(case[fld])):
                c = dict(case)
                c[fld] = case[fld][:i] + case[fld][i + 1:]
                yield c
    if case.get("dispose") is not None:
        c = dict(case)
        c["dispose"] = None
        yield c


THEOREMS = [
    "C18.wwc_window_k",
    "C18.wwc_window_count",
    "C18.wwc_closes_at_count",
    "C18.wwc_ends_with_source",
    "C18.window_partition_count",
    "C18.window_partition_boundaries",
    "C18.window_partition_when",
    "C18.window_partition_toggle",
    "C18.window_partition_time",
    "C18.window_partition_time_or_count",
    "C18.windows_end_with_source_count",
    "C18.windows_end_with_source_boundaries",
    "C18.windows_end_with_source_when",
    "C18.windows_end_when_mapper_raises",
    "C18.when_mapper_raise_asis",
    "C18.when_sync_closing_rotation",
    "C18.windows_end_with_source_time",
    "C18.windows_end_with_source_time_or_count",
    "C18.toggle_windows_end_partial",
    "C18.toggle_completion_counter",
    "C18.timer_chain",
    "C18.wwt_window_k",
    "C18.closed_windows_ended_boundaries",
    "C18.closed_windows_ended_when",
    "C18.closed_windows_ended_time",
    "C18.closed_windows_ended_time_or_count",
    "C18.all_windows_end_with_source_boundaries",
    "C18.all_windows_end_with_source_when",
    "C18.all_windows_end_with_source_time",
    "C18.all_windows_end_with_source_time_or_count",
    "C18.buffer_count_filter",
    "C18.buffer_run_is_view_count",
    "C18.buffer_run_is_view_boundaries",
    "C18.buffer_run_is_view_when",
    "C18.buffer_run_is_view_toggle",
    "C18.buffer_run_is_view_time",
    "C18.buffer_run_is_view_time_or_count",
    "C18.buffer_is_items",
    "C18.buffer_view_seen",
    "C18.buffer_eq_window_count",
    "C18.buffer_eq_window_boundaries",
    "C18.buffer_eq_window_when",
    "C18.buffer_eq_window_toggle",
    "C18.buffer_eq_window_time",
    "C18.buffer_eq_window_time_or_count",
    "C02Win.terminal_releases_all_count", "C02Win.dispose_releases_all_count",
    "C02Win.terminal_releases_all_boundaries", "C02Win.dispose_releases_all_boundaries",
    "C02Win.terminal_releases_all_when", "C02Win.dispose_releases_all_when",
    "C02Win.terminal_releases_all_toggle", "C02Win.dispose_releases_all_toggle",
    "C02Win.terminal_releases_all_time", "C02Win.dispose_releases_all_time",
    "C02Win.terminal_releases_all_time_or_count", "C02Win.dispose_releases_all_time_or_count",
    "C02Win.release_iff_count", "C02Win.source_subscribed_iff_count",
    "C02Win.release_iff_boundaries", "C02Win.source_subscribed_iff_boundaries",
    "C02Win.release_iff_when", "C02Win.source_subscribed_iff_when",
    "C02Win.release_iff_toggle", "C02Win.source_subscribed_iff_toggle",
    "C02Win.release_iff_time", "C02Win.source_subscribed_iff_time",
    "C02Win.release_iff_time_or_count", "C02Win.source_subscribed_iff_time_or_count",
    "C02Win.terminal_releases_all_group", "C02Win.dispose_releases_all_group", "C02Win.group_holder_blocks_release",
    "C02Win.fin_source_disposed_at_most_once", "C02Win.terminal_releases_all_fin_partial", "C02Win.dispose_releases_all_fin",
    "C02Win.using_releases_all", "C02Win.finally_action_releases_all",
]
RULE = ("six window operators (with_count, boundaries, when, toggle, with_time, with_time_or_count) and their buffer twins on hot "
        "(and, for the untimed operators, also cold-source) TestScheduler timelines: 0..20 elements incl. falsy values and same-instant arrivals, count/skip 1..N with skip<count, "
        "=count, >count, timespan/timeshift overlapping, equal and gapped (incl. span 0), boundary / opening / closing timelines placed "
        "at and around element instants with both creation orders (both tie orders), closings that fire by next, by completion, by "
        "error, never, or INSIDE their own subscribe (empty(), BehaviorSubject, throw — window_when and toggle closings, and "
        "boundaries), raising closing mappers, source C / E / no terminal / non-conforming tail, dispose at / around arrivals with "
        "and without disposing the window subscribers.  A recorder is subscribed to every emitted window inside the outer on_next. "
        "Compared: the full ordered timed log (outer + per-window notifications), the subscription intervals of every source, "
        "exceptions escaping into the scheduler, for the window and for the buffer operator.  non-trivial = at least two windows "
        "and at least one element delivered to a window.  Plus oracle-only re-subscription cases: one piped buffer observable over a cold "
        "source subscribed twice must give the second subscriber what a fresh one gets")
ASSUMPTIONS = [
    "single-threaded virtual-time execution (TestScheduler); hot sources, so the global order of same-instant events is the static "
    "(time, creation order, message index) order, with the harness' subscribe/dispose actions after the hot messages of their instant; "
    "a cold source's messages (scheduled at subscription) come after both",
    "timed operators get the TestScheduler explicitly; window_toggle's right duration empty() completes synchronously (no scheduler "
    "is passed at subscription)",
    "window subscribers subscribe inside the outer on_next and do not raise",
    "model time is integer ticks; float-second / timedelta spans are exercised with 1 tick = 1 microsecond on a HistoricalScheduler "
    "(spans that are whole microseconds; IEEE rounding of sub-microsecond spans is outside the model)",
]
TRUSTED_EXTRA = ["the static merge of hot timelines in harness/props/C18.py (merged_events) mirrors the TestScheduler's (due, seq) order"]
LEVEL_TEXT = ("Lean theorems about hand-written models of window_with_count_, window_(boundaries), window_when_, window_toggle_ "
              "(= group_join_), window_with_time_ and window_with_time_or_count_ (handlers, Subject windows, RefCountDisposable "
              "plumbing): wwc_window_k / wwc_window_count / wwc_closes_at_count (window k holds exactly elements k*skip..k*skip+count-1, "
              "for every count, skip >= 1 and every element sequence; induction with an arithmetic invariant); window_partition_* "
              "(for every tagged event trace incl. dispose anywhere and, for the timed operators, timer firings anywhere: the elements "
              "pushed into window id are exactly the source elements arriving while id is in the operator's open set, in arrival order); "
              "windows_end_with_source_* (in any state, a source terminal ends every open window with that terminal and stops the outer "
              "observer; windows_end_when_mapper_raises: a raising closing mapper of window_when fails the open window and the outer); "
              "buffer_eq_window_* / buffer_is_items (each buffer = contents of its window); timer_chain (the create_timer sequence opens at k*shift and closes at k*shift+span, due times never decrease). "
              "Models are tied to /repo by differential execution of window and buffer operators on generated hot timelines, plus oracles "
              "written from the property text (routing on the interleaved log, end-with-source, per-operator open/close tables, "
              "buffer = contents of its window).")
LEVEL_NOTE = ("window_toggle/buffer_toggle: the full end-with-source statement is false of the code (known finding "
              "C18-toggle-open-at-source-completion); proved: toggle_windows_end_partial (source error) and the decided counter-example "
              "toggle_completion_counter on the as-is model. Buffers: buffer_run_is_view_* (the buffer run the driver compares with the real "
              "buffer_* operators is the flat_map(to_list) view of a run of the same window machine), buffer_count_filter (the non-empty "
              "filter), buffer_eq_window_* / buffer_is_items (what a window's subscriber received = what was pushed; the view emits it at "
              "completion): only the library's own composition source.pipe(window_x, flat_map(to_list)[, filter]) is left to the "
              "correspondence. closed_windows_ended_* / all_windows_end_with_source_* (boundaries, when, time, time_or_count; count via "
              "wwc_ends_with_source): every window outside the open set has ended, so a source terminal leaves no window un-ended; not "
              "proved for toggle (known finding). wwt_window_k: closed form of time windows (window k holds the processed elements "
              "arriving in (t0+k*shift, t0+k*shift+span], source wins ties) along the machine's own schedule for time-sorted hot input; "
              "that the schedule reaches all input when the fuel suffices is not proved (fuel is a driver artefact; the driver gives "
              "4*(events+horizon)+16). window_with_time_or_count has no closed form theorem (oracle only). when_mapper_raise_asis is an "
              "AsIs witness of the handler before repo fix c2c9edd. C02Win.* (release of all subscriptions) are built and audited with "
              "this check; C02Win.release_iff_* (underlying disposed iff outer stopped and no window subscriber attached) and "
              "C02Win.source_subscribed_iff_* (on traces without a source terminal the source is subscribed iff not (outer stopped and last "
              "subscriber gone)) give the release rule in both directions. Assumed: static same-instant order of hot sources; integer time.")

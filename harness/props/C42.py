"""C42 — CatchScheduler routes action exceptions to its handler (DESIGN.md §5 C42)."""
import copy

import fw
from props import vts_common as vc

LEAN_TARGETS = ["RxProofs.C42"]
DRIVER = "drv_vts"
DRIVER_ROOT = "Vts"
THEOREMS = [
    "C42.all_wrapped_reachable",
    "C42.every_exception_reaches_handler",
    "C42.escaped_was_refused",
    "C42.true_swallows",
    "C42.false_propagates",
    "C42.start_propagates",
    "C42.non_raising_transparent",
    "C42.non_raising_observables",
    "C42.returned_disposable_attached",
    "C42.dispose_cancels_returned",
    "C42.true_swallows_and_stops_periodic",
    "C42.non_raising_periodic_transparent",
]
RULE = ("trees of recursive scheduling (depth <=3) through a real CatchScheduler over TestScheduler/VirtualTimeScheduler/HistoricalScheduler: "
        "children scheduled via the scheduler handed to the action, via the closed-over inner scheduler or the outer CatchScheduler; an exception "
        "(or a negative sleep -> ArgumentOutOfRangeException) at every position with probability ~0.35; handler verdict per exception name; run by "
        "start/advance_to (re-armed with stop() after an escalation); the SAME exception instance raised by several actions with a stateful handler "
        "(verdict per call position); periodic actions through CatchScheduler.schedule_periodic raising at a chosen tick, several jobs on one "
        "CatchScheduler instance (one failing, one scheduled after the failure, interval()/timer(p,p)); non-raising actions that RETURN the "
        "disposable of follow-up work (chains), outer handle disposed before / between / after — modelled (Act.ret) and also compared with the same script on the bare scheduler. Compared with the Lean model on "
        "handler-call log, per-call outcomes (which exception escapes), executed-action log and clocks. non-trivial = at least one action raised")
ASSUMPTIONS = ["single-threaded use; inner scheduler is a virtual-time scheduler (C28/C29 model)",
               "the handler itself does not raise and returns a bool (it may be stateful: the model's verdict is a function of call position and exception)"]
TRUSTED_EXTRA = ["static wrapped-ness computation in the oracle (props/C42.py: wrapped_map)"]


def gen_tree_case(rng):
    kind = rng.choice(["test", "vts", "hist"])
    unit = 500 if kind == "hist" else 1
    raise_p = rng.choice([0.0, 0.2, 0.35, 0.35, 0.6])
    g = vc.Gen(rng, unit=unit, raise_p=raise_p, via_p=rng.choice([0.0, 0.0, 0.3, 0.6]), stop_p=0.02, sleep_p=0.08,
               ret_p=rng.choice([0.0, 0.0, 0.4]))
    c0 = unit * rng.choice([0, 0, 10])
    ops = []
    for _ in range(rng.randrange(1, 6)):
        mode = rng.choice(["imm", "rel", "abs"])
        t = 0 if mode == "imm" else (g.t_rel() if mode == "rel" else g.t_abs(c0))
        node = g.action(0, c0)
        if rng.random() < 0.1:
            node["steps"].append(["sleep", -unit])  # sleep(negative) raises ArgumentOutOfRangeException inside the action
        ops.append(["sched", rng.random() < 0.85, mode, t, node])
    for _ in range(rng.randrange(1, 4)):
        r = rng.random()
        if r < 0.6:
            ops.append(["start"])
        elif r < 0.8:
            ops.append(["advance_to", c0 + unit * rng.choice([1, 3, 8, 30])])
        elif r < 0.9:
            ops.append(["stop"])
        else:
            ops.append(["sched", True, "rel", unit * rng.randrange(0, 4), g.action(1, c0)])
    ops.append(["stop"])
    ops.append(["start"])
    names = [f"e{i}" for i in range(1, g.next_id)] + ["ArgumentOutOfRangeException"]
    dflt = rng.random() < 0.3
    flip = [n for n in names if rng.random() < 0.5]
    case = {"op": "vts_script", "sched": kind, "clock": c0, "bump": 1000 if kind == "hist" else 1, "ops": ops,
            "handler_true": flip, "handler_default": dflt}
    if rng.random() < 0.15:   # a stateful handler: verdicts by call position
        case["handler_seq"] = [rng.choice([True, False, None]) for _ in range(rng.randrange(1, 4))]
    return case


def gen_shared_exc_case(rng):
    """the SAME exception instance (names S1/S2: one object per name in the adapter) raised by several scheduled actions, with a
    stateful handler (verdict per call position): the run is re-armed with stop() after each escalation, so a later action
    raises an object the handler has already refused once — it must be asked again"""
    kind = rng.choice(["test", "vts", "hist"])
    unit = 500 if kind == "hist" else 1
    c0 = 0
    ops, nid = [], 1
    n = rng.randrange(2, 6)
    for i in range(n):
        name = rng.choice(["S1", "S1", "S2"])
        child = None
        if rng.random() < 0.4:     # the shared object raised by a recursively scheduled action
            child = {"id": nid + 1, "steps": [], "raise": name}
            node = {"id": nid, "steps": [["sched", "handed", "rel", unit * rng.randrange(0, 3), child]], "raise": None}
            nid += 2
        else:
            node = {"id": nid, "steps": [], "raise": name if rng.random() < 0.85 else None}
            nid += 1
        ops.append(["sched", True, "abs", c0 + unit * (i * 3 + rng.randrange(0, 3)), node])
    for _ in range(n + 1):
        ops.append(["start"])
        ops.append(["stop"])
    seq = [rng.choice([False, False, True, None]) for _ in range(rng.randrange(1, n + 2))]
    if rng.random() < 0.5:
        seq[0] = False
    return {"op": "vts_script", "sched": kind, "clock": c0, "bump": 1000 if kind == "hist" else 1, "ops": ops,
            "handler_true": [x for x in ("S1", "S2") if rng.random() < 0.5], "handler_default": False, "handler_seq": seq}


def gen_ret_case(rng):
    """non-raising actions that RETURN the disposable of follow-up work they scheduled (chains of depth 1..3), scheduled through
    the CatchScheduler, with the caller disposing the outer handle before the action ran / after it ran but before the follow-up is
    due / after everything ran.  Compared with the Lean model (Act.ret / St.attachRet / St.dispose), and the same script on the bare
    inner scheduler must behave identically."""
    kind = rng.choice(["test", "vts", "hist"])
    unit = 500 if kind == "hist" else 1
    c0 = unit * rng.choice([0, 0, 5])
    ops, nid = [], 1
    roots = []
    for _ in range(rng.choice([1, 1, 2])):
        depth = rng.choice([1, 1, 2, 3])
        t0 = c0 + unit * rng.randrange(1, 6)
        gaps = [unit * rng.choice([2, 4, 6]) for _ in range(depth)]
        ids = list(range(nid, nid + depth + 1))
        nid += depth + 1
        node = {"id": ids[-1], "steps": [], "raise": None}
        for j in range(depth - 1, -1, -1):
            steps = [["sched", "handed", "rel", gaps[j], node]]
            if rng.random() < 0.3:     # unrelated sibling work that must be unaffected
                steps.append(["sched", "handed", "rel", unit * rng.randrange(1, 8), {"id": nid, "steps": [], "raise": None}])
                nid += 1
            if rng.random() < 0.12:    # the action disposes its OWN handle first: what it then returns is disposed at once
                steps.insert(rng.randrange(0, len(steps) + 1), ["cancel", ids[j]])
            node = {"id": ids[j], "steps": steps, "raise": None, "ret": node["id"] if rng.random() < 0.85 else None}
        ops.append(["sched", rng.random() < 0.9, "abs", t0, node])
        roots.append((ids, t0, gaps))
    # dispose an outer (or intermediate) handle at a chosen moment
    ids, t0, gaps = rng.choice(roots)
    times = [t0]
    for g in gaps:
        times.append(times[-1] + g)
    j = rng.randrange(0, len(ids) - 1)           # the handle to dispose: action ids[j]
    when = rng.choice(["before", "between", "between", "between", "after", "never"])
    if when == "before":
        ops.append(["advance_to", max(c0 + 0, times[j] - unit) if times[j] - unit > c0 else c0 + 0])
        ops.append(["cancel", ids[j]])
    elif when == "between":
        ops.append(["advance_to", times[j] + unit])   # ids[j] ran, ids[j+1] (due >= 2 units later) is still pending
        ops.append(["cancel", ids[j]])
    elif when == "after":
        ops.append(["advance_to", times[-1] + unit])
        ops.append(["cancel", ids[j]])
    ops = [o for o in ops if not (o[0] == "advance_to" and o[1] <= c0)]
    ops.append(["start"])
    return {"op": "vts_script", "sched": kind, "clock": c0, "bump": 1000 if kind == "hist" else 1, "ops": ops,
            "handler_true": [], "handler_default": False, "returns_disposables": True}


def cases(rng, tier):
    for _ in range(fw.tier_scale(tier, 400, 4000)):
        yield gen_ret_case(rng)
    for _ in range(fw.tier_scale(tier, 1500, 15000)):
        yield gen_tree_case(rng)
    for _ in range(fw.tier_scale(tier, 400, 4000)):
        yield gen_shared_exc_case(rng)
    for _ in range(fw.tier_scale(tier, 300, 3000)):
        yield vc.gen_catch_siblings(rng)
    for _ in range(fw.tier_scale(tier, 700, 7000)):
        c = vc.gen_periodic(rng, catch_p=0.8, raise_p=0.6)
        if rng.random() < 0.3:
            c["handler_default"] = True
        yield c


def model_request(case):
    return vc.per_model_request(case) if case["op"] == "per_script" else vc.model_request(case)


def impl(case):
    return vc.run_periodic(case) if case["op"] == "per_script" else vc.run_script(case)


canon_impl = vc.canon_impl
canon_model = vc.canon_model


def verdict(case, name, k=None):
    """what the handler returns for its k-th call (k counted from 0) with exception `name`"""
    seq = case.get("handler_seq", [])
    if k is not None and k < len(seq) and seq[k] is not None:
        return bool(seq[k])
    d = bool(case.get("handler_default", False))
    return (not d) if name in case.get("handler_true", []) else d


def wrapped_map(case):
    """id -> is the action a CatchScheduler wrapped_action? (by the rules of _wrap/_get_recursive_wrapper)"""
    m = {}

    def walk(node, w):
        m[node["id"]] = w
        for st in node["steps"]:
            if st[0] == "sched":
                via = st[1]
                walk(st[4], w if via == "handed" else (via == "outer"))

    for op in case["ops"]:
        if op[0] == "sched":
            walk(op[4], bool(op[1]))
    return m


def oracle(case, out):
    if out.get("hang"):
        return "the scheduler did not return within the watchdog"
    if case["op"] == "per_script":
        return per_oracle(case, out)
    wm = wrapped_map(case)
    expected_h = []
    escaped = None  # exception that must escape the current top-level call
    after_escape = False
    for ev in out["events"]:
        k = ev[0]
        if k == "op":
            escaped, after_escape = None, False
        elif k == "run":
            if after_escape:
                return f"action {ev[1]} ran after exception {escaped} should have propagated out of the call"
        elif k == "raise":
            _, nid, name = ev
            if wm.get(nid):
                expected_h.append(name)
                if not verdict(case, name, len(expected_h) - 1):
                    escaped, after_escape = name, True
            else:
                escaped, after_escape = name, True
        elif k == "opend":
            res = ev[2]
            if escaped is not None:
                if res != ["raised", escaped]:
                    return f"exception {escaped} (unwrapped action or handler verdict False) did not propagate: call returned {res}"
            elif res != "ok" and res[1] != "ArgumentOutOfRangeException":
                return f"call raised {res} although every exception was swallowed by the handler"
    if out["hlog"] != expected_h:
        return f"handler calls {out['hlog']} != exceptions raised by wrapped actions {expected_h}"
    # actions that do not raise behave exactly as on the wrapped scheduler
    if not any(ev[0] == "raise" for ev in out["events"]):
        plain = copy.deepcopy(case)
        for op in plain["ops"]:
            if op[0] == "sched":
                op[1] = False
        o2 = vc.run_script(plain)
        for f in ("outs", "log", "clock", "enabled", "pending"):
            if o2.get(f) != out[f]:
                return (f"non-raising script differs through the CatchScheduler in {f}: {out[f]} vs {o2.get(f)} on the inner scheduler"
                        + (" (actions return the disposable of their follow-up work; the outer handle is disposed by the caller)"
                           if case.get("returns_disposables") else ""))
    return None


def per_oracle(case, out):
    catch = {op[1]: op[4] for op in case["ops"] if op[0] == "periodic"}
    expected_h = []
    stopped = set()
    escaped = None
    for ev in out["events"]:
        k = ev[0]
        if k == "tick":
            if ev[1] in stopped:
                return f"periodic action {ev[1]} invoked after it failed / was disposed"
        elif k == "dispose":
            stopped.add(ev[1])
        elif k == "raise":
            _, pid, name = ev
            stopped.add(pid)
            if catch.get(pid):
                expected_h.append(name)
                if not verdict(case, name):
                    escaped = name
            else:
                escaped = name
        elif k == "opend":
            res = ev[2]
            if escaped is not None and res != ["raised", escaped]:
                return f"exception {escaped} did not propagate: {res}"
            if escaped is None and res != "ok" and res[1] != "ArgumentOutOfRangeException":
                return f"call raised {res} although the handler swallowed every exception"
            escaped = None
    if out["hlog"] != expected_h:
        return f"handler calls {out['hlog']} != exceptions of periodic actions scheduled through the CatchScheduler {expected_h}"
    # a job that does not raise behaves exactly as on the wrapped scheduler: it keeps ticking whatever its siblings do
    return vc.periodic_property_oracle(case, out)


def nontrivial(case, out):
    return any(ev[0] == "raise" for ev in out.get("events", []))


def bucket(case, out):
    yield case["op"] + ":" + case["sched"]
    if out.get("hang"):
        yield "hang"
        return
    n = sum(1 for ev in out["events"] if ev[0] == "raise")
    yield "raises:" + ("0" if n == 0 else "1" if n == 1 else "2+")
    yield "handler-calls:" + ("0" if not out["hlog"] else "1" if len(out["hlog"]) == 1 else "2+")
    if any(o != "ok" for o in out["outs"]):
        yield "escaped"
    if case["op"] == "vts_script":
        wm = wrapped_map(case)
        if any(wm.values()) and not all(wm.values()):
            yield "mixed-wrapped"
        vias = {st[1] for op in case["ops"] if op[0] == "sched" for st in _steps(op[4]) if st[0] == "sched"}
        for v in sorted(vias):
            yield "via:" + v


def _steps(node):
    for st in node["steps"]:
        yield st
        if st[0] == "sched":
            yield from _steps(st[4])


def shrink(case):
    if case["op"] == "per_script":
        for i in range(len(case["ops"])):
            c = dict(case)
            c["ops"] = case["ops"][:i] + case["ops"][i + 1:]
            if any(o[0] == "periodic" for o in c["ops"]) and not any(o[0] in ("dispose_now", "dispose_at") and
                                                                      o[-1] not in [p[1] for p in c["ops"] if p[0] == "periodic"] for o in c["ops"]):
                yield c
        return
    for c in vc.shrink_script(case):
        if all(_ret_ok(op[4]) for op in c["ops"] if op[0] == "sched"):
            yield c


def _ret_ok(node):
    """a node may only return the handle of a child it schedules itself"""
    kids = [st[4] for st in node["steps"] if st[0] == "sched"]
    if node.get("ret") is not None and node["ret"] not in [k["id"] for k in kids]:
        return False
    return all(_ret_ok(k) for k in kids)


LEVEL_TEXT = ("Lean: on the model of CatchScheduler over the virtual-time scheduler, for arbitrary action trees — (1) if all calls go through the "
              "CatchScheduler and actions use the scheduler handed to them (or the outer one), every pending action in every reachable state is a "
              "wrapped_action, also the recursively scheduled ones; (2) a wrapped action that raises e causes exactly one handler call with e, and is "
              "swallowed iff the handler returns True, else re-raised; (3) an exception escaping start/advance_to on an all-wrapped scheduler was seen "
              "and refused by the handler; (4) for scripts whose actions do not raise, wrapped and unwrapped runs are bisimilar (same outcomes, log, "
              "clocks, queue; handler never called); (5) periodic: a raising tick calls the handler once, True swallows it and the task is never invoked "
              "again, False propagates. Tied to /repo by differential runs on a real CatchScheduler with exceptions at every position.")
LEVEL_NOTE = ("Returned disposables are modelled (Act.ret, St.attachRet = `self.disposable.disposable = ret`, St.dispose follows them transitively; action ids are assumed "
              "unique) and covered by non_raising_transparent, returned_disposable_attached, dispose_cancels_returned. Assumed: the handler returns a bool and does not raise; single thread. The handler-call log `hlog` is an observation field of the model, "
              "compared with the real handler's calls by the correspondence. (1) needs the hypothesis that no action schedules on the closed-over inner "
              "scheduler (then the exception legitimately bypasses the handler; the model and the correspondence cover that case too).")

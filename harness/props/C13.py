"""C13 — multi-source combinators follow their pairing rules (zip, combine_latest, with_latest_from, fork_join, amb)."""
import fw
from fw import enc
from props import comb_common as cc

LEAN_TARGETS = ["RxProofs.C13"]
DRIVER = "drv_comb"
DRIVER_ROOT = "Comb"
PROCS = 1  # a case takes ~1 ms: forking a pool costs more than it saves, and one process lets impl / model_request share the run
THEOREMS = [
    "C13.zip_kth",
    "C13.zip_completes_when",
    "C13.cl_emits_after_all",
    "C13.cl_latest",
    "C13.wlf_only_primary",
    "C13.wlf_eq_reference",
    "C13.wlf_timeline_reference",
    "C13.wlf_phased_only_primary",
    "C13.static_phase_eq_plain",
    "C13.zip_phase_eq_plain",
    "C13.late_subscription_in_loop_closed",
    "C13.fork_join_last_values",
    "C13.fork_join_empty_short_circuit",
    "C13.amb_mirrors_first",
    "C13.amb2_mirrors_first",
    "C13.amb_unsub_losers_at_choice",
    "C13.amb_nested_eq_flat",
]
RULE = ("1..4 logged cold/hot sources (times on a 5-tick grid so that simultaneous notifications are frequent; empty, erroring, "
        "never-completing, 'rude' hot sources that keep pushing after unsubscription) under the real operator on TestScheduler, optional "
        "dispose of the result at a random instant; the recorded global event list is replayed through the Lean machine and the "
        "emitted notifications (timed) and subscribe/unsubscribe effects are compared per event, in same-instant order; "
        "with_latest_from additionally: all-cold timelines on few distinct instants and (oracle-only) sources that emit inside subscribe, "
        "checked against the output computed from the source TIMELINES (other sources are subscribed before the primary); "
        "non-trivial = at least one notification reached the operator and at least one output or terminal effect was produced")
ASSUMPTIONS = ["single-threaded / virtual-time execution: one run is one list of tagged events (C43 covers real threads)",
               "sources that notify inside subscribe are replayed through the phased machines (unsubscribe positions inside the subscribe loop compared by time only)"]
TRUSTED_EXTRA = ["the logging cold/hot sources of harness/props/comb_common.py as measuring instruments"]
LEVEL_TEXT = ("Lean theorems for n sources and EVERY list of tagged events (all interleavings, conforming or not, dispose anywhere): zip's k-th output is the tuple of the k-th delivered "
"elements and #outputs = min #delivered at every moment; zip completes exactly when a completed source has nothing buffered; combine_latest emits nothing until all sources "
"delivered and then the tuple of latest values per element; with_latest_from emits only on primary elements once all others have a value; fork_join emits the last values at the "
"last completion and short-circuits on an empty completion; amb forwards exactly the notifications of the first source to notify and unsubscribes all others in that step, before "
"forwarding. Tied to /repo by replaying recorded event lists of generated real runs (1..4 cold/hot/rude sources, simultaneous notifications, dispose) and comparing outputs and "
"subscribe/unsubscribe effects in same-instant order, plus property-text oracles.")
LEVEL_NOTE = ("Model = RxModel/Comb.lean + RxModel/CombN.lean (zip: queues/is_completed; combine_latest: has_value/has_value_all/is_done/values; with_latest_from: NO_VALUE "
"as none, children subscribed before the parent, parent first in the composite; fork_join; amb: both the NESTED composition of binary operators (ambNestedM: one `choice` per level, a notification enters at its "
"level and climbs through the levels above) and its FLATTENED form (ambM: choice = first source to notify; loser disposal order k-1..0,k+1..n-1, subscription order n-1..0); "
"amb_nested_eq_flat proves they produce identical effects for every n and every event list, and the correspondence replays half of the rx.amb cases through each). All nine design theorems are proved at full strength for n sources and every event "
"list (cl_* need n >= 1, as the code raises otherwise); zip_kth's timing clause is 'number of outputs = min number of delivered elements at every prefix'. "
"combine_latest's completion is not in the property text; the oracle only bounds it. The subscribe LOOP is modelled by RxModel/CombPhase.lean (`phased`: a tick subscribes the "
"next source; sources may notify inside their own subscribe; a source subscribed after the result terminated is closed in the same step; `phasedAmb` for amb's late losers); "
"static_phase_eq_plain ties it to the plain machines, wlf_phased_only_primary / wlf_eq_reference / wlf_timeline_reference state with_latest_from against a declarative reference "
"(others-before-primary order, simultaneous events, emit-on-subscribe). Cases with emit-on-subscribe sources are replayed through the phased machines (all unsubscribes of such a "
"case are compared by (source, time) only: inside the loop they lag until the loop's composite reaches the observer); for all-cold cases the event ORDER is additionally derived in "
"Lean from the timelines (`tlEvents`) and compared with the recorded one. The phased live list is in subscription order (= container order except for with_latest_from). Not "
"modelled: futures. Threads are C43. The value alphabet contains elements with non-standard == (always true / always false / raising, NaN), identified by the "
"(source, index) tag they carry, never by ==. FIXED DEFECT (finding C13-wlf-sentinel-eq, /repo 617932e, fixes/C13_wlf_sentinel_identity.patch): with_latest_from tested its sentinel with `NO_VALUE not in values` "
"(== asked of every latest value), so a secondary whose latest value has __eq__ always true gave no output and a raising one gave on_error; the model was always the fixed "
"behaviour, the corpus keeps the two inputs, and a recurrence is reported as VIOLATION classified C13-wlf-sentinel-eq.")

OPS = ["zip", "combine_latest", "with_latest_from", "fork_join", "amb", "amb2"]


def cases(rng, tier):
    n = fw.tier_scale(tier, 4200, 60000)
    for i in range(n):
        op = OPS[i % len(OPS)]
        if op == "amb2":
            k = 2
        else:
            k = rng.choice([1, 2, 2, 3, 3, 4])
        # values with unusual equality (== always True / always False / raising, NaN): nothing in these operators may depend on ==
        srcs = [cc.gen_src(rng, j, specials=0.15) for j in range(k)]
        c = {"op": op, "n": k, "srcs": srcs, "dispose": cc.gen_dispose(rng, 0.2)}
        if op == "with_latest_from":
            r = rng.random()
            if r < 0.35:
                # all cold, few distinct times: a primary element often coincides with an element of another source
                c["srcs"] = [{"mode": "cold", "msgs": cc.gen_timeline(rng, j, maxn=4, span=15, specials=0.15)} for j in range(k)]
                c["dispose"] = None
            elif r < 0.5:
                # every source emits inside subscribe (of(1,2,3).pipe(with_latest_from(of(10))))
                c["srcs"] = [{"mode": "sync", "msgs": cc.gen_timeline(rng, j, maxn=3, span=5, p_complete=0.85, p_error=0.05, specials=0.15)} for j in range(k)]
                c["dispose"] = None
        elif op != "amb2" and rng.random() < 0.12:
            # emit-on-subscribe sources inside the subscribe loop of any static operator (replayed through the PHASED machine)
            for j in range(k):
                if rng.random() < 0.6:
                    c["srcs"][j] = {"mode": "sync", "msgs": cc.gen_timeline(rng, j, maxn=3, span=5, p_complete=0.7, p_error=0.12, specials=0.15)}
        elif op != "amb2" and rng.random() < 0.2:
            # all cold, few distinct instants: the event ORDER is derived in Lean from the timelines (tlEvents) and compared too
            c["srcs"] = [{"mode": "cold", "msgs": cc.gen_timeline(rng, j, maxn=4, span=15, specials=0.15)} for j in range(k)]
            c["dispose"] = None
        if not is_phased(c):
            cc.add_duplicate(rng, c["srcs"])      # the same observable object listed twice
        yield c


def is_phased(case):
    return any(sp_["mode"] == "sync" for sp_ in case["srcs"])


def has_timelines(case):
    return case["op"] != "amb2" and case.get("dispose") is None and all(sp_["mode"] == "cold" for sp_ in case["srcs"])


def sub_order(case):
    n = case["n"]
    if case["op"] == "with_latest_from":
        return list(range(1, n)) + [0]
    if case["op"] == "amb":
        return list(range(n - 1, -1, -1))
    return list(range(n))


def split_case(case, log):
    if is_phased(case):
        # the subscribe loop is part of the trace: every subscription is a `tick` of the phased machine; every unsubscribe is
        # compared by (source, time) only (inside the loop they lag: a source still inside its own subscribe cannot be closed,
        # and the loop's composite reaches a stopped observer only when the loop is over)
        log2 = []
        for e in log:
            if e[0] == "sub":
                log2.append(["tick", e[2]])
            log2.append(e)
        return cc.split_log(log2, tuple(range(case["n"])))
    return cc.split_log(log)


def _run_impl(case):
    import reactivex as rx
    from reactivex import operators as ops

    w = cc.World()
    op = case["op"]

    def build():
        srcs = cc.build_sources(w, case["srcs"], 0, sub_order(case))
        if op == "zip":
            return rx.zip(*srcs)
        if op == "combine_latest":
            return rx.combine_latest(*srcs)
        if op == "with_latest_from":
            return srcs[0].pipe(ops.with_latest_from(*srcs[1:]))
        if op == "fork_join":
            return rx.fork_join(*srcs)
        if op == "amb":
            return rx.amb(*srcs)
        if op == "amb2":
            return srcs[0].pipe(ops.amb(srcs[1]))
        raise ValueError(op)

    # hot sources must exist before time 0 events: build at 100 is fine (hot times are >= 190)
    log = cc.run_world(w, build, case.get("dispose"))
    return log


_run = cc.memo(_run_impl)


def impl(case):
    log = _run(case)
    sp = split_case(case, log)
    return {"split": sp, "log": log}


def model_request(case):
    sp = split_case(case, _run(case))
    op = case["op"]
    if op == "amb" and case["n"] % 2 == 0 and not is_phased(case) and not has_timelines(case):
        op = "amb_nested"     # the nested composition of binary ambs (proved equal to the flattened machine: C13.amb_nested_eq_flat)
    r = {"op": op, "n": case["n"], "events": [e for _, e in sp["events"]]}
    if is_phased(case):
        r["phased"] = True
    if has_timelines(case):
        r["timelines"] = [[sid, [[cc.SUBSCRIBE_AT + m[0], m[1:] if m[1] != "N" else ["N", m[2]]] for m in case["srcs"][sid]["msgs"]]]
                          for sid in sub_order(case)]
    return r


def canon_impl(case, out):
    r = cc.canon_real(out["split"])
    if has_timelines(case):
        r["tl_events"] = out["split"]["events"]
    return r


def canon_model(case, resp):
    sp = split_case(case, _run(case))
    r = cc.canon_model_resp(sp["events"], resp, tuple(range(case["n"])) if is_phased(case) else ())
    if has_timelines(case) and isinstance(resp, dict) and "tl_events" in resp:
        r["tl_events"] = resp["tl_events"]
    return r


# --------------------------------------------------------------------------------------------- oracle
def accepted(log):
    """the notifications delivered to an open subscription that has not yet delivered a terminal, with log positions;
    also the position of the dispose (if any)"""
    live, term, acc, disp = set(), set(), [], None
    for p, e in enumerate(log):
        if e[0] == "sub":
            live.add(e[1])
        elif e[0] == "unsub":
            live.discard(e[1])
        elif e[0] == "dispose":
            disp = p
        elif e[0] == "ev" and e[1] in live and e[1] not in term:
            acc.append((p, e[1], e[2], e[3]))
            if e[2][0] != "N":
                term.add(e[1])
    return acc, disp


def expected(case, log):
    """expected timed output, computed from the property text on the accepted notifications. Returns (outs, complete_spec)
    where outs = [[t, notif]...]; positions are used only to order same-instant things."""
    op = case["op"]
    n = case["n"]
    acc, disp = accepted(log)
    outs = []  # (pos, sub-order, t, notif)
    if op in ("amb", "amb2"):
        if acc:
            w = acc[0][1]
            outs = [(p, 0, t, nt) for (p, s, nt, t) in acc if s == w]
        return _cut(outs)
    # error rule: the first accepted error terminates
    elems = {i: [] for i in range(n)}
    done_at = {}
    for (p, s, nt, t) in acc:
        if nt[0] == "E":
            outs.append((p, 1, t, ["E", nt[1]]))
    if op == "zip":
        for (p, s, nt, t) in acc:
            if nt[0] == "N":
                elems[s].append((p, t, nt[1]))
            elif nt[0] == "C":
                done_at[s] = (p, t)
        K = min(len(elems[i]) for i in range(n)) if n else 0
        tup_pos = []
        for k in range(K):
            p, t = max((elems[i][k][0], elems[i][k][1]) for i in range(n))
            tup_pos.append((p, t))
            outs.append((p, 0, t, ["N", {"t": [elems[i][k][2] for i in range(n)]}]))
        for i, (p, t) in done_at.items():
            m = len([x for x in elems[i] if x[0] < p])  # elements of i delivered before its completion (all of them)
            if m == 0:
                outs.append((p, 1, t, ["C"]))
            elif m <= K:
                pp, tt = tup_pos[m - 1]
                outs.append((max(pp, p), 1, tt if pp > p else t, ["C"]))
    elif op == "combine_latest":
        latest, dn = {}, set()
        for (p, s, nt, t) in acc:
            if nt[0] == "N":
                latest[s] = nt[1]
                if len(latest) == n:
                    outs.append((p, 0, t, ["N", {"t": [latest[i] for i in range(n)]}]))
            elif nt[0] == "C":
                dn.add(s)
                if len(dn) == n:
                    outs.append((p, 1, t, ["C"]))
    elif op == "with_latest_from":
        latest = {}
        for (p, s, nt, t) in acc:
            if nt[0] == "N":
                if s == 0:
                    if len(latest) == n - 1:
                        outs.append((p, 0, t, ["N", {"t": [nt[1]] + [latest[i] for i in range(1, n)]}]))
                else:
                    latest[s] = nt[1]
            elif nt[0] == "C" and s == 0:
                outs.append((p, 1, t, ["C"]))
    elif op == "fork_join":
        last, dn = {}, set()
        for (p, s, nt, t) in acc:
            if nt[0] == "N":
                last[s] = nt[1]
            elif nt[0] == "C":
                dn.add(s)
                if s not in last:
                    outs.append((p, 1, t, ["C"]))
                elif len(dn) == n:
                    if all(i in last for i in range(n)):
                        outs.append((p, 0, t, ["N", {"t": [last[i] for i in range(n)]}]))
                    outs.append((p, 1, t, ["C"]))
    return _cut(outs)


def _cut(outs):
    outs.sort(key=lambda x: (x[0], x[1]))
    res = []
    for (_, _, t, nt) in outs:
        res.append([t, nt])
        if nt[0] != "N":
            break
    return res


def wlf_reference(case):
    """with_latest_from from the source TIMELINES (not from what was delivered): the other sources are subscribed before the primary,
    so among cold (or emit-on-subscribe) sources a notification of another source at the same instant precedes the primary's and
    is already the latest value. Returns the expected timed output, or None when the rule does not determine the order."""
    modes = {sp_["mode"] for sp_ in case["srcs"]}
    if case.get("dispose") is not None or len(modes) != 1 or modes - {"cold", "sync"}:
        return None
    sync = modes == {"sync"}
    evs = []
    for i, sp_ in enumerate(case["srcs"]):
        rank = case["n"] if i == 0 else i          # others (in order) before the primary
        for j, m in enumerate(sp_["msgs"]):
            t = cc.SUBSCRIBE_AT if sync else cc.SUBSCRIBE_AT + m[0]
            evs.append(((rank, j) if sync else (t, rank, j), t, i, m))
    evs.sort(key=lambda x: x[0])
    latest, out, dead = {}, [], set()
    for _, t, i, m in evs:
        if i in dead:
            continue
        if m[1] == "N":
            if i == 0:
                if len(latest) == case["n"] - 1:
                    out.append([t, ["N", {"t": [m[2]] + [latest[c] for c in range(1, case["n"])]}]])
            else:
                latest[i] = m[2]
        elif m[1] == "E":
            out.append([t, ["E", m[2]]])
            return out
        else:
            dead.add(i)
            if i == 0:
                out.append([t, ["C"]])
                return out
    return out


def oracle(case, out):
    log = out["log"]
    got = cc.outputs(out["split"])
    if not cc.grammar_ok(got):
        return f"output is not next* terminal?: {got}"
    if case["op"] == "with_latest_from":
        ref = wlf_reference(case)
        if ref is not None and got != ref:
            return (f"with_latest_from: got {got}; from the source timelines (the other sources are subscribed before the primary, so their "
                    f"simultaneous / emit-on-subscribe elements are already the latest values) expected {ref}")
    exp = expected(case, log)
    op = case["op"]
    if op == "combine_latest":
        # the property text fixes the elements and errors; completion must come no later than "all completed" and,
        # if earlier, only when a completed source never produced a value (no tuple can ever be formed again)
        gN = [x for x in got if x[1][0] != "C"]
        eN = [x for x in exp if x[1][0] != "C"]
        gC = [x for x in got if x[1][0] == "C"]
        eC = [x for x in exp if x[1][0] == "C"]
        if gC and not eC or (gC and eC and gC[0][0] < eC[0][0]):
            acc, _ = accepted(log)
            tC = gC[0][0]
            had = {s for (p, s, nt, t) in acc if nt[0] == "N" and t <= tC}
            dn = {s for (p, s, nt, t) in acc if nt[0] == "C" and t <= tC}
            if not (dn - had):
                return f"combine_latest completed at {tC} although every completed source had produced a value: {got}"
            eN = [x for x in eN if x[0] <= tC]
            # elements at the very instant of the early completion may legitimately be cut: compare the prefix
            if gN != eN[:len(gN)] or any(x[0] < tC for x in eN[len(gN):]):
                return f"combine_latest elements differ: got {got}, expected elements {eN}"
            return None
        if eC and not gC and not any(x[1][0] == "E" for x in got) and _disposed_before(log, eC[0][0]) is False:
            return f"combine_latest did not complete although all sources completed at {eC[0][0]}: {got}"
        if gN != eN:
            return f"combine_latest elements differ: got {got}, expected {exp}"
        return None
    if got != exp:
        return f"{op}: got {got}, expected by the pairing rule {exp}"
    if op in ("amb", "amb2"):
        acc, disp = accepted(log)
        if acc:
            w, t0 = acc[0][1], acc[0][3]
            ivs = cc.intervals(log)
            for s in range(case["n"]):
                if s != w:
                    for iv in ivs.get(s, []):
                        if iv[1] is None or iv[1] > t0:
                            return f"amb: loser {s} still subscribed after the choice at {t0}: {iv}"
    return None


def _disposed_before(log, t):
    for e in log:
        if e[0] == "dispose":
            return e[1] <= t
    return False


def classify(case, why):
    """with_latest_from compares its 'no value yet' sentinel with == (`NO_VALUE not in values`): a latest value of another source whose
    __eq__ is always true or raises hides / breaks the result (fixes/C13_wlf_sentinel_identity.patch)"""
    if case["op"] == "with_latest_from" and any(
            m_[1] == "N" and m_[2]["t"][0] in (".eq_true", ".eq_raises") for s_ in case["srcs"][1:] for m_ in s_["msgs"]):
        return "C13-wlf-sentinel-eq"
    return None


def nontrivial(case, out):
    sp = out["split"]
    return len(sp["events"]) > 0 and any(seg for seg in sp["segs"])


def bucket(case, out):
    sp = out["split"]
    got = cc.outputs(sp)
    yield f"op={case['op']}"
    yield f"n={case['n']}"
    yield "end=" + (got[-1][1][0] if got and got[-1][1][0] != "N" else "open")
    yield f"outN={min(3, len([x for x in got if x[1][0] == 'N']))}"
    ts = [t for t, _ in sp["events"]]
    yield "simultaneous=" + str(len(ts) != len(set(ts)))
    yield "dispose=" + str(case.get("dispose") is not None)
    if case["op"] == "with_latest_from" and wlf_reference(case) is not None:
        yield "wlf_timeline_oracle=" + case["srcs"][0]["mode"]
    if any(m_[1] == "N" and (m_[2]["t"][0] in cc.SPECIAL_KINDS or m_[2]["t"][2] == {"f": "nan"}) for s_ in case["srcs"] for m_ in s_["msgs"]):
        yield "unusual_equality_value"
    if is_phased(case):
        yield "phased_subscribe_loop"
    if has_timelines(case):
        yield "event_order_from_timelines"
    if any("same_as" in s_ for s_ in case["srcs"]):
        yield "same_object_listed_twice"
    for s in case["srcs"]:
        yield "src=" + s["mode"] + ("-rude" if s.get("rude") else "")


def shrink(case):
    for i, s in enumerate(case["srcs"]):
        for j in range(len(s["msgs"])):
            c = __import__("copy").deepcopy(case)
            del c["srcs"][i]["msgs"][j]
            yield c
    if case.get("dispose") is not None:
        c = __import__("copy").deepcopy(case)
        c["dispose"] = None
        yield c

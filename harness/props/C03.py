"""C03 — unsubscribing silences the subscriber and frees its sources (DESIGN.md §5 C03)."""
import fw
import pipecheck
import pipes
import customsrc
import trampipes

LEAN_TARGETS = ["RxProofs.C03", "RxProofs.Ownership", "RxProofs.C02Comb", "RxProofs.C02Timed", "RxProofs.C02Win"]
DRIVER = "drv_pipe"
DRIVER_ROOT = "Pipe"
SUPPORT_THEOREMS = ['C02Comb.dispose_releases_all_zip', 'C02Comb.dispose_releases_all_combine_latest', 'C02Comb.dispose_releases_all_with_latest_from', 'C02Comb.dispose_releases_all_fork_join', 'C02Comb.dispose_releases_all_amb', 'C02Comb.dispose_releases_all_amb2', 'C02Comb.dispose_releases_all_merge_all', 'C02Comb.dispose_releases_all_merge_maxc', 'C02Comb.dispose_releases_all_switch', 'C02Comb.dispose_releases_all_seq', 'C02Comb.dispose_releases_all_seq_inline', 'C02Comb.dispose_releases_all_catch_handler', 'C02Win.dispose_releases_all_count', 'C02Win.dispose_releases_all_boundaries', 'C02Win.dispose_releases_all_when', 'C02Win.dispose_releases_all_toggle', 'C02Win.dispose_releases_all_time', 'C02Win.dispose_releases_all_time_or_count', 'C02Win.dispose_releases_all_group', 'C02Comb.dispose_releases_all', 'C02Timed.dispose_cancels_timers', 'C02Timed.released_is_silent', 'C02Win.dispose_releases_all_fin', 'C02Win.group_holder_blocks_release']
THEOREMS = SUPPORT_THEOREMS + ["C03.dispose_silences", "C03.dispose_frees_sources", "C03.stays_disposed", "C03.late_subscription_disposed",
            "C03.fromIterable_polls", "C03.fromIterable_all", "C03.tramp_dispose_truncates", "C03.tramp_notifications_bounded",
            "C03.tramp_silent_after_dispose", "C03.tramp_dispose_at_start", "C03.tramp_run_complete", "C03.tramp_stale_check_breaks", "Ownership.ownership_ok"]
RULE = ("generated pipelines (as C02) run once undisposed to collect every distinct virtual time of the run, then re-run with dispose() issued "
        "at those times, both before and after the same-instant notifications; recorded container calls replayed through the Lean heap model; "
        "oracle: after dispose() returned no notification reaches the subscriber, no user callback of the pipeline runs, every test-source "
        "subscription is closed at that instant. plus from_iterable polling cases (model: fromIter). plus single-thread runs on the DEFAULT "
        "current-thread trampoline (harness/trampipes.py): trees of cold synchronous producers and combinators, the subscriber disposing "
        "from inside its k-th notification for every k (and right after subscribe() returned); oracle: nothing (no notification, no user "
        "callback of any producer/operator) happens after dispose() returned; flat merges of of/from_iterable/range/generate are also "
        "compared event-for-event with the Lean trampoline model (Tramp.final). plus user-defined sources (reactivex.create / Observable(subscribe)) "
        "returning their teardown as a Disposable, an object with dispose, a def, a lambda, a bound method, a functools.partial, a callable object "
        "or a builtin method: the teardown runs exactly once when dispose() is called. non-trivial = dispose happened while at "
        "least one source subscription was open / while the undisposed run still had events to come")
ASSUMPTIONS = ["windows and groups are flattened inside the generated pipelines (no live group/window subscriber shares a source)",
               "single-threaded execution: virtual time (TestScheduler) for timelines, the default current-thread trampoline for cold synchronous producers"]
TRUSTED_EXTRA = ["AST ownership translator harness/xlate/ownership.py", "recording wrappers harness/heaptrace.py",
                 "harness/trampipes.py: default-scheduler runs on a fresh thread per case; leaf subscriptions marked by a defer factory (opened) and a finally_action (released)"]
LEVEL_TEXT = ("Lean theorems: after dispose() nothing is delivered by any AutoDetachObserver (subscriber's or a stage's), for every call list; "
              "dispose(root) at any position of any sequence of container calls disposes everything reachable from the root in that call, "
              "late attachments are disposed at once and nothing is un-disposed; from_iterable pulls exactly k+1 elements when disposed during "
              "the k-th on_next; on the current-thread trampoline, disposing during notification k truncates the run of any merged producers exactly "
              "there (no later notification or producer callback), for every producer list and every k. Ownership: regenerated table + decide. Tied to the code by replay of recorded container calls of real pipelines "
              "disposed at every event time, and a direct oracle on notifications, user-callback times and subscription logs.")
LEVEL_NOTE = ("Per-operator release theorems (every event trace): combinators C02Comb.*, timed operators C02Timed.*, windows/groups/using/finally C02Win.* — proved by the families' builders over their trace machines and audited here. Otherwise partial by catalogue, as C02: ownership (every acquired subscription/timer reachable from the returned disposable) is the regenerated "
              "AST table and the dynamic replay, not per-operator Lean proofs; 'no user callback runs' is derived from every stage's "
              "AutoDetachObserver being disposed and is additionally observed by the oracle on instrumented callbacks.")
TECHNIQUE = "Lean 4 invariant proofs over a disposable-heap model + regenerated ownership table (decide) + recorded-trace correspondence"

regenerate = pipecheck.regenerate

# stage kinds whose handler does `observer.on_next(x)` and THEN calls a user selector (known finding C03-selector-after-reentrant-dispose)
SELECTOR_AFTER_ON_NEXT = {"expand_take", "timeout_with_mapper", "window_when", "buffer_when", "window_toggle", "buffer_toggle"}


def cases(rng, tier):
    n = fw.tier_scale(tier, 200, 3500)
    per = fw.tier_scale(tier, 4, 12)
    plist = list(pipes.gen_systematic(rng, fw.tier_scale(tier, 2, 6))) + [pipes.gen_case(rng, 3) for _ in range(n)]
    for p in plist:
        base = pipes.run(p)
        times = pipes.event_times(base)
        pick = times if len(times) <= per else sorted(rng.sample(times, per))
        for t in pick:
            for early in (False, True):
                yield {"op": "pipeline", "pipeline": p, "dispose_at": t, "dispose_early": early}
        # re-entrant dispose: the subscriber disposes from INSIDE its k-th notification
        nn = len(base["log"])
        for k in (range(nn) if nn <= per else sorted(rng.sample(range(nn), per))):
            yield {"op": "pipeline", "pipeline": p, "dispose_at": None, "dispose_early": False, "dispose_in": k}
    for _ in range(fw.tier_scale(tier, 200, 2000)):
        xs = [rng.choice([None, 0, 1, 2, "", False]) for _ in range(rng.randrange(0, 9))]
        k = rng.choice([None] + list(range(0, len(xs) + 2)))
        c = {"op": "from_iter", "xs": [fw.enc(x) for x in xs]}
        if k is not None:
            c["k"] = k
        yield c
    # user-defined sources returning their teardown in every accepted form
    for _ in range(fw.tier_scale(tier, 300, 3000)):
        yield customsrc.gen(rng)
    # default-scheduler (trampoline) runs: flat merges (model + oracle) and random trees (oracle)
    for i in range(fw.tier_scale(tier, 260, 3000)):
        tree = trampipes.gen_flat(rng) if i % 2 == 0 else trampipes.gen_tree(rng, 3)
        try:
            n = trampipes.count_notifications(tree)
        except Exception:  # noqa: BLE001 - a generated tree the library rejects at build time
            continue
        ks = list(range(-1, min(n, 14)))
        if not trampipes.flat(tree) and len(ks) > 5:
            ks = sorted(rng.sample(ks, 5))
        for k in ks + ([None] if trampipes.flat(tree) else []):
            yield {"op": "tramp", "tree": tree, "k": k}


def model_request(case):
    if case["op"] == "custom":
        return None
    if case["op"] == "tramp":
        if not trampipes.flat(case["tree"]):
            return None
        r = {"op": "tramp_merge", "producers": [[t[0], t[1]] for t in case["tree"][1:]]}
        if case["k"] is not None:
            r["k"] = case["k"]
        return r
    return pipecheck.model_request(case)


_TAGS = {"pull": 0, "cond": 1, "iter": 2}


def canon_impl(case, out):
    if case["op"] == "tramp":
        if not trampipes.flat(case["tree"]):
            return out
        evs = []
        for e in trampipes.events(out["log"]):
            if e[0] == "cb":
                evs.append(["cb", int(e[1][4:]), _TAGS[e[1][:4]]])
            elif e[0] == "N":
                evs.append(["N", e[1] // 100, e[1] % 100])
            else:
                evs.append(e)
        return {"evs": evs, "queue_left": 0}
    return pipecheck.canon_impl(case, out)


def canon_model(case, resp):
    if case["op"] == "tramp":
        return resp
    return pipecheck.canon_model(case, resp)


def impl(case):
    if case["op"] == "from_iter":
        return pipecheck.from_iter_impl(case)
    if case["op"] == "tramp":
        return trampipes.run(case)
    if case["op"] == "custom":
        return customsrc.run(case)
    out = pipes.run(case["pipeline"], dispose_at=case["dispose_at"], dispose_early=case["dispose_early"], dispose_in=case.get("dispose_in"))
    return {k: out.get(k) for k in ("log", "subs", "cb_times", "disposed_at", "log_len_at_dispose", "cb_len_at_dispose", "escaped")}


def oracle(case, out):
    if case["op"] == "custom":
        return customsrc.oracle(case, out) if out["disposed"] else None
    if case["op"] == "tramp":
        return trampipes.oracle(case, out)
    if case["op"] == "from_iter":
        xs, k = case["xs"], case.get("k")
        want = len(xs) + 1 if k is None or k >= len(xs) else k + 1
        if out["pulls"] != want:
            return f"from_iterable pulled {out['pulls']} times, expected {want}"
        return None
    T = out.get("disposed_at")
    if T is None:
        return None
    if len(out["log"]) > out["log_len_at_dispose"]:
        return f"notification {out['log'][out['log_len_at_dispose']]} delivered after dispose() returned at {T}"
    if len(out["cb_times"]) > out["cb_len_at_dispose"]:
        return f"user callback of stage {out['cb_times'][out['cb_len_at_dispose']][1]} ran at {out['cb_times'][out['cb_len_at_dispose']][0]} after dispose() returned at {T}"
    for si, subs in enumerate(out["subs"]):
        for a, b in subs:
            if b is None or b > T:
                return f"source {si} subscription ({a}, {b}) still open after dispose() at {T}"
    return None


def nontrivial(case, out):
    if case["op"] == "custom":
        return out["disposed"] and out["subscribed"] > 0 and case["form"] != "none"
    if case["op"] == "tramp":
        return trampipes.nontrivial(case, out)
    if case["op"] == "from_iter":
        return case.get("k") is not None and case["k"] < len(case["xs"])
    T = out.get("disposed_at")
    return T is not None and any(a <= T and (b is None or b >= T) for subs in out["subs"] for a, b in subs)


def _kinds(tree):
    yield tree[0]
    for t in tree[1:]:
        if isinstance(t, list):
            yield from _kinds(t)


def bucket(case, out):
    if case["op"] == "from_iter":
        yield "from_iter"
        return
    if case["op"] == "custom":
        yield "custom-source:" + case["form"]
        return
    if case["op"] == "tramp":
        yield "tramp:flat-merge(model)" if trampipes.flat(case["tree"]) else "tramp:tree(oracle)"
        yield "tramp:k=" + ("never" if case["k"] is None else "at-start" if case["k"] == -1 else "during")
        for kd in set(_kinds(case["tree"])):
            yield "tramp-node:" + kd
        return
    for s in case["pipeline"]["stages"]:
        yield "stage:" + s[0]
    yield "in-notification" if case.get("dispose_in") is not None else "early" if case["dispose_early"] else "late"


def _subtrees(tree):
    for i, t in enumerate(tree):
        if isinstance(t, list):
            yield t
            if len(tree) > 2 and tree[0] in trampipes.N_ARY:
                yield tree[:i] + tree[i + 1:]
            for u in _subtrees(t):
                yield tree[:i] + [u] + tree[i + 1:]


def shrink(case):
    if case["op"] == "from_iter":
        return
    if case["op"] == "custom":
        for i in range(len(case["stages"])):
            yield dict(case, stages=case["stages"][:i] + case["stages"][i + 1:])
        if case["n"]:
            yield dict(case, n=case["n"] - 1)
        return
    if case["op"] == "tramp":
        for t in _subtrees(case["tree"]):
            for k in ([case["k"]] if case["k"] is None else range(-1, case["k"] + 1)):
                yield dict(case, tree=t, k=k)
        return
    p = case["pipeline"]
    for i in range(len(p["stages"])):
        if len(p["stages"]) > 1:
            yield dict(case, pipeline={"sources": p["sources"], "stages": p["stages"][:i] + p["stages"][i + 1:]})
    for s in range(len(p["sources"])):
        for i in range(len(p["sources"][s]["msgs"])):
            srcs = [dict(x, msgs=list(x["msgs"])) for x in p["sources"]]
            del srcs[s]["msgs"][i]
            yield dict(case, pipeline={"sources": srcs, "stages": p["stages"]})


def search(rng, tier, disagreeing):
    names = set()
    for c in disagreeing:
        if c["op"] == "pipeline":
            names.update(s[0] for s in c["pipeline"]["stages"])
    for _ in range(fw.tier_scale(tier, 1500, 6000)):
        c = customsrc.gen(rng)
        v = oracle(c, impl(c))
        if v:
            return fw.shrink_failure(__import__("props.C03", fromlist=["x"]), fw.Failure("oracle", c, v))
    names.update(pipecheck.stages_for_rows(pipecheck.regenerate()["ownership_not_owned"]))
    names = sorted(n for n in names if n in pipes.STAGES) or None
    me = __import__("props.C03", fromlist=["x"])
    for i in range(fw.tier_scale(tier, 600, 4000)):
        tree = trampipes.gen_flat(rng) if i % 2 == 0 else trampipes.gen_tree(rng, 3)
        try:
            n = trampipes.count_notifications(tree)
        except Exception:  # noqa: BLE001
            continue
        for k in range(-1, min(n, 14)):
            c = {"op": "tramp", "tree": tree, "k": k}
            v = oracle(c, impl(c))
            if v:
                return fw.shrink_failure(me, fw.Failure("oracle", c, v))
    for i in range(fw.tier_scale(tier, 1500, 10000)):
        p = pipes.gen_case(rng, 2 if i % 2 else 3, names if i % 4 else None)
        base = pipes.run(p)
        cs = [{"op": "pipeline", "pipeline": p, "dispose_at": t, "dispose_early": early} for t in pipes.event_times(base) for early in (False, True)]
        cs += [{"op": "pipeline", "pipeline": p, "dispose_at": None, "dispose_early": False, "dispose_in": k} for k in range(min(len(base["log"]), 8))]
        for c in cs:
            v = oracle(c, impl(c))
            if v and not classify(c, v):
                return fw.shrink_failure(me, fw.Failure("oracle", c, v))
    return None


def classify(case, why):
    if case["op"] == "custom":
        return None
    """Known finding C03-subscribe-on-deferred: subscribe_on wraps the subscription in a ScheduledDisposable, so dispose() only
    *schedules* the unsubscription on the scheduler; stages upstream of subscribe_on keep running until that action runs
    (same virtual instant, later in the queue)."""
    if case["op"] == "tramp":
        return trampipes.classify(case, why)
    if case["op"] != "pipeline":
        return None
    idx = [i for i, s in enumerate(case["pipeline"]["stages"]) if s[0] == "subscribe_on"]
    if idx:
        j = max(idx)
        if why.startswith("user callback of stage "):
            st = int(why.split()[4])
            if st < j:
                return "C03-subscribe-on-deferred"
        if why.startswith("source "):
            return "C03-subscribe-on-deferred"
    # Known finding C03-selector-after-reentrant-dispose: these operators call their selector AFTER observer.on_next(...) returned,
    # in the same handler; when the subscriber disposed from inside that very on_next the selector still runs (same instant).
    if case.get("dispose_in") is not None and why.startswith("user callback of stage "):
        w = why.split()
        st, t_cb, t_disp = int(w[4]), int(w[7]), int(w[-1])
        if t_cb == t_disp and case["pipeline"]["stages"][st][0] in SELECTOR_AFTER_ON_NEXT:
            return "C03-selector-after-reentrant-dispose"
    return None

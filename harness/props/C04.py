"""C04 — cold observables can be subscribed again with identical results (DESIGN.md §5 C04).

 * translator harness/xlate/captures.py -> lean/RxGen/Captures.lean; `C04.captures_cold_ok` (kernel `decide`) says that no
   mutable object created above the subscription level is mutated/consumed at or below it or escapes into an
   observable/operator constructor (multicasting files excluded, justified allow-list, no stale allow-list entry);
 * `C04.resubscribe_same` — frame theorem on the abstract model <shared built-time state, per-subscription state>;
 * correspondence ("frame" cases): the frame model's global run `runG` of a catalogue of operators with per-subscription
   state (take, skip, scan, map_indexed, zip_with_iterable, distinct_until_changed, take_while, pairwise) against the real
   operators: ONE observable object, several subscriptions created at arbitrary points, events pushed to each
   subscription's own source observer in arbitrary interleavings (also after terminals);
 * oracle ("resub" cases, real code only): generated cold pipelines subscribed 2-3 times, sequentially and overlapping,
   on one TestScheduler; per-subscriber notifications must be equal relative to the subscription instant (and, when
   sequential, the cold sources' subscription logs too).  ("frame" cases have their own oracle: each subscription's
   output equals the output of the only subscription of a freshly built observable fed the same events.)
"""
from __future__ import annotations

import random
import signal

import fw
from fw import FnTab, InjectedError, enc, err_name
from xlate import captures as xc

LEAN_TARGETS = ["RxProofs.C04"]
DRIVER = "drv_struct"
DRIVER_ROOT = "Struct"
THEOREMS = [
    "C04.captures_cold_ok",
    "C04.resubscribe_same",
    "C04.resubscribe_same_pair",
    "C04.opdef_framed",
    "C04.opdef_resubscribe_same",
    "C04.retry_framed",
    "C04.repeat_framed",
    "C04.retry_fresh",
    "C04.repeat_fresh",
    "C04.catalogue_ops_resubscribe_same",
    "C04.catalogue_agg_resubscribe_same",
    "C04.zip_asis_not_resubscribable",
    "C04.zip_asis_not_framed",
]
RULE = ("frame cases: operator from the per-subscription-state catalogue x parameters around the event count x 2-4 subscriptions "
        "created at random points of a random interleaving of per-subscription events (terminals and post-terminal events included); "
        "resub cases: random cold pipelines (source kind x 1-3 stages from ~90 stage kinds) subscribed 2-3 times sequentially "
        "(gap > horizon) or overlapping (gaps 0..60); time operators also with durations of several hundred ticks, larger than the virtual time "
        "of the earliest subscription (50/100), re-subscribed 150..700 ticks later. Non-trivial: at least two subscriptions each delivering >= 1 notification. "
        "Distinct by canonical JSON.")
ASSUMPTIONS = [
    "the capture translator classifies scopes and mutable objects correctly (fail closed on unknown shapes); its classification rules are in harness/xlate/captures.py",
    "the allow-list entries of Struct.Captures.coldAllow are benign for the reasons written beside them (re-verified by reading the code)",
    "callbacks are deterministic; the one stateful callback kind (call-counting condition of while_do/do_while) is reset by the harness at every (sequential) subscription",
]
TRUSTED_EXTRA = ["harness/xlate/captures.py (AST translator)"]

_TAB = None
_SUMM = None


def regenerate():
    global _TAB, _SUMM
    _TAB, _SUMM = xc.regenerate(fw.REPO, fw.LEAN)
    return _SUMM


# =============================================================================== frame cases
DOM = [0, 1, 2, 3]
SYSTEMS = ["take", "skip", "scan", "map_indexed", "zip_with_iterable", "distinct_until_changed", "take_while", "pairwise", "retry", "repeat"]


def gen_tab(rng, args, results, p_raise=0.08):
    tab = []
    for a in args:
        r = {"raise": "cb%d" % rng.randrange(3)} if rng.random() < p_raise else enc(rng.choice(results))
        tab.append([enc(a), r])
    return {"tab": tab, "dflt": enc(results[0])}


def gen_acts(rng, nsub, nev):
    """random interleaving: creations at random points, events for already created (and sometimes not yet created) ids"""
    acts = []
    created = []
    ids = list(range(nsub))
    pending = list(ids)
    for _ in range(nev + nsub):
        if pending and (not created or rng.random() < 0.3):
            i = pending.pop(0)
            created.append(i)
            acts.append(["c", i])
            continue
        i = rng.choice(created if rng.random() < 0.95 or not pending else pending)
        r = rng.random()
        if r < 0.8:
            acts.append(["a", i, ["N", rng.choice(DOM)]])
        elif r < 0.92:
            acts.append(["a", i, ["C"]])
        else:
            acts.append(["a", i, ["E", "s%d" % rng.randrange(2)]])
    for i in pending:
        acts.append(["c", i])
    return acts


def gen_frame_cases(rng, tier):
    n = fw.tier_scale(tier, 1200, 9000)
    for _ in range(n):
        sysn = rng.choice(SYSTEMS)
        nev = rng.choice([3, 6, 10, 16])
        c = {"op": "frame_run", "sys": sysn, "acts": gen_acts(rng, rng.choice([2, 2, 3, 4]), nev)}
        if sysn in ("take", "skip"):
            c["count"] = rng.choice([1, 1, 2, 3, 5])
        elif sysn in ("retry", "repeat"):
            c["count"] = rng.choice([1, 2, 2, 3, None])
            # more terminals, so that the budget is used up
            c["acts"] = [a if a[0] == "c" or rng.random() < 0.6 else ["a", a[1], rng.choice([["E", "s0"], ["C"]])] for a in c["acts"]]
        elif sysn == "scan":
            c["accumulator"] = gen_tab(rng, [(a, x) for a in DOM for x in DOM], DOM)
            if rng.random() < 0.5:
                c["seed"] = rng.choice(DOM)
        elif sysn == "map_indexed":
            c["mapper"] = gen_tab(rng, [(x, i) for x in DOM for i in range(8)], list(range(10)))
        elif sysn == "zip_with_iterable":
            c["seq"] = [rng.choice([10, 20, 30, 40]) for _ in range(rng.choice([0, 1, 2, 3, 5, 8]))]
        elif sysn == "distinct_until_changed":
            c["key_mapper"] = gen_tab(rng, DOM, [0, 1, False, True, 0.0] if rng.random() < 0.3 else [0, 1, 2])
        elif sysn == "take_while":
            c["predicate"] = gen_tab(rng, DOM, [True, True, False, 0, 1, None, ""])
            c["inclusive"] = rng.random() < 0.5
        yield c


def _build_op(case):
    from reactivex import operators as ops
    from reactivex.internal.utils import NotSet

    s = case["sys"]
    if s == "take":
        return ops.take(case["count"])
    if s == "skip":
        return ops.skip(case["count"])
    if s == "scan":
        f = FnTab.from_json(case["accumulator"])
        return ops.scan(lambda a, x: f(a, x), fw.dec(case["seed"]) if "seed" in case else NotSet)
    if s == "map_indexed":
        f = FnTab.from_json(case["mapper"])
        return ops.map_indexed(lambda x, i: f(x, i))
    if s == "zip_with_iterable":
        return ops.zip_with_iterable([fw.dec(v) for v in case["seq"]])
    if s == "distinct_until_changed":
        f = FnTab.from_json(case["key_mapper"])
        return ops.distinct_until_changed(lambda x: f(x))
    if s == "take_while":
        f = FnTab.from_json(case["predicate"])
        return ops.take_while(lambda x: f(x), case["inclusive"])
    if s == "pairwise":
        return ops.pairwise()
    if s == "retry":
        return ops.retry(case["count"])
    if s == "repeat":
        return ops.repeat(case["count"])
    raise ValueError(s)


def _drive(case, acts):
    """ONE observable built from the operator; subscriptions and events as listed"""
    import reactivex as rx
    from reactivex.disposable import Disposable

    observers = {}
    cur = [None]
    out = []

    def subscribe(observer, scheduler=None):
        if cur[0] in observers:  # the operator subscribes the source again for the same downstream subscription
            out.append([cur[0], ["R"]])
        observers[cur[0]] = observer
        return Disposable()

    o = rx.Observable(subscribe).pipe(_build_op(case))
    for a in acts:
        if a[0] == "c":
            i = a[1]
            cur[0] = i
            o.subscribe(lambda v, i=i: out.append([i, ["N", enc(v)]]), lambda e, i=i: out.append([i, ["E", err_name(e)]]),
                        lambda i=i: out.append([i, ["C"]]))
        else:
            i, n = a[1], a[2]
            obs = observers.get(i)
            if obs is None:
                continue
            cur[0] = i  # a re-subscription made while handling this event belongs to subscription i
            if n[0] == "N":
                obs.on_next(fw.dec(n[1]))
            elif n[0] == "E":
                obs.on_error(InjectedError(n[1]))
            else:
                obs.on_completed()
    return out


def run_frame(case):
    out = _drive(case, case["acts"])
    # isolated reference: every subscription alone on a freshly built observable
    ids = [a[1] for a in case["acts"] if a[0] == "c"]
    alone = {}
    for i in ids:
        mine = [a for a in case["acts"] if a[1] == i]
        alone[str(i)] = [o[1] for o in _drive(case, mine)]
    return {"out": out, "alone": alone}


# =============================================================================== resub cases
HORIZON = 600
STAGES = [
    "map", "map_indexed", "filter", "filter_indexed", "take", "skip", "take_last", "skip_last", "take_while", "take_while_indexed",
    "skip_while", "skip_while_indexed", "distinct", "distinct_until_changed", "scan", "scan_seed", "reduce", "pairwise", "start_with",
    "default_if_empty", "merge", "zip", "zip_with_iterable", "combine_latest", "with_latest_from", "concat", "catch", "catch_fn",
    "on_error_resume_next", "switch_map", "switch_map_indexed", "flat_map", "flat_map_indexed", "flat_map_latest", "concat_map", "amb",
    "take_until", "skip_until", "retry", "repeat", "while_do", "do_while", "materialize_dematerialize", "do_action", "delay", "debounce",
    "throttle_first", "timeout", "sample", "sample_obs", "window_count", "buffer_count", "buffer_time", "window_time", "group_by",
    "to_list", "first", "last", "count", "sum", "average", "min", "max", "all", "some", "contains", "is_empty", "element_at", "find",
    "timestamp", "time_interval", "finally_action", "delay_subscription", "take_with_time", "skip_with_time", "take_last_with_time",
    "skip_last_with_time", "expand", "slice", "sequence_equal", "to_set", "to_dict", "ignore_elements", "as_observable",
    "single_or_default", "first_or_default", "last_or_default", "take_last_buffer", "buffer_when", "window_when", "fork_join",
    "starmap_zip", "min_by", "max_by", "join", "group_join", "throttle_with_mapper", "delay_with_mapper", "timeout_with_mapper", "exclusive",
    "switch_latest", "merge_all", "observe_on", "subscribe_on", "skip_until_with_time", "take_until_with_time",
    "oern_factory_stage", "catch_branch",
    # unhashable elements / keys with the default comparer (key-based operators)
    "distinct_list_elems", "distinct_list_key", "duc_list_key", "to_set_lists", "min_by_list_key", "group_by_list_key", "to_dict_list_key",
    "distinct_list_elems", "distinct_list_key",
]
SOURCES = ["cold", "cold", "cold", "of", "range", "catch", "oern", "concat", "for_in", "merge", "zip", "defer", "repeat_value",
           "from_callback", "timer", "interval", "generate", "if_then", "empty", "throw", "return_value", "from_iterable",
           "combine_latest", "with_latest_from", "fork_join", "amb", "case", "using", "start", "from_marbles_cold", "generate_with_relative_time",
           "oern_factory", "oern_factory", "oern_mixed", "range_open_step", "range_open_step", "range_step"]
# sources / stages whose fallback is chosen by a FACTORY that branches on the error it is handed (None for the first one)
FACTORY_KINDS = {"oern_factory", "oern_mixed", "oern_factory_stage", "catch_branch"}
SEQ_ONLY = {"while_do", "do_while"}
TIME_STAGES = {"delay", "debounce", "throttle_first", "timeout", "sample", "buffer_time", "window_time", "delay_subscription", "take_with_time",
               "skip_with_time", "take_last_with_time", "skip_last_with_time", "skip_until_with_time", "take_until_with_time", "time_interval",
               "timestamp", "throttle_with_mapper", "delay_with_mapper", "timeout_with_mapper"}


def gen_cold(rng, maxlen=5, allow_error=True):
    t, msgs = 0, []
    for _ in range(rng.randrange(0, maxlen + 1)):
        t += rng.choice([5, 10, 10, 20, 30])
        msgs.append([t, ["N", rng.randrange(0, 5)]])
    t += rng.choice([5, 10, 20])
    r = rng.random()
    if r < 0.72:
        msgs.append([t, ["C"]])
    elif r < 0.92 and allow_error:
        msgs.append([t, ["E", "src%d" % rng.randrange(2)]])
    return msgs


def gen_resub_cases(rng, tier):
    n = fw.tier_scale(tier, 1300, 14000)
    for _ in range(n):
        nst = rng.choice([1, 1, 2, 2, 3])
        stages = [[rng.choice(STAGES), rng.randrange(0, 4), rng.randrange(1 << 16)] for _ in range(nst)]
        seq = rng.random() < 0.5 or any(s[0] in SEQ_ONLY for s in stages)
        k = rng.choice([2, 2, 3])
        if seq:
            gaps = [HORIZON + 100] * (k - 1)
        else:
            gaps = [rng.choice([0, 5, 10, 15, 25, 40, 60]) for _ in range(k - 1)]
        c = {"op": "resub", "source": rng.choice(SOURCES), "colds": [gen_cold(rng) for _ in range(4)], "stages": stages,
             "gaps": gaps, "seq": seq, "vals": [rng.randrange(0, 5) for _ in range(rng.randrange(0, 4))], "n": rng.randrange(0, 4)}
        if any(s[0] in TIME_STAGES for s in stages) and rng.random() < 0.6:
            # absolute-clock dependence shows only when a duration exceeds the virtual time of the earliest subscription:
            # subscribe early (50/100) and late (gap), with durations up to several hundred ticks
            c["t0"] = rng.choice([50, 100, 100, 200])
            c["tscale"] = rng.choice([1, 10, 20, 20])
        if c["source"] in FACTORY_KINDS or any(s[0] in FACTORY_KINDS for s in stages):
            # the fallback chosen by a factory depends on the error of the previous source: make sources that fail likely,
            # also the last one of the chain (so that a stale error would still be around when the next subscription starts)
            for k in range(4):
                if rng.random() < 0.7:
                    msgs = [m for m in c["colds"][k] if m[1][0] == "N"]
                    t = (msgs[-1][0] if msgs else 0) + rng.choice([5, 10, 20])
                    c["colds"][k] = msgs + [[t, ["E", "src%d" % rng.randrange(2)]]]
        yield c


DURATION_STAGES = ["delay", "debounce", "throttle_first", "timeout", "sample", "buffer_time", "window_time", "delay_subscription",
                   "take_with_time", "skip_with_time", "take_last_with_time", "skip_last_with_time", "skip_until_with_time",
                   "take_until_with_time", "time_interval", "timestamp"]


def gen_time_cases(rng, tier):
    """one time operator over a cold source that emits early, subscribed at a SMALL virtual time and again much later, with a
    duration LARGER than the first subscription instant: any dependence on the absolute clock shows as a difference"""
    for _ in range(fw.tier_scale(tier, 450, 4000)):
        st = rng.choice(DURATION_STAGES)
        stages = [[st, rng.randrange(0, 4), rng.randrange(1 << 16)]]
        if rng.random() < 0.3:
            stages.append([rng.choice(["map", "take", "to_list", "scan", "distinct_until_changed"]), rng.randrange(1, 4), rng.randrange(1 << 16)])
        seq = rng.random() < 0.6
        k = rng.choice([2, 2, 3])
        gaps = [HORIZON + 100] * (k - 1) if seq else [rng.choice([150, 300, 350, 450]) for _ in range(k - 1)]
        cold = gen_cold(rng, maxlen=5, allow_error=rng.random() < 0.3)
        yield {"op": "resub", "source": "cold", "colds": [cold] + [gen_cold(rng) for _ in range(3)], "stages": stages, "gaps": gaps, "seq": seq,
               "vals": [], "n": 0, "t0": rng.choice([50, 100]), "tscale": rng.choice([10, 20, 20, 40])}


class World:
    """everything the pipeline builders need; all callbacks pure (or reset per sequential subscription)"""

    def __init__(self, case):
        from reactivex.testing import TestScheduler

        self.case = case
        self.sched = TestScheduler()
        self.colds = []
        self.resets = []

    def cold(self, k):
        from reactivex.testing import ReactiveTest

        msgs = self.case["colds"][k % len(self.case["colds"])]
        rec = []
        for t, n in msgs:
            if n[0] == "N":
                rec.append(ReactiveTest.on_next(t, n[1]))
            elif n[0] == "C":
                rec.append(ReactiveTest.on_completed(t))
            else:
                rec.append(ReactiveTest.on_error(t, InjectedError(n[1])))
        o = self.sched.create_cold_observable(*rec)
        self.colds.append(o)
        return o

    def timer(self, d):
        from reactivex.testing import ReactiveTest

        return self.sched.create_cold_observable(ReactiveTest.on_next(d, 0), ReactiveTest.on_completed(d))

    def counting(self, n):
        box = [0]
        self.resets.append(lambda: box.__setitem__(0, 0))

        def cond(_):
            box[0] += 1
            return box[0] <= n
        return cond


def build_source(w: World, case):
    import reactivex as rx
    from reactivex import operators as ops

    k, vals, n, s = case["source"], case["vals"], case["n"], w.sched
    if k == "cold":
        return w.cold(0)
    if k == "of":
        return rx.of(*vals)
    if k == "from_iterable":
        return rx.from_iterable(list(vals))
    if k == "range":
        return rx.range(n + 1)
    if k == "range_open_step":
        # open-ended stepped form, bounded downstream
        return rx.range(10 + n, None, 1 + n).pipe(ops.take(4))
    if k == "range_step":
        return rx.range(n, 20, 1 + n)
    if k == "catch":
        return rx.catch(w.cold(0), w.cold(1), w.cold(2))
    if k == "oern":
        return rx.on_error_resume_next(w.cold(0), w.cold(1))
    if k == "oern_factory":
        # every source is a factory that branches on the error it is handed (None for the first source of a subscription)
        a0, b0, a1, b1 = w.cold(0), w.cold(1), w.cold(2), w.cold(3)
        return rx.on_error_resume_next(lambda e: a0 if e is None else b0, lambda e: a1 if e is None else b1)
    if k == "oern_mixed":
        a0, b0, a1, b1 = w.cold(0), w.cold(1), w.cold(2), w.cold(3)
        return rx.on_error_resume_next(a0, lambda e: a1 if e is None else b1, lambda e: b0 if e is None else a0)
    if k == "concat":
        return rx.concat(w.cold(0), w.cold(1))
    if k == "for_in":
        a, b = w.cold(0), w.cold(1)
        return rx.for_in(vals, lambda v: a if v % 2 == 0 else b)
    if k == "merge":
        return rx.merge(w.cold(0), w.cold(1))
    if k == "zip":
        return rx.zip(w.cold(0), w.cold(1))
    if k == "combine_latest":
        return rx.combine_latest(w.cold(0), w.cold(1))
    if k == "with_latest_from":
        return rx.with_latest_from(w.cold(0), w.cold(1))
    if k == "fork_join":
        return rx.fork_join(w.cold(0), w.cold(1))
    if k == "amb":
        return rx.amb(w.cold(0), w.cold(1))
    if k == "defer":
        a = w.cold(0)
        return rx.defer(lambda sc: a)
    if k == "repeat_value":
        return rx.repeat_value(7, n + 1)
    if k == "from_callback":
        def f(a, b, cb):
            cb(a + b)
        return rx.from_callback(f)(n, 10)
    if k == "timer":
        return rx.timer(10 + 5 * n)
    if k == "interval":
        return rx.interval(10 + 5 * n).pipe(ops.take(3))
    if k == "generate":
        return rx.generate(0, lambda x: x < n + 1, lambda x: x + 1)
    if k == "generate_with_relative_time":
        return rx.generate_with_relative_time(0, lambda x: x < n + 1, lambda x: x + 1, lambda x: 5 + x)
    if k == "if_then":
        return rx.if_then(lambda: n % 2 == 0, w.cold(0), w.cold(1))
    if k == "case":
        return rx.case(lambda: n % 2, {0: w.cold(0), 1: w.cold(1)})
    if k == "using":
        from reactivex.disposable import Disposable
        a = w.cold(0)
        return rx.using(lambda: Disposable(), lambda r: a)
    if k == "empty":
        return rx.empty()
    if k == "throw":
        return rx.throw(InjectedError("thrown"))
    if k == "return_value":
        return rx.return_value(n)
    if k == "start":
        # `start` is hot by definition (allow-listed): used through defer, which is the documented way to make it cold
        return rx.defer(lambda sc: rx.start(lambda: n, s))
    if k == "from_marbles_cold":
        return rx.from_marbles("-1-2-(34)-|", timespan=10)
    raise ValueError(k)


def apply_stage(w: World, o, st, idx):
    import reactivex as rx
    from reactivex import operators as ops

    name, n, seed = st
    r = random.Random(seed)
    c1, c2 = (idx * 2 + 1), (idx * 2 + 2)
    m = r.choice([2, 3])
    ts = w.case.get("tscale", 1)  # time parameters: small (5..40) or larger than the earliest subscription instant (up to 800)
    if name == "map": return o.pipe(ops.map(lambda x: x * 2 + 1))
    if name == "map_indexed": return o.pipe(ops.map_indexed(lambda x, i: (x, i)))
    if name == "filter": return o.pipe(ops.filter(lambda x: _num(x) % m != 0))
    if name == "filter_indexed": return o.pipe(ops.filter_indexed(lambda x, i: i % m != 0))
    if name == "take": return o.pipe(ops.take(n))
    if name == "skip": return o.pipe(ops.skip(n))
    if name == "take_last": return o.pipe(ops.take_last(n))
    if name == "skip_last": return o.pipe(ops.skip_last(n))
    if name == "take_while": return o.pipe(ops.take_while(lambda x: _num(x) != n, r.random() < 0.5))
    if name == "take_while_indexed": return o.pipe(ops.take_while_indexed(lambda x, i: i < n, r.random() < 0.5))
    if name == "skip_while": return o.pipe(ops.skip_while(lambda x: _num(x) != n))
    if name == "skip_while_indexed": return o.pipe(ops.skip_while_indexed(lambda x, i: i < n))
    if name == "distinct": return o.pipe(ops.distinct(lambda x: _num(x) % m))
    if name == "distinct_list_elems": return o.pipe(ops.map(lambda x: [_num(x) % m]), ops.distinct())
    if name == "distinct_list_key": return o.pipe(ops.distinct(lambda x: {"k": _num(x) % m}))
    if name == "duc_list_key": return o.pipe(ops.distinct_until_changed(lambda x: [_num(x) % m]))
    if name == "to_set_lists": return o.pipe(ops.map(lambda x: [_num(x) % m]), ops.to_set())
    if name == "min_by_list_key": return o.pipe(ops.min_by(lambda x: [_num(x) % m]))
    if name == "group_by_list_key": return o.pipe(ops.group_by(lambda x: [_num(x) % m]), ops.flat_map(lambda g: g.pipe(ops.to_list())))
    if name == "to_dict_list_key": return o.pipe(ops.to_dict(lambda x: [_num(x) % m]))
    if name == "distinct_until_changed": return o.pipe(ops.distinct_until_changed(lambda x: _num(x) % m))
    if name == "scan": return o.pipe(ops.scan(lambda a, x: _num(a) + _num(x)))
    if name == "scan_seed": return o.pipe(ops.scan(lambda a, x: a + _num(x), n))
    if name == "reduce": return o.pipe(ops.reduce(lambda a, x: a + _num(x), n))
    if name == "pairwise": return o.pipe(ops.pairwise())
    if name == "start_with": return o.pipe(ops.start_with(8, 9))
    if name == "default_if_empty": return o.pipe(ops.default_if_empty(7))
    if name == "merge": return o.pipe(ops.merge(w.cold(c1)))
    if name == "zip": return o.pipe(ops.zip(w.cold(c1)))
    if name == "zip_with_iterable": return o.pipe(ops.zip_with_iterable([10, 20, 30, 40][: n + 1]))
    if name == "combine_latest": return o.pipe(ops.combine_latest(w.cold(c1)))
    if name == "with_latest_from": return o.pipe(ops.with_latest_from(w.cold(c1)))
    if name == "concat": return o.pipe(ops.concat(w.cold(c1)))
    if name == "catch": return o.pipe(ops.catch(w.cold(c1)))
    if name == "catch_fn":
        alt = w.cold(c1)
        return o.pipe(ops.catch(lambda e, src: alt))
    if name == "on_error_resume_next": return o.pipe(ops.on_error_resume_next(w.cold(c1)))
    if name == "oern_factory_stage":
        a, b = w.cold(c1), w.cold(c2)
        return o.pipe(ops.on_error_resume_next(lambda e: a if e is None else b))
    if name == "catch_branch":
        a, b = w.cold(c1), w.cold(c2)
        return o.pipe(ops.catch(lambda e, src: a if err_name(e).endswith("0") else b))
    if name in ("switch_map", "flat_map", "flat_map_latest", "concat_map"):
        a, b = w.cold(c1), w.cold(c2)
        return o.pipe(getattr(ops, name)(lambda x: a if _num(x) % 2 == 0 else b))
    if name in ("switch_map_indexed", "flat_map_indexed"):
        a, b = w.cold(c1), w.cold(c2)
        return o.pipe(getattr(ops, name)(lambda x, i: (a if i % 2 == 0 else b).pipe(ops.map(lambda y: (y, i)))))
    if name == "amb": return o.pipe(ops.amb(w.cold(c1)))
    if name == "take_until": return o.pipe(ops.take_until(w.cold(c1)))
    if name == "skip_until": return o.pipe(ops.skip_until(w.cold(c1)))
    if name == "retry": return o.pipe(ops.retry(n + 1))
    if name == "repeat": return o.pipe(ops.repeat(n + 1))
    if name == "while_do": return o.pipe(ops.while_do(w.counting(n)))
    if name == "do_while": return o.pipe(ops.do_while(w.counting(n)))
    if name == "materialize_dematerialize": return o.pipe(ops.materialize(), ops.dematerialize())
    if name == "do_action": return o.pipe(ops.do_action(lambda x: None))
    if name == "delay": return o.pipe(ops.delay(ts * (5 * n + 5)))
    if name == "debounce": return o.pipe(ops.debounce(ts * (5 * n + 5)))
    if name == "throttle_first": return o.pipe(ops.throttle_first(ts * (5 * n + 5)))
    if name == "timeout": return o.pipe(ops.timeout(ts * (10 * n + 15), w.cold(c1)))
    if name == "sample": return o.pipe(ops.sample(ts * (10 * n + 10)))
    if name == "sample_obs": return o.pipe(ops.sample(w.cold(c1)))
    if name == "window_count": return o.pipe(ops.window_with_count(n + 1), ops.flat_map(lambda win: win.pipe(ops.to_list())))
    if name == "buffer_count": return o.pipe(ops.buffer_with_count(n + 1, r.choice([None, 1, 2])))
    if name == "buffer_time": return o.pipe(ops.buffer_with_time(ts * (10 * n + 10)))
    if name == "window_time": return o.pipe(ops.window_with_time(ts * (10 * n + 10)), ops.flat_map(lambda win: win.pipe(ops.to_list())))
    if name == "group_by": return o.pipe(ops.group_by(lambda x: _num(x) % m), ops.flat_map(lambda g: g.pipe(ops.to_list(), ops.map(lambda l: (g.key, tuple(l))))))
    if name == "to_list": return o.pipe(ops.to_list())
    if name == "first": return o.pipe(ops.first())
    if name == "last": return o.pipe(ops.last())
    if name == "count": return o.pipe(ops.count())
    if name == "sum": return o.pipe(ops.map(_num), ops.sum())
    if name == "average": return o.pipe(ops.map(_num), ops.average())
    if name == "min": return o.pipe(ops.map(_num), ops.min())
    if name == "max": return o.pipe(ops.map(_num), ops.max())
    if name == "min_by": return o.pipe(ops.min_by(lambda x: _num(x) % m))
    if name == "max_by": return o.pipe(ops.max_by(lambda x: _num(x) % m))
    if name == "all": return o.pipe(ops.all(lambda x: _num(x) != n))
    if name == "some": return o.pipe(ops.some(lambda x: _num(x) == n))
    if name == "contains": return o.pipe(ops.contains(n))
    if name == "is_empty": return o.pipe(ops.is_empty())
    if name == "element_at": return o.pipe(ops.element_at(n))
    if name == "find": return o.pipe(ops.find(lambda x, i, src: _num(x) == n))
    if name == "timestamp":
        t0 = w.sched.now
        return o.pipe(ops.timestamp(), ops.map(lambda t: t.value))
    if name == "time_interval": return o.pipe(ops.time_interval(), ops.map(lambda t: (t.value, int(t.interval.total_seconds()))))
    if name == "finally_action": return o.pipe(ops.finally_action(lambda: None))
    if name == "delay_subscription": return o.pipe(ops.delay_subscription(ts * (5 * n + 5)))
    if name == "take_with_time": return o.pipe(ops.take_with_time(ts * (10 * n + 15)))
    if name == "skip_with_time": return o.pipe(ops.skip_with_time(ts * (10 * n + 15)))
    if name == "take_last_with_time": return o.pipe(ops.take_last_with_time(ts * (10 * n + 15)))
    if name == "skip_last_with_time": return o.pipe(ops.skip_last_with_time(ts * (10 * n + 15)))
    if name == "skip_until_with_time": return o.pipe(ops.skip_until_with_time(ts * (10 * n + 15)))
    if name == "take_until_with_time": return o.pipe(ops.take_until_with_time(ts * (10 * n + 15)))
    if name == "expand":
        return o.pipe(ops.expand(lambda x: rx.of(_num(x) + 2) if _num(x) < 4 else rx.empty()), ops.take(12))
    # `partition` is not in the catalogue: it is `publish() + ref_count()` by construction (multicasting, excluded by the property)
    if name == "slice": return o.pipe(ops.slice(r.choice([None, 0, 1]), r.choice([None, 2, 4]), r.choice([None, 1, 2])))
    if name == "sequence_equal": return o.pipe(ops.sequence_equal(w.cold(c1)))
    if name == "to_set": return o.pipe(ops.map(_num), ops.to_set())
    if name == "to_dict": return o.pipe(ops.to_dict(lambda x: _num(x) % m))
    if name == "ignore_elements": return o.pipe(ops.ignore_elements())
    if name == "as_observable": return o.pipe(ops.as_observable())
    if name == "single_or_default": return o.pipe(ops.single_or_default(lambda x: _num(x) == n, 9))
    if name == "first_or_default": return o.pipe(ops.first_or_default(lambda x: _num(x) == n, 9))
    if name == "last_or_default": return o.pipe(ops.last_or_default(9))
    if name == "take_last_buffer": return o.pipe(ops.take_last_buffer(n))
    if name == "buffer_when": return o.pipe(ops.buffer_when(lambda: w.timer(10 * n + 15)))
    if name == "window_when": return o.pipe(ops.window_when(lambda: w.timer(10 * n + 15)), ops.flat_map(lambda win: win.pipe(ops.to_list())))
    if name == "fork_join": return o.pipe(ops.fork_join(w.cold(c1)))
    if name == "starmap_zip": return o.pipe(ops.zip(w.cold(c1)), ops.starmap(lambda a, b: _num(a) * 10 + _num(b)))
    if name == "join": return o.pipe(ops.join(w.cold(c1), lambda x: w.timer(15), lambda y: w.timer(10)))
    if name == "group_join":
        return o.pipe(ops.group_join(w.cold(c1), lambda x: w.timer(15), lambda y: w.timer(10)),
                      ops.flat_map(lambda t: t[1].pipe(ops.to_list(), ops.map(lambda l: (t[0], tuple(l))))))
    if name == "throttle_with_mapper": return o.pipe(ops.throttle_with_mapper(lambda x: w.timer(5 + 5 * (_num(x) % 3))))
    if name == "delay_with_mapper": return o.pipe(ops.delay_with_mapper(w.timer(5 * n + 5), lambda x: w.timer(5 + 5 * (_num(x) % 3))))
    if name == "timeout_with_mapper": return o.pipe(ops.timeout_with_mapper(w.timer(10 * n + 15), lambda x: w.timer(10 + 5 * (_num(x) % 3)), w.cold(c1)))
    if name in ("exclusive", "switch_latest", "merge_all"):
        a, b = w.cold(c1), w.cold(c2)
        return o.pipe(ops.map(lambda x: a if _num(x) % 2 == 0 else b), getattr(ops, name)())
    if name == "observe_on": return o.pipe(ops.observe_on(w.sched))
    if name == "subscribe_on": return o.pipe(ops.subscribe_on(w.sched))
    raise ValueError(name)


def _num(x):
    if isinstance(x, bool):
        return int(x)
    if isinstance(x, int):
        return x
    if isinstance(x, float):
        return int(x)
    if isinstance(x, (tuple, list)):
        return sum(_num(y) for y in x) if x else 0
    return 0


class CaseTimeout(BaseException):
    pass


def _alarm(signum, frame):
    raise CaseTimeout()


def run_resub(case):
    old = signal.signal(signal.SIGALRM, _alarm)
    signal.setitimer(signal.ITIMER_REAL, 20.0)
    try:
        return _run_resub(case)
    except CaseTimeout:
        return {"timeout": True}
    finally:
        signal.setitimer(signal.ITIMER_REAL, 0)
        signal.signal(signal.SIGALRM, old)


def _run_resub(case):
    w = World(case)
    try:
        o = build_source(w, case)
        for idx, st in enumerate(case["stages"]):
            o = apply_stage(w, o, st, idx)
    except Exception as e:  # construction-time error: nothing to subscribe to
        return {"build_error": err_name(e)}
    sched = w.sched
    times = [case.get("t0", 200)]
    for g in case["gaps"]:
        times.append(times[-1] + g)
    logs = [[] for _ in times]

    def venc(v):
        from reactivex import Observable
        if isinstance(v, Observable):
            return "<obs>"
        if isinstance(v, (tuple, list)):
            e = [venc(x) for x in v]
            return {"t": e} if isinstance(v, tuple) else e
        if hasattr(v, "kind") and hasattr(v, "accept"):
            return ["notif", v.kind]
        return enc(v)

    def mk(i, t0):
        def act(s, st):
            for rs in w.resets:
                rs()
            lg = logs[i]
            d = o.subscribe(lambda v: lg.append([int(sched.clock) - t0, ["N", venc(v)]]),
                            lambda e: lg.append([int(sched.clock) - t0, ["E", err_name(e)]]),
                            lambda: lg.append([int(sched.clock) - t0, ["C"]]), scheduler=sched)
            sched.schedule_absolute(t0 + HORIZON, lambda s2, st2: d.dispose())
        return act

    for i, t0 in enumerate(times):
        sched.schedule_absolute(t0, mk(i, t0))
    escaped = []
    for _ in range(60):
        try:
            sched.start()
            break
        except Exception as e:  # exceptions escaping into the scheduler are C09's business; they are recorded, not compared
            escaped.append(err_name(e))
    out = {"logs": logs, "escaped": escaped[:4]}
    if case["seq"]:
        subs = []
        for i, t0 in enumerate(times):
            per = []
            for c in w.colds:
                per.append(sorted([int(s.subscribe) - t0, (int(s.unsubscribe) - t0) if s.unsubscribe < 10 ** 15 else None]
                                  for s in c.subscriptions if t0 <= s.subscribe < t0 + HORIZON + 100))
            subs.append(per)
        out["subs"] = subs
    return out


# =============================================================================== interface
def cases(rng, tier):
    yield from gen_frame_cases(rng, tier)
    yield from gen_resub_cases(rng, tier)
    yield from gen_time_cases(rng, tier)


def model_request(case):
    return case if case["op"] == "frame_run" else None


def impl(case):
    if case["op"] == "frame_run":
        old = signal.signal(signal.SIGALRM, _alarm)
        signal.setitimer(signal.ITIMER_REAL, 20.0)
        try:
            return run_frame(case)
        finally:
            signal.setitimer(signal.ITIMER_REAL, 0)
            signal.signal(signal.SIGALRM, old)
    return run_resub(case)


def canon_impl(case, out):
    return out["out"] if case["op"] == "frame_run" else out


def canon_model(case, resp):
    return resp


def oracle(case, out):
    if case["op"] == "frame_run":
        for i, ref in out["alone"].items():
            mine = [o[1] for o in out["out"] if str(o[0]) == i]
            if fw.key(mine) != fw.key(ref):
                return (f"{case['sys']}: subscription {i} of the shared observable delivered {mine} but the only subscription of a "
                        f"fresh observable fed the same events delivers {ref}")
        return None
    if out.get("timeout") or "build_error" in out:
        return None
    if out["escaped"]:
        return None  # a run in which an exception escaped into the scheduler is not comparable (C09)
    first = out["logs"][0]
    for i, lg in enumerate(out["logs"][1:], 1):
        if fw.key(lg) != fw.key(first):
            return (f"subscription #{i} (at +{sum(case['gaps'][:i])}) of source={case['source']} stages={[s[0] for s in case['stages']]} "
                    f"differs from subscription #0 relative to the subscription instant: {lg} vs {first}")
    if "subs" in out:
        for i, per in enumerate(out["subs"][1:], 1):
            if fw.key(per) != fw.key(out["subs"][0]):
                return (f"cold sources' subscription logs of subscription #{i} differ from #0 (relative): {per} vs {out['subs'][0]} "
                        f"source={case['source']} stages={[s[0] for s in case['stages']]}")
    return None


def classify(case, why):
    return None


def nontrivial(case, out):
    if case["op"] == "frame_run":
        ids = {o[0] for o in out["out"]}
        return len(ids) >= 2
    if out.get("timeout") or "build_error" in out or out["escaped"]:
        return False
    return sum(1 for lg in out["logs"] if lg) >= 2


def bucket(case, out):
    if case["op"] == "frame_run":
        yield "frame:" + case["sys"]
        return
    yield "resub:" + ("seq" if case["seq"] else "overlap")
    yield "src:" + case["source"]
    for s in case["stages"]:
        yield "stage:" + s[0]
    if out.get("timeout"):
        yield "resub:timeout"
    elif "build_error" in out:
        yield "resub:build_error:" + out["build_error"]
    elif out["escaped"]:
        yield "resub:escaped"
    elif not any(out["logs"]):
        yield "resub:silent"


def shrink(case):
    if case["op"] == "frame_run":
        for i in range(len(case["acts"])):
            c = dict(case)
            c["acts"] = case["acts"][:i] + case["acts"][i + 1:]
            yield c
        return
    for i in range(len(case["stages"])):
        if len(case["stages"]) > 1:
            c = dict(case)
            c["stages"] = case["stages"][:i] + case["stages"][i + 1:]
            yield c
    if len(case["gaps"]) > 1:
        c = dict(case)
        c["gaps"] = case["gaps"][:-1]
        yield c
    for k in range(len(case["colds"])):
        for i in range(len(case["colds"][k])):
            c = dict(case)
            c["colds"] = [list(x) for x in case["colds"]]
            del c["colds"][k][i]
            yield c
    if case["vals"]:
        c = dict(case)
        c["vals"] = case["vals"][:-1]
        yield c


def search(rng, tier, disagreeing):
    import time as _time
    r2 = random.Random(rng.randrange(1 << 30))
    n = 0
    t_end = _time.time() + fw.tier_scale(tier, 25, 240)  # the failing-input search has a time budget
    for c in gen_resub_cases(r2, "thorough"):
        n += 1
        if _time.time() > t_end:
            break
        if n > fw.tier_scale(tier, 4000, 14000):
            break
        v = oracle(c, impl(c))
        if v:
            return fw.Failure("oracle", c, v)
    return None


def extra(rng, tier):
    cov = {"exhaustive": False}
    pf = []
    try:
        rep = fw.run_driver(DRIVER, [{"op": "captures_report"}])[0]
        cov["capture_table"] = {k: rep[k] for k in ("entries", "created_above_subscription", "cold_violations", "cold_allowed", "cold_stale_allow")}
    except Exception as e:  # the driver is rebuilt from the same table; if it is not there the build failure is already reported
        cov["capture_table"] = {"driver_unavailable": str(e)[:200], "flagged_by_translator": (_SUMM or {}).get("flagged_before_allow_list")}
    cov["stage_kinds"] = len(STAGES)
    cov["source_kinds"] = len(set(SOURCES))
    return {"proof_failures": pf, "coverage": cov}


LEVEL_TEXT = ("Lean: `captures_cold_ok` (kernel `decide` over the capture table regenerated from reactivex/operators, reactivex/observable and "
              "reactivex/__init__.py on this run: no mutable object created above the subscription level is mutated/consumed at or below it or "
              "escapes into an observable/operator constructor) and the frame theorem `resubscribe_same` (for any model whose built-time state is "
              "never written, any number of sequential or overlapping subscriptions, under any interleaving, each emit what a single subscription "
              "emits from its own relative events), instantiated for a catalogue of ten stateful operators (incl. retry/repeat with their per-subscription budgets: `retry_fresh`, `repeat_fresh`) whose models are run against the real "
              "operators; plus the decided counter-example for the pre-fix zip_with_iterable. Dynamic oracle: generated cold pipelines subscribed "
              "2-3 times sequentially/overlapping must deliver the same relative notifications.")
LEVEL_NOTE = ("The theorem is about the abstract frame model; that the real operators satisfy its hypothesis is the capture table (a syntactic, "
              "fail-closed AST analysis with stated classification rules, an allow-list of 8 justified entries and the multicasting files excluded as the "
              "property says) plus the resubscription oracle; ten operators have models of their own run against the code by this check; in addition `catalogue_ops_resubscribe_same` / `catalogue_agg_resubscribe_same` instantiate the frame theorem for EVERY handler record of the element-wise family (Ops.Op: empty, map, filter, filter_indexed, take, skip, take_while(_indexed), skip_while(_indexed), zip_with_iterable, map_indexed, distinct, distinct_until_changed, pairwise, start_with, default_if_empty, ignore_elements, take_last, skip_last, take_last_buffer, element_at(_or_default), find, find_index, materialize, dematerialize, scan, slice pipelines) and of the aggregating family (Agg.Op: map, filter, scan, reduce, count, sum, average, min, max, min_by, max_by, first/last/single(_or_default), some, all, contains, is_empty, to_list, to_set, to_dict and their compositions) — those records are tied to the code by C05-C08's correspondences, not by this check. Needs the fix patches "
              "fixes/C04_*.patch and the C41 from_callback fix: on the unfixed tree the check reports VIOLATION with a resubscription replay.")

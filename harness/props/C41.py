"""C41 — future, callback and blocking bridges keep their contracts (DESIGN.md §5 C41)."""
import asyncio
import concurrent.futures
import threading

import fw
from fw import FnTab, InjectedError, enc, err_name

LEAN_TARGETS = ["RxProofs.C41"]
DRIVER = "drv_pure"
DRIVER_ROOT = "Pure"
PROCS = 4
THEOREMS = [
    "C41.from_future_maps_outcome",
    "C41.from_future_unsubscribe_first_cancels",
    "C41.from_future_done_before_subscribe",
    "C41.start_async_raise_is_throw",
    "C41.to_future_last_or_error",
    "C41.empty_raises_no_elements",
    "C41.to_future_cancel_is_final",
    "C41.to_future_done_disposes_source",
    "C41.run_eq_to_future",
    "C41.run_latch_all_interleavings",
    "C41.run_latch_no_lost_wakeup",
    "C41.to_async_single_then_complete",
    "C41.to_async_invoked_once",
    "C41.from_callback_one_then_complete",
    "C41.from_callback_value_no_mapper",
    "C41.from_callback_passes_own_handler",
    "C41.from_callback_asis_mapper_never_completes",
    "C41.from_callback_asis_second_subscription_two_handlers",
    "C41.from_callback_asis_no_args_raises",
]
RULE = ("from_future/start_async: real concurrent.futures and asyncio futures (pending or already done at subscription) driven by "
        "histories of resolve(result|exception|cancel)/dispose events; to_future: raw source histories (emissions inside and after "
        "subscribe, calls after the terminal, falsy values) with cancellation of the returned future, both future kinds; await on a real "
        "event loop and run() with a source emitting from another real thread (always with timeouts); to_async/start on a virtual-time "
        "scheduler with subscriptions before and after the action, and on the default thread scheduler; from_callback with 0..3 "
        "callback arguments, with and without (raising) mapper, handler invoked synchronously / later / several times, 1..3 "
        "subscriptions. non-trivial = the history has at least two events of different kinds or several subscribers/emissions")
ASSUMPTIONS = [
    "asyncio / concurrent.futures behave as documented (callbacks of a done future run, cancel() of a done future is a no-op, set_result on a done future raises InvalidStateError)",
    "threads and event loops are runtime glue: the harness waits for quiescence (pumps the loop / joins with timeouts); 'blocks' means no return within the timeout",
    "exceptions are truthy objects (run() tests `if exception:`)",
]

VALS = [None, 0, 0.0, False, "", (), [], {}, 1, "a", 2, (1, 2)]


# --------------------------------------------------------------------------- generators
def gen_notifs(rng, conforming=False):
    out = []
    for _ in range(rng.choice([0, 0, 1, 1, 2, 3, 5])):
        out.append(["N", enc(rng.choice(VALS))])
    r = rng.random()
    if r < 0.45:
        out.append(["C"])
    elif r < 0.7:
        out.append(["E", f"e{rng.randrange(3)}"])
    if not conforming and out and rng.random() < 0.3:   # calls after the terminal / without one
        for _ in range(rng.randrange(1, 3)):
            out.append(rng.choice([["N", enc(rng.choice(VALS))], ["C"], ["E", "late"]]))
    return out


def gen_outcome(rng):
    r = rng.random()
    if r < 0.45:
        return ["result", enc(rng.choice(VALS))]
    if r < 0.75:
        return ["exception", f"e{rng.randrange(3)}"]
    return ["cancel"]


def cases(rng, tier):
    n = fw.tier_scale(tier, 1, 8)
    for _ in range(500 * n):
        init = rng.choice([["pending"]] * 5 + [["result", enc(rng.choice(VALS))], ["exception", "pre"], ["cancelled"]])
        evs = []
        for _ in range(rng.choice([0, 1, 1, 2, 2, 3, 4])):
            evs.append(["dispose"] if rng.random() < 0.35 else ["resolve", gen_outcome(rng)])
        c = {"op": "br_from_future", "fkind": rng.choice(["concurrent", "asyncio"]), "initial": init, "events": evs,
             "via": rng.choice(["from_future", "from_future", "start_async"])}
        if c["via"] == "start_async" and rng.random() < 0.25:
            c["fn_raises"] = "fnboom"
        yield c
    for _ in range(500 * n):
        evs = [["src", x] for x in gen_notifs(rng)]
        if rng.random() < 0.35:
            evs.insert(rng.randrange(0, len(evs) + 1), ["cancel"])
        sync = rng.randrange(0, len(evs) + 1) if rng.random() < 0.5 else 0
        while sync > 0 and any(e[0] == "cancel" for e in evs[:sync]):
            sync -= 1   # the future cannot be cancelled before to_future has returned it
        yield {"op": "br_to_future", "fkind": rng.choice(["concurrent", "asyncio", "default"]), "events": evs, "sync": sync}
    for _ in range(60 * n):
        xs = gen_notifs(rng)
        yield {"op": "br_run", "via": "await", "xs": xs}
    for _ in range(120 * n):
        xs = gen_notifs(rng)
        # model side: a random interleaving of the producer thread and the waiting thread, then the producer to its end
        sched = [rng.random() < 0.5 for _ in range(rng.choice([0, 3, 8, 20]))] + [True] * (2 * len(xs) + 3)
        yield {"op": "br_run", "via": rng.choice(["run", "run", "run_method"]), "xs": xs, "emit": rng.choice(["thread", "thread", "sync", "default_scheduler"]),
               "sched": sched}
    for _ in range(300 * n):
        evs = []
        ran = False
        nsub = 0
        for _ in range(rng.choice([0, 1, 2, 3, 4, 5])):
            if not ran and rng.random() < 0.35:
                evs.append(["run"]); ran = True
            else:
                evs.append(["subscribe", nsub]); nsub += 1
        func = {"raise": f"f{rng.randrange(2)}"} if rng.random() < 0.25 else enc(rng.choice(VALS))
        yield {"op": "br_to_async", "func": func, "events": evs, "via": rng.choice(["to_async", "to_async", "start"]),
               "args": [enc(rng.choice(VALS)) for _ in range(rng.randrange(0, 3))], "sched": "virtual"}
    for _ in range(40 * n):
        func = {"raise": "f0"} if rng.random() < 0.25 else enc(rng.choice(VALS))
        k = rng.randrange(1, 4)
        yield {"op": "br_to_async", "func": func, "events": [["subscribe", 0], ["run"]] + [["subscribe", i] for i in range(1, k)],
               "via": rng.choice(["to_async", "start"]), "args": [], "sched": "thread"}
    for _ in range(500 * n):
        args = [enc(rng.choice(VALS)) for _ in range(rng.randrange(0, 3))]
        subs = []
        for _ in range(rng.choice([1, 1, 2, 3])):
            calls = [[enc(rng.choice(VALS)) for _ in range(rng.choice([0, 1, 1, 2, 3]))] for _ in range(rng.choice([0, 1, 1, 1, 2]))]
            subs.append(calls)
        mapper = None
        if rng.random() < 0.5:
            tab = []
            for calls in subs:
                for cb in calls:
                    if rng.random() < 0.8:
                        tab.append([{"t": cb}, {"raise": "mapboom"} if rng.random() < 0.2 else enc(rng.choice(VALS))])
            mapper = {"tab": tab, "dflt": "mapped"}
        yield {"op": "br_from_callback", "args": args, "mapper": mapper, "subs": subs,
               "sync": [rng.randrange(0, len(c) + 1) for c in subs]}


def model_request(case):
    op = case["op"]
    if op == "br_from_future":
        r = {"op": op, "initial": case["initial"], "events": case["events"]}
        if case.get("fn_raises"):
            r["fn_raises"] = case["fn_raises"]
        return r
    if op == "br_to_future":
        return {"op": op, "events": case["events"]}
    if op == "br_run":
        return {"op": op, "xs": case["xs"], "sched": case["sched"]} if "sched" in case else {"op": op, "xs": case["xs"]}
    if op == "br_to_async":
        return {"op": op, "func": case["func"], "events": case["events"]}
    return {"op": op, "args": case["args"], "mapper": case["mapper"], "subs": case["subs"]}


# --------------------------------------------------------------------------- real code
class Rec:
    def __init__(self):
        self.log = []

    def on_next(self, v):
        self.log.append(["N", enc(v)])

    def on_error(self, e):
        self.log.append(["E", err_name(e)])

    def on_completed(self):
        self.log.append(["C"])

    def sub(self, obs, **kw):
        return obs.subscribe(self.on_next, self.on_error, self.on_completed, **kw)


def _pump(loop):
    if loop is not None:
        for _ in range(3):
            loop.run_until_complete(asyncio.sleep(0))


def _fut_state(fut):
    if fut.cancelled():
        return ["cancelled"]
    if not fut.done():
        return ["pending"]
    e = fut.exception()
    if e is not None:
        return ["exception", err_name(e)]
    return ["result", enc(fut.result())]


def _apply(fut, o):
    """owner-side resolution; returns 1 when the future refused it (InvalidStateError)"""
    try:
        if o[0] == "result":
            fut.set_result(fw.dec(o[1]))
        elif o[0] == "exception":
            fut.set_exception(InjectedError(o[1]))
        else:
            fut.cancel()
    except (asyncio.InvalidStateError, concurrent.futures.InvalidStateError):
        return 1
    return 0


def impl_from_future(case):
    import reactivex as rx

    loop = asyncio.new_event_loop() if case["fkind"] == "asyncio" else None
    try:
        fut = loop.create_future() if loop else concurrent.futures.Future()
        init = case["initial"]
        if init[0] == "result":
            fut.set_result(fw.dec(init[1]))
        elif init[0] == "exception":
            fut.set_exception(InjectedError(init[1]))
        elif init[0] == "cancelled":
            fut.cancel()
        _pump(loop)
        rec = Rec()
        if case.get("fn_raises"):
            def fn():
                raise InjectedError(case["fn_raises"])
            rec.sub(rx.start_async(fn))
            return {"out": rec.log}
        obs = rx.start_async(lambda: fut) if case["via"] == "start_async" else rx.from_future(fut)
        sub = rec.sub(obs)
        _pump(loop)
        invalid = 0
        for ev in case["events"]:
            if ev[0] == "dispose":
                sub.dispose()
            else:
                invalid += _apply(fut, ev[1])
            _pump(loop)
        return {"out": rec.log, "fut": _fut_state(fut), "invalid": invalid}
    finally:
        if loop:
            if fut.done() and not fut.cancelled():
                fut.exception()      # mark as retrieved (no "never retrieved" noise at loop.close())
            loop.close()


def _raw_source(events_holder):
    """An observable whose subscribe hands the (auto-detaching) observer to the harness."""
    from reactivex import Observable
    from reactivex.disposable import Disposable

    def subscribe(observer, scheduler=None):
        events_holder["observer"] = observer
        for n in events_holder.get("sync", []):
            _emit(observer, n)
        return Disposable(lambda: events_holder.__setitem__("disposed", True))

    return Observable(subscribe)


def _emit(observer, n):
    if n[0] == "N":
        observer.on_next(fw.dec(n[1]))
    elif n[0] == "E":
        observer.on_error(InjectedError(n[1]))
    else:
        observer.on_completed()


def impl_to_future(case):
    from reactivex import operators as ops

    loop = asyncio.new_event_loop() if case["fkind"] in ("asyncio", "default") else None
    try:
        evs = case["events"]
        k = case["sync"]
        holder = {"sync": [e[1] for e in evs[:k]]}
        src = _raw_source(holder)
        if case["fkind"] == "concurrent":
            fut = src.pipe(ops.to_future(concurrent.futures.Future))
        elif case["fkind"] == "asyncio":
            fut = src.pipe(ops.to_future(loop.create_future))
        else:   # default constructor: the running loop's create_future
            async def mk():
                return src.pipe(ops.to_future())
            fut = loop.run_until_complete(mk())
        _pump(loop)
        for ev in evs[k:]:
            if ev[0] == "cancel":
                fut.cancel()
            else:
                _emit(holder["observer"], ev[1])
            _pump(loop)
        return {"fut": _fut_state(fut), "src_disposed": bool(holder.get("disposed"))}
    finally:
        if loop:
            loop.close()


def _notif_source(xs, emit):
    """cold source replaying raw notifications: synchronously, from a new thread, or on the subscribe-time scheduler"""
    from reactivex import Observable
    from reactivex.disposable import Disposable

    def subscribe(observer, scheduler=None):
        def go(*_):
            for n in xs:
                _emit(observer, n)
        if emit == "thread":
            threading.Thread(target=go, daemon=True).start()
        elif emit == "default_scheduler" and scheduler is not None:
            scheduler.schedule(go)
        else:
            go()
        return Disposable()

    return Observable(subscribe)


BLOCK_WAIT = 0.35


def impl_run(case):
    import reactivex as rx

    xs = case["xs"]
    if case["via"] == "await":
        src = _notif_source(xs, "sync")

        async def main():
            return await asyncio.wait_for(_aw(src), BLOCK_WAIT)

        async def _aw(o):
            return await o

        try:
            return ["returns", enc(asyncio.run(main()))]
        except asyncio.TimeoutError:
            return ["blocks"]
        except InjectedError as e:
            return ["raises", e.name]
        except Exception as e:  # noqa
            return ["raises", type(e).__name__]
    src = _notif_source(xs, case["emit"])
    box = []

    def target():
        try:
            from reactivex.run import run as rx_run
            box.append(["returns", enc(src.run() if case["via"] == "run_method" else rx_run(src))])
        except InjectedError as e:
            box.append(["raises", e.name])
        except Exception as e:  # noqa
            box.append(["raises", type(e).__name__])

    t = threading.Thread(target=target, daemon=True)
    t.start()
    t.join(BLOCK_WAIT if not any(n[0] in ("C", "E") for n in xs) else 5.0)
    if t.is_alive():
        return ["blocks"]
    return box[0]


def impl_to_async(case):
    import reactivex as rx
    from reactivex.scheduler import VirtualTimeScheduler
    from reactivex.testing import TestScheduler

    calls = []
    ran = threading.Event()

    def func(*a):
        calls.append([enc(x) for x in a])
        try:
            r = case["func"]
            if isinstance(r, dict) and "raise" in r:
                raise InjectedError(r["raise"])
            return fw.dec(r)
        finally:
            ran.set()

    args = [fw.dec(x) for x in case["args"]]
    recs = {}
    if case["sched"] == "virtual":
        sched = TestScheduler()
        obs = rx.start(func, sched) if case["via"] == "start" else rx.to_async(func, sched)(*args)
        for ev in case["events"]:
            if ev[0] == "run":
                VirtualTimeScheduler.start(sched)
            else:
                recs[ev[1]] = Rec()
                recs[ev[1]].sub(obs)
        want_args = [] if case["via"] == "start" else case["args"]
    else:
        obs = rx.start(func) if case["via"] == "start" else rx.to_async(func)()
        done = threading.Event()
        first = True
        for ev in case["events"]:
            if ev[0] == "run":
                ran.wait(5.0)       # the default scheduler runs the action on a timer thread
                continue
            r = Rec()
            recs[ev[1]] = r
            if first:
                first = False
                obs.subscribe(r.on_next, lambda e, r=r: (r.on_error(e), done.set()), lambda r=r: (r.on_completed(), done.set()))
            else:
                r.sub(obs)
        done.wait(5.0)
        want_args = []
    ok_args = all(c == want_args for c in calls)
    return {"invocations": len(calls), "recv": [[i, recs[i].log] for i in sorted(recs)], "args_ok": ok_args}


def impl_from_callback(case):
    import reactivex as rx

    args = [fw.dec(x) for x in case["args"]]
    mapper = FnTab.from_json(case["mapper"]) if case["mapper"] is not None else None
    handlers = []
    received = []
    later = []
    raised = []

    def invoke(k, h, cb):
        if raised[k]:
            return
        try:
            h(*[fw.dec(x) for x in cb])
        except TypeError:
            raised[k] = True     # as-is: observer.on_next() without an argument

    def func(*a):
        k = len(received)
        passed = []
        for x in a:
            if callable(x):
                if not any(x is h for h in handlers):
                    handlers.append(x)
                passed.append(["h", [i for i, h in enumerate(handlers) if h is x][0]])
            else:
                passed.append(["v", enc(x)])
        received.append(passed)
        raised.append(False)
        h = a[-1]
        calls = case["subs"][k]
        ns = case["sync"][k]
        for cb in calls[:ns]:
            invoke(k, h, cb)
        later.append((k, h, calls[ns:]))

    obs = rx.from_callback(func, mapper)(*args)
    recs = []
    for _ in case["subs"]:
        r = Rec()
        recs.append(r)
        r.sub(obs)
    for k, h, calls in later:
        for cb in calls:
            invoke(k, h, cb)
    return {"subs": [{"out": recs[k].log, "raised": raised[k] if k < len(raised) else False,
                      "passed": received[k] if k < len(received) else None} for k in range(len(case["subs"]))]}


def impl(case):
    op = case["op"]
    if op == "br_from_future":
        return impl_from_future(case)
    if op == "br_to_future":
        return impl_to_future(case)
    if op == "br_run":
        return impl_run(case)
    if op == "br_to_async":
        return impl_to_async(case)
    if op == "br_from_callback":
        return impl_from_callback(case)
    raise ValueError(op)


def canon_impl(case, out):
    if case["op"] == "br_to_async":
        return {"invocations": out["invocations"], "recv": out["recv"]}
    return out


# --------------------------------------------------------------------------- oracle (property text, plain Python)
def _last_or_error(xs):
    last, has = None, False
    for n in xs:
        if n[0] == "N":
            last, has = n[1], True
        elif n[0] == "E":
            return ["exception", n[1]]
        else:
            return ["result", last] if has else ["exception", "SequenceContainsNoElementsError"]
    return ["pending"]


def oracle(case, out):
    op = case["op"]
    if op == "br_from_future":
        if case.get("fn_raises"):
            return None if out["out"] == [["E", case["fn_raises"]]] else f"start_async of a raising function gave {out['out']}"
        first = None
        if case["initial"][0] != "pending":
            first = {"result": ["result", case["initial"][1]] if len(case["initial"]) > 1 else None,
                     "exception": ["exception", case["initial"][1]] if len(case["initial"]) > 1 else None,
                     "cancelled": ["cancel"]}[case["initial"][0]]
        elif case["events"]:
            first = ["dispose"] if case["events"][0][0] == "dispose" else case["events"][0][1]
        if first is None:
            exp = []
        elif first[0] == "dispose":
            exp = []
            if out["fut"] != ["cancelled"]:
                return f"unsubscribing first must cancel the future; it is {out['fut']}"
        elif first[0] == "result":
            exp = [["N", first[1]], ["C"]]
        elif first[0] == "exception":
            exp = [["E", first[1]]]
        else:
            exp = [["E", "CancelledError"]]
        if fw.key(out["out"]) != fw.key(exp):
            return f"from_future delivered {out['out']}, the future's outcome prescribes {exp}"
        return None
    if op == "br_to_future":
        evs = case["events"]
        cut = next((i for i, e in enumerate(evs) if e[0] == "cancel"), None)
        xs = [e[1] for e in (evs if cut is None else evs[:cut]) if e[0] == "src"]
        exp = _last_or_error(xs)
        if cut is not None and exp == ["pending"]:
            exp = ["cancelled"]
        if fw.key(exp) != fw.key(out["fut"]):
            return f"future is {out['fut']}, prescribed {exp}"
        if out["src_disposed"] != (exp != ["pending"]):
            return f"source subscription disposed={out['src_disposed']} although the future is {exp}"
        return None
    if op == "br_run":
        e = _last_or_error(case["xs"])
        exp = {"pending": ["blocks"], "result": ["returns"] + e[1:], "exception": ["raises"] + e[1:]}[e[0]]
        return None if fw.key(exp) == fw.key(out) else f"{case['via']} gave {out}, prescribed {exp}"
    if op == "br_to_async":
        ran = any(e[0] == "run" for e in case["events"])
        f = case["func"]
        exp = [] if not ran else ([["E", f["raise"]]] if isinstance(f, dict) and "raise" in f else [["N", f], ["C"]])
        for i, got in out["recv"]:
            if fw.key(got) != fw.key(exp):
                return f"subscriber {i} received {got}, prescribed {exp}"
        if out["invocations"] != (1 if ran else 0):
            return f"function invoked {out['invocations']} times"
        if not out["args_ok"]:
            return "function invoked with other arguments than given"
        return None
    # from_callback
    mapper = FnTab.from_json(case["mapper"]) if case["mapper"] is not None else None
    for k, (calls, got) in enumerate(zip(case["subs"], out["subs"])):
        want_passed = [["v", a] for a in case["args"]] + [["h", k]]
        if got["passed"] != want_passed:
            return f"subscription {k}: the function received {got['passed']}, expected its arguments and one handler {want_passed}"
        if not calls:
            exp_ok = got["out"] == []
        else:
            cb = calls[0]
            if mapper is not None:
                try:
                    exp = [["N", enc(mapper(tuple(fw.dec(x) for x in cb)))], ["C"]]
                except InjectedError as e:
                    exp = [["E", e.name]]
                exp_ok = fw.key(got["out"]) == fw.key(exp)
            elif len(cb) == 1:
                exp_ok = fw.key(got["out"]) == fw.key([["N", cb[0]], ["C"]])
            elif len(cb) == 0:
                # "the callback arguments" of an argument-less call: exactly one value standing for "no arguments", then completion
                o = got["out"]
                exp_ok = len(o) == 2 and o[1] == ["C"] and o[0][0] == "N" and o[0][1] in (None, [], {"t": []})
            else:
                o = got["out"]
                exp_ok = len(o) == 2 and o[1] == ["C"] and o[0][0] == "N" and (fw.key(o[0][1]) in (fw.key(cb), fw.key({"t": cb})))
        if not exp_ok or got["raised"]:
            return f"subscription {k}: handler calls {calls} delivered {got['out']} (raised={got['raised']}): not exactly one value then completion"
    return None


def nontrivial(case, out):
    op = case["op"]
    if op == "br_from_future":
        return len(case["events"]) >= 2 or (case["initial"][0] != "pending" and len(case["events"]) >= 1)
    if op == "br_to_future":
        return len({e[0] if e[0] == "cancel" else e[1][0] for e in case["events"]}) >= 2
    if op == "br_run":
        return len(case["xs"]) >= 2
    if op == "br_to_async":
        return len(case["events"]) >= 2
    return len(case["subs"]) >= 2 or any(len(c) >= 2 for c in case["subs"]) or case["mapper"] is not None


def bucket(case, out):
    op = case["op"]
    yield op
    if op == "br_from_future":
        yield "ff:" + case["fkind"]
        yield "ff:init:" + case["initial"][0]
        if case["events"]:
            yield "ff:first:" + (case["events"][0][0] if case["events"][0][0] == "dispose" else case["events"][0][1][0])
        if case.get("fn_raises"):
            yield "ff:start_async-raises"
        elif out["invalid"]:
            yield "ff:invalid-state"
    elif op == "br_to_future":
        yield "tf:" + case["fkind"]
        yield "tf:" + out["fut"][0]
        if any(e[0] == "cancel" for e in case["events"]):
            yield "tf:has-cancel"
        if case["sync"]:
            yield "tf:sync-emission"
    elif op == "br_run":
        yield "run:" + case["via"] + ":" + out[0]
    elif op == "br_to_async":
        yield "ta:" + case["sched"] + ":" + case["via"]
        yield "ta:func-raises" if isinstance(case["func"], dict) and "raise" in case["func"] else "ta:func-returns"
    else:
        yield "fc:mapper" if case["mapper"] is not None else "fc:no-mapper"
        yield f"fc:subs={len(case['subs'])}"
        for calls in case["subs"]:
            for cb in calls[:1]:
                yield f"fc:cbargs={len(cb)}"


def shrink(case):
    for fld in ("events", "xs", "subs"):
        if fld in case:
            for i in range(len(case[fld])):
                c = dict(case)
                c[fld] = case[fld][:i] + case[fld][i + 1:]
                if fld == "subs":
                    c["sync"] = case["sync"][:i] + case["sync"][i + 1:]
                if fld == "events" and "sync" in case:
                    c["sync"] = min(case["sync"], len(c[fld]))
                    if any(e[0] == "cancel" for e in c[fld][:c["sync"]]):
                        continue
                yield c
    if case.get("op") == "br_from_callback":
        if case["args"]:
            c = dict(case); c["args"] = case["args"][1:]; yield c
        for k, calls in enumerate(case["subs"]):
            for i in range(len(calls)):
                c = dict(case); c["subs"] = [list(x) for x in case["subs"]]; del c["subs"][k][i]
                c["sync"] = list(case["sync"]); c["sync"][k] = min(c["sync"][k], len(c["subs"][k])); yield c


LEVEL_TEXT = ("Lean theorems over ALL event histories of the bridge models: from_future maps the future's outcome (result / exception / "
              "cancellation, also when already done at subscription) and unsubscribing first cancels it and delivers nothing; to_future / "
              "await / run() yield the last element before the first terminal, the error, or SequenceContainsNoElementsError for an empty "
              "sequence, whatever the source does afterwards; to_async/start invoke the function once and give every subscriber (early "
              "or late, any number) its single result then completion, or its exception; from_callback (repaired) emits exactly one value "
              "then completes and passes exactly the given arguments plus its own handler. Tied to the code by differential runs with real "
              "asyncio / concurrent.futures futures, a real event loop, and real threads for run().")
LEVEL_NOTE = ("Event loops and thread start-up are runtime glue covered by the harness with timeouts ('blocks' = no return within 0.35 s); run()'s "
              "latch between the producer thread and the waiting thread IS modelled at atomic-step granularity (RunLatch) and proved for every "
              "interleaving (the step granularity — single cell reads/writes under the GIL, level-triggered Event — is an assumption, validated only "
              "by the end-to-end outcome comparison with real threads under random model schedules). from_callback is modelled as repaired by "
              "fixes/C41_from_callback_complete_and_fresh_handler.patch; the three as-is counter-example theorems (mapper: no completion; second "
              "subscription receives two handlers; no callback arguments: TypeError) are on the as-is model and were validated against the pinned tree.")

"""C16 — rate-limiting operators follow their timing rules (DESIGN.md §5 C16).

debounce (= throttle_with_timeout), throttle_first, sample(period | observable), throttle_with_mapper on TestScheduler over hot
and cold test observables; full timed output vs the Lean two-stream runs / trace machine (`RxModel/TimedRate.lean`,
`RxModel/TimedMap.lean`) and vs oracles written from the property text."""
import fw
import timedlib as T
from timedlib import SUB, STOP

LEAN_TARGETS = ["RxProofs.C16"]
DRIVER = "drv_timed"
DRIVER_ROOT = "Timed"
PROCS = 1  # one case costs ~2 ms: forking a pool is slower than running them in-process
THEOREMS = [
    "C16.throttle_first_rule",
    "C16.throttle_first_handler",
    "C16.debounce_emits_iff_quiet",
    "C16.debounce_timer_current",
    "C16.sample_latest_unsampled",
    "C16.sample_once",
    "C16.twm_pending_on_fire",
    "C16.twm_fire_rule",
    "C16.debounce_sim_bridge",
    "C16.throttle_first_sim_bridge",
    "C16.sample_tie_rule_derived",
    "C16.throttle_first_feedback_rule",
    "C16.throttle_first_feedback_inert",
    "C16.sample_feedback_combined_partial",
    "C16.debounce_feedback_rule",
]
RULE = ("25% of the debounce / throttle_first / sample(period) cases give the operator the scheduler of the timeline as its own scheduler= argument and subscribe with a DIFFERENT, never started scheduler (the operator-level one must win); 30% of the sample(observable) cases pass the sampler as a bare abc.ObservableBase implementation; 30% of the cases are RUN in fractional seconds (1/10 or 1/100 s per unit; float clock of TestScheduler or — throttle_first / debounce — the datetime clock of HistoricalScheduler, optionally at a wall-clock sized epoch; float or timedelta windows) while generated, modelled and judged in exact integer units: gaps exactly equal to the window / due time stay exact; throttle_with_mapper durations include reactivex.timer(d) WITHOUT a scheduler (must run on the subscribe-time scheduler; real-time leaks are counted); 30% of the hot throttle_first / sample cases have a consumer that pushes an echo element into the source from inside on_next (re-entrant feedback); 20% of the non-mapper cases subscribe the SAME observable instance a second time (overlapping or later) and compare with a fresh single subscription; timelines of 0..7 elements + terminal (completed/error/none; 12% non-conforming or with pre-subscription messages): bursts, gaps of exactly "
        "d-1/d/d+1 ticks, elements at / around sampler ticks, terminal with a pending element, simultaneous arrivals; hot and cold sources; "
        "non-trivial = output differs from the source as seen (something was dropped, delayed or flushed)")
ASSUMPTIONS = ["virtual time in integer ticks on TestScheduler; the operator's timers are armed inside on_next / after the source subscription, so a "
               "source message wins a tie against them (inlined (due, seq) rule of VirtualTimeScheduler)",
               "subscription at 200, disposal at 1000; sample(period) is cut by the disposal (ticks < 1000), everything else ends before"]

# Operators whose re-entrant feedback cases have to wait for a fix in /repo (none: debounce and throttle_with_mapper were fixed by
# 576f241 / eb791ab — the pending flag is now cleared before the downstream on_next; the models simRunFb / twmSimFb are of that code).
REENTRANT_PENDING_FIX = set()

OPS = ["throttle_first", "debounce", "debounce_alias", "sample", "sample_obs", "throttle_with_mapper"]


def cases(rng, tier):
    n = fw.tier_scale(tier, 500, 5000)
    for op in OPS:
        for _ in range(n):
            src = rng.choice(["hot", "hot", "cold"])
            c = {"op": op, "src": src, "sub": SUB}
            if op == "throttle_first":
                d = rng.choice([0, 1, 1, 5, 5, 20, 20])
                c["d"] = d
                msgs = T.gen_msgs(rng, d, [])
            elif op in ("debounce", "debounce_alias"):
                d = rng.choice([0, 1, 5, 5, 20, 20])
                c["d"] = d
                msgs = T.gen_msgs(rng, d, [])
            elif op == "sample":
                p = rng.choice([5, 20, 20, 50])
                c["period"] = p
                c["stop"] = STOP
                msgs = T.gen_msgs(rng, p, [SUB + p, SUB + 2 * p, SUB + 3 * p])
            elif op == "throttle_with_mapper":
                d = rng.choice([1, 5, 20])
                c["inners"] = T.gen_inners(rng, d)
                c["raise_at"] = rng.choice([None, None, None, None, 0, 1, 2])
                msgs = T.gen_msgs(rng, d, [])
            else:
                ssrc = rng.choice(["hot", "cold"])
                k = rng.randrange(0, 5)
                ticks = sorted(rng.choice([SUB + 1, SUB + 5, SUB + 10, SUB + 20, SUB + 30, SUB + 40, SUB + 60]) for _ in range(k))
                sm = [[t, ["N", i]] for i, t in enumerate(ticks)]
                r = rng.random()
                last = ticks[-1] if ticks else SUB + 5
                if r < 0.35:
                    sm.append([last + rng.choice([0, 5, 30]), ["C"]])
                elif r < 0.5:
                    sm.append([last + rng.choice([0, 5, 30]), ["E", "samplerErr"]])
                msgs = T.gen_msgs(rng, 5, ticks[:3])
                c["sampler"] = {"src": ssrc, "msgs": T.to_cold(sm) if ssrc == "cold" else sm}
            if op not in ('throttle_with_mapper',):
                t2 = T.gen_sub2(rng, msgs, p=0.2)
                if t2 is not None:
                    c["sub2"] = t2          # the same observable instance subscribed again: state must be per subscription
            if (op in ("throttle_first", "sample", "debounce", "debounce_alias", "throttle_with_mapper") and op not in REENTRANT_PENDING_FIX
                    and src == "hot" and "sub2" not in c and c.get("d", 1) > 0 and rng.random() < 0.3):
                # re-entrant feedback: the consumer pushes ("echo", k) into the hot source from inside on_next for its k-th element
                c["echo"] = sorted({rng.randrange(0, 4) for _ in range(rng.choice([1, 1, 2, 3]))})
            c["msgs"] = T.to_cold(msgs) if src == "cold" else msgs
            if op in ("throttle_first", "debounce", "debounce_alias") and "echo" not in c and c.get("d", 1) > 0 and rng.random() < 0.2:
                c["sched"] = "hist"
            if op in ("throttle_first", "debounce", "debounce_alias", "sample"):
                T.gen_opsched(rng, c)          # operator-level scheduler (of the timeline) + a different subscribe-level scheduler
            if op == "sample_obs" and rng.random() < 0.3:
                c["bare"] = True               # the sampler as a bare abc.ObservableBase implementation
            T.gen_scale(rng, c, qs=(10,) if op == "sample" else (10, 100), wall_ok=c.get("sched") == "hist")
            if op == "sample" and "scale" in c:
                c["stop"] = SUB + (STOP - SUB) * c["scale"]          # the disposal instant in units
            yield c


def model_request(case):
    c = dict(case)
    if c["op"] == "debounce_alias":
        c["op"] = "debounce"
    if c["op"] == "sample_obs":
        c["op"] = "sample"
    return c


# ------------------------------------------------------------------------------------------- real code
def impl(case):
    from reactivex import operators as ops

    op = case["op"]
    if case.get("sched") == "hist":        # datetime clock (optionally wall-clock sized), timedelta window / due time
        mk = {"throttle_first": ops.throttle_first, "debounce": ops.debounce, "debounce_alias": ops.throttle_with_timeout}[op]
        return T.run_hist(case, lambda s, xs: xs.pipe(mk(T.real_dur(case, case["d"], True), **T.sk(case, s))))
    rc = T.realize(case)
    if op == "throttle_first":
        return T.run_test(rc, lambda s, xs: xs.pipe(ops.throttle_first(rc["d"], **T.sk(rc, s))))
    if op == "debounce":
        return T.run_test(rc, lambda s, xs: xs.pipe(ops.debounce(rc["d"], **T.sk(rc, s))))
    if op == "debounce_alias":
        return T.run_test(rc, lambda s, xs: xs.pipe(ops.throttle_with_timeout(rc["d"], **T.sk(rc, s))))
    if op == "sample":
        return T.run_test(rc, lambda s, xs: xs.pipe(ops.sample(rc["period"], **T.sk(rc, s))))
    if op == "sample_obs":
        return T.run_test(rc, lambda s, xs, sampler: xs.pipe(ops.sample(sampler)), sources=("msgs", "sampler"))
    if op == "throttle_with_mapper":
        return T.run_test(rc, lambda s, xs: xs.pipe(ops.throttle_with_mapper(T.make_mapper(s, rc))))
    raise ValueError(op)


def canon_impl(case, io):
    return T.out_of(io)


def canon_model(case, resp):
    return T.model_out(case, resp)


# ------------------------------------------------------------------------------------------- oracle (property text)
def expected(case):
    op = case["op"]
    src = T.seen(case)
    if op == "throttle_first":
        w = case["d"]
        if w <= 0:
            return [[SUB, ["E", "ValueError"]]]
        out, last, k = [], None, 0
        echo = set(case.get("echo") or [])
        for t, n in src:
            if n[0] != "N":
                out.append([t, n])
                continue
            arrivals = [n]                                   # the combined arrival sequence at this instant
            while arrivals:
                m = arrivals.pop(0)
                if last is None or t - last >= w:          # at least the window duration since the last EMITTED one
                    out.append([t, m])
                    last = t
                    if k in echo and not (isinstance(m[1], dict) and (m[1].get("t") or [None])[0] == "echo"):
                        arrivals.append(["N", {"t": ["echo", k]}])      # pushed by the consumer while it handles m
                    k += 1
        return out
    if op in ("debounce", "debounce_alias") and case.get("echo"):
        # the rule over the COMBINED arrival sequence: an element the consumer pushes while it receives the k-th delivery
        # arrives at that instant, right after the delivery, and is itself emitted after its own quiet period
        d = case["d"]
        echo = set(case["echo"])
        out, pending, k, i = [], None, 0, 0
        while True:
            nxt = src[i][0] if i < len(src) else None
            if pending is not None and (nxt is None or pending[0] < nxt):
                due, n = pending
                out.append([due, n])
                pending = None
                if k in echo and not is_echo(n):
                    pending = (due + d, ["N", {"t": ["echo", k]}])
                k += 1
                continue
            if nxt is None:
                return out
            t, n = src[i]
            i += 1
            if n[0] == "N":
                pending = (t + d, n)
            elif n[0] == "C":
                return out + ([[t, pending[1]]] if pending else []) + [[t, n]]
            else:
                return out + [[t, n]]
    if op in ("debounce", "debounce_alias"):
        d = case["d"]
        out = []
        for i, (t, n) in enumerate(src):
            if n[0] != "N":
                out.append([t, n])
                continue
            nxt = src[i + 1] if i + 1 < len(src) else None
            if nxt is None or nxt[0] > t + d:            # nothing newer within the due time: emitted when it elapses
                out.append([t + d, n])
            elif nxt[1][0] == "C":                       # pending at completion: flushed
                out.append([nxt[0], n])
            # newer element or error within the due time: dropped
        return out
    if op in ("sample", "sample_obs"):
        if op == "sample":
            ticks = [[k, "tick"] for k in range(SUB + case["period"], case["stop"], case["period"])]
        else:
            ticks = [[t, "tick" if n[0] != "E" else n] for t, n in T.seen(case["sampler"], src=case["sampler"]["src"])]
        # at an equal instant the source goes first, except a cold source (scheduled at subscription) against a hot sampler
        sampler_first = op == "sample_obs" and case["src"] == "cold" and case["sampler"]["src"] == "hot"
        echo = set(case.get("echo") or [])
        delivered = 0
        carry = None
        out = []
        i = 0
        done = False
        for k, ev in ticks:
            latest, carry = carry, None
            while i < len(src) and (src[i][0] < k or (src[i][0] == k and not sampler_first)):
                t, n = src[i]
                i += 1
                if n[0] == "N":
                    latest = n
                elif n[0] == "E":
                    return out + [[t, n]]
                else:
                    done = True
            if ev != "tick":
                return out + [[k, ev]]
            if latest is not None:
                out.append([k, latest])                  # the latest not-yet-sampled element
                if delivered in echo and not done and not (isinstance(latest[1], dict) and (latest[1].get("t") or [None])[0] == "echo"):
                    carry = ["N", {"t": ["echo", delivered]}]      # pushed by the consumer at this tick: arrives after it
                delivered += 1
            if done:
                return out + [[k, ["C"]]]
        for t, n in src[i:]:
            if n[0] == "E":
                return out + [[t, n]]
        return out
    if op == "throttle_with_mapper" and case.get("echo"):
        # the same rule over the combined arrival sequence; the throttle observable of an element is subscribed when the element
        # arrives (mapper calls are counted over originals and echoes alike)
        echo = set(case["echo"])
        q = [[t, ("src", n)] for t, n in src]
        out, pending, c, k = [], None, 0, 0
        while q:
            t, e = q.pop(0)
            if e[0] == "src":
                n = e[1]
                if n[0] == "N":
                    if case.get("raise_at") == c:
                        return out + [[t, ["E", "mapErr"]]]
                    pending = (c, n)
                    tl = T.inner_of(case["inners"], c)
                    if T.is_inline(tl):
                        q[0:0] = [[t, ("inner", c, m)] for m in T.INLINE[tl["inline"]]]
                    else:
                        for r, m in T.inner_timeline(tl):
                            j = 0
                            while j < len(q) and q[j][0] <= t + r:
                                j += 1
                            q.insert(j, [t + r, ("inner", c, m)])
                    c += 1
                elif n[0] == "C":
                    return out + ([[t, pending[1]]] if pending else []) + [[t, n]]
                else:
                    return out + [[t, n]]
            elif pending is not None and e[1] == pending[0]:
                if e[2][0] == "E":
                    return out + [[t, e[2]]]
                n = pending[1]
                out.append([t, n])
                pending = None
                if k in echo and not is_echo(n):
                    q.insert(0, [t, ("src", ["N", {"t": ["echo", k]}])])
                k += 1
        return out
    if op == "throttle_with_mapper":
        # the pending element is emitted when ITS throttle observable first signals (emits or completes)
        ev = T.merged_events([T.src_stream(src, case["inners"])] + T.elem_streams(src, case["inners"]))
        out, pending, k = [], None, 0
        for t, e in ev:
            if e[0] == "src":
                n = e[1]
                if n[0] == "N":
                    if case.get("raise_at") == k:
                        return out + [[t, ["E", "mapErr"]]]
                    pending = (k, n)
                    k += 1
                elif n[0] == "C":
                    return out + ([[t, pending[1]]] if pending else []) + [[t, n]]
                else:
                    return out + [[t, n]]
            elif pending is not None and e[1] == pending[0]:
                if e[2][0] == "E":
                    return out + [[t, e[2]]]
                out.append([t, pending[1]])
                pending = None
        return out
    raise ValueError(op)


def is_echo(n):
    return isinstance(n[1], dict) and (n[1].get("t") or [None])[0] == "echo"


def oracle(case, io):
    if "raised" in io:
        return f"operator raised {io['raised']}"
    if T.leak_oracle(case, io):
        return T.leak_oracle(case, io)
    exp = expected(case)
    if fw.key(exp) != fw.key(io["out"]):
        return f"{case['op']}: expected {exp} got {io['out']}"
    return T.second_sub_oracle(case, io)


def nontrivial(case, io):
    return "out" in io and fw.key(io["out"]) != fw.key(T.seen(case))


def bucket(case, io):
    yield from T.shape(case, io)
    yield f"{case['op']}:second-subscription={'sub2' in case}"
    yield f"{case['op']}:opsched={bool(case.get('opsched'))}:bare={bool(case.get('bare'))}"
    yield f"{case['op']}:scale={case.get('scale', 1)}:td={bool(case.get('td'))}:sched={case.get('sched', 'test')}:wall={bool(case.get('wall'))}"
    if "echo" in case:
        yield f"{case['op']}:reentrant-feedback"
    s = T.seen(case)
    if case["op"] in ("debounce", "debounce_alias", "throttle_first") and "d" in case:
        gaps = {b[0] - a[0] for a, b in zip(s, s[1:])}
        yield f"{case['op']}:gap==d:{case['d'] in gaps}"
        yield f"{case['op']}:gap==0:{0 in gaps}"
    if case["op"] == "throttle_with_mapper":
        yield f"twm:raise_at={case['raise_at']}"
        yield f"twm:first-signals={sorted({('inline' if T.is_inline(tl) else 'timer' if isinstance(tl, dict) else T.conform(tl)[0][1][0] if tl else '-') for tl in case['inners']})}"
    if case["op"] == "sample":
        yield f"sample:element-at-tick={any((t - SUB) % case['period'] == 0 for t, n in s)}"


def shrink(case):
    yield from T.shrink_msgs(case)
    if "echo" in case:
        for i in range(len(case["echo"])):
            c = dict(case)
            c["echo"] = case["echo"][:i] + case["echo"][i + 1:]
            if not c["echo"]:
                del c["echo"]
            yield c
    if "sub2" in case:
        c = dict(case)
        del c["sub2"]
        yield c


LEVEL_TEXT = ('Lean theorems, for all timelines (no bound, no sortedness needed), due times and element types: the handler-level models of throttle_first (last_on_next fold), debounce (id / has_value / value + Serial timer with the (due,seq) tie rule inlined) and sample (latest / has_value / at_end against an arbitrary list of sampler events) equal the declarative rules of the property text (window rule; emit iff the next source notification is later than t+d, flush at completion, drop at error; latest not-yet-sampled element at each tick); throttle_with_mapper as a trace machine equals the pending-element rule on every event interleaving. Tied to the code by differential runs on TestScheduler (hot/cold sources, gaps exactly d, bursts, terminal with a pending element, sampler as interval or observable) and by oracles written from the property text.')
LEVEL_NOTE = ('Re-entrant feedback: throttle_first proved over the combined arrival sequence; sample only as scheduler run over the combined queue (sample_feedback_combined_partial: the window form is missing); debounce / throttle_with_mapper feedback (fixed by 576f241 / eb791ab): debounce_feedback_rule proves simRunFb (debOp) = the rule over the combined arrival sequence; for throttle_with_mapper the feedback machine twmSimFb (dynamic queue: throttle observables scheduled when their element is handled, echoes counted as mapper calls) has correspondence + oracle only — missing: a rule-level statement for the dynamic queue (the static trace theorem twm_pending_on_fire does not cover echoes). sample(period): the tick list of interval(period) (sub+k*period below the disposal time) is driver glue; the theorem is for any tick list. throttle_with_mapper / sample(observable): the global event order is built by a stable merge in the driver (validated by the correspondence only). The (due, seq) tie rule is no longer assumed for debounce, throttle_first and sample(observable): *_sim_bridge / sample_tie_rule_derived prove that a scheduler simulation (queue ordered by due time then insertion, hot messages scheduled first, same handler functions) equals the two-stream runs; the driver also runs it on every case. Trusted: correspondence harness, generators, that the messages of a hot source are scheduled before the timers of the operator.')

"""C36 — time values convert consistently between representations (DESIGN.md §5 C36)."""
import ast
from fractions import Fraction

import fw

LEAN_TARGETS = ["RxProofs.C36"]
DRIVER = "drv_pure"
DRIVER_ROOT = "Pure"
PROCS = 1   # impl is cheap; forking a pool costs more than it saves
THEOREMS = [
    "C36.td_dt_roundtrip",
    "C36.dt_td_roundtrip",
    "C36.to_seconds_monotone",
    "C36.to_timedelta_monotone",
    "C36.to_datetime_monotone",
    "C36.float_roundtrip_us",
    "C36.fromTimestamp_eq_usOfFloat",
    "C36.int_legs_exact",
    "C36.rounding_id",
    "C36.rd_is_rounding",
    "C36.float_legs_rd",
]
RULE = ("pairs (a, b) of time values of one representation — floats (microsecond-aligned k/1e6, half-microsecond ties, dyadic, random, "
        "negative, tiny), ints, timedeltas and aware datetimes (UTC and other offsets), around 0, the present, and the 2^51..2^53 us "
        "boundaries — through to_seconds / to_datetime / to_timedelta and through each conversion of each result; results compared "
        "EXACTLY (doubles as their integer ratio, timedeltas/datetimes in integer microseconds) with the Lean model running its own "
        "IEEE rounding. non-trivial = a and b differ and at least one float leg is involved")
ASSUMPTIONS = [
    "values stay within the representable range (years 1..9999, |timedelta| < 10^9 days); outside it Python raises and nothing is claimed",
    "IEEE-754 binary64 with round-to-nearest-even (CPython float); int/int true division and float*1e6 are correctly rounded",
    "a scheduler's `now` is a timezone-aware UTC datetime: checked at run time (an assumption check, not a theorem) on every scheduler class that can be constructed here, on CatchScheduler over the real-time ones and on the values of ops.timestamp, in child processes whose LOCAL zone is the environment's, JST-9, EST5EDT and IST-5:30",
]

US = 1000000
MIN_US = -62135596800 * US + 10 * 86400 * US      # year 1 (+ margin for timezone offsets)
MAX_US = 253402300799 * US - 10 * 86400 * US      # year 9999 (- margin)


def _us_values(rng):
    r = rng.random()
    if r < 0.2:
        return rng.choice([0, 1, -1, 2, 999999, 1000000, 1000001, -999999, -1000000, 500000, 1500000, -500000, 15625, 86400 * US])
    if r < 0.45:
        return 1_700_000_000_000_000 + rng.randrange(-10**12, 10**12)          # around the present
    if r < 0.6:
        k = rng.choice([50, 51, 52, 53])
        return rng.choice([1, -1]) * (2**k + rng.randrange(-3000, 3000))          # the float-precision boundaries
    if r < 0.8:
        return rng.randrange(-10**10, 10**10)
    return rng.randrange(MIN_US, MAX_US)


def _clamp(us):
    return max(MIN_US, min(MAX_US, us))


def gen_value(rng, kind):
    if kind == "td":
        return ["td", _clamp(_us_values(rng))]
    if kind == "dt":
        return ["dt", _clamp(_us_values(rng)), rng.choice([0, 0, 0, 3600, -18000, 19800, 45 * 60])]   # utc offset seconds
    if kind == "i":
        return ["i", rng.choice([0, 1, -1, 5, 86400, 1_700_000_000, -62135000000, rng.randrange(-10**9, 10**10)])]
    # floats
    r = rng.random()
    if r < 0.35:        # microsecond-aligned: the double nearest to us/1e6
        x = _clamp(_us_values(rng)) / US
    elif r < 0.5:       # half-microsecond ties and near-ties
        x = (rng.randrange(-3 * US, 3 * US) + 0.5) / US
    elif r < 0.6:
        x = rng.randrange(-10**6, 10**6) / 64.0      # dyadic: exact
    elif r < 0.7:
        x = rng.choice([0.0, -0.0, 1e-7, 5e-7, 1.5e-6, 2.5e-6, -5e-7, 0.9999995, 0.9999996, 1.0, -1.0, 1e-9, 123456.789, 0.1, 0.2, 0.3])
    elif r < 0.85:
        x = rng.uniform(-1e6, 1e6)
    else:
        x = rng.uniform(-6e10, 2.5e11)
    x = float(x)
    n, d = x.as_integer_ratio()
    return ["f", n, d]


def _near(rng, v):
    """a second value of the same representation close to v (so that order preservation is actually exercised)"""
    if v[0] in ("td", "dt"):
        w = list(v)
        w[1] = _clamp(v[1] + rng.choice([0, 1, -1, 2, 1000, -1000, rng.randrange(-10**7, 10**7)]))
        if v[0] == "dt":
            w[2] = rng.choice([0, v[2], 3600])
        return w
    if v[0] == "i":
        return ["i", v[1] + rng.choice([0, 1, -1, 100])]
    import math
    x = Fraction(v[1], v[2])
    f = float(x)
    r = rng.random()
    if r < 0.3:
        g = math.nextafter(f, math.inf)
    elif r < 0.6:
        g = math.nextafter(f, -math.inf)
    elif r < 0.8:
        g = f + rng.choice([1e-6, -1e-6, 5e-7, 1e-3, 1.0])
    else:
        g = f
    n, d = float(g).as_integer_ratio()
    return ["f", n, d]


def cases(rng, tier):
    for tz in NOW_ZONES:      # "now is a timezone-aware UTC datetime", probed under several LOCAL zones (oracle only)
        yield {"op": "now", "tz": tz}
    n = fw.tier_scale(tier, 3000, 40000)
    for _ in range(n):
        kind = rng.choice(["f", "f", "f", "td", "td", "dt", "dt", "i"])
        a = gen_value(rng, kind)
        b = _near(rng, a) if rng.random() < 0.7 else gen_value(rng, kind)
        yield {"op": "tc", "a": a, "b": b}


def model_request(case):
    if case["op"] == "now":
        return None
    def strip(v):
        return v[:2] if v[0] == "dt" else v
    return {"op": "tc", "a": strip(case["a"]), "b": strip(case["b"])}


# ----- real code ------------------------------------------------------------------------------
def _mk(v):
    from datetime import datetime, timedelta, timezone
    if v[0] == "f":
        return float(Fraction(v[1], v[2]))
    if v[0] == "i":
        return v[1]
    if v[0] == "td":
        return timedelta(microseconds=v[1])
    epoch = datetime(1970, 1, 1, tzinfo=timezone.utc)
    return (epoch + timedelta(microseconds=v[1])).astimezone(timezone(timedelta(seconds=v[2])))


def _enc_secs(x):
    if isinstance(x, bool) or not isinstance(x, (int, float)):
        raise TypeError(f"to_seconds returned {type(x).__name__}")
    if isinstance(x, int):
        return ["i", x]
    n, d = x.as_integer_ratio()
    return ["f", n, d]


def _td_us(td):
    from datetime import timedelta
    if not isinstance(td, timedelta):
        raise TypeError(f"to_timedelta returned {type(td).__name__}")
    return td // timedelta(microseconds=1) if td % timedelta(microseconds=1) == timedelta(0) else None


def _dt_us(dt):
    from datetime import datetime, timedelta, timezone
    if not isinstance(dt, datetime) or dt.tzinfo is None:
        raise TypeError(f"to_datetime returned a naive or non-datetime value {dt!r}")
    d = dt - datetime(1970, 1, 1, tzinfo=timezone.utc)
    return d // timedelta(microseconds=1)


def _conv_all(v):
    from reactivex.scheduler.scheduler import Scheduler as S
    x = _mk(v)
    sec, td, dt = S.to_seconds(x), S.to_timedelta(x), S.to_datetime(x)
    out = {"sec": _enc_secs(sec), "td": _td_us(td), "dt": _dt_us(dt),
           "sec_td": _td_us(S.to_timedelta(sec)), "sec_dt": _dt_us(S.to_datetime(sec)),
           "td_sec": _enc_secs(S.to_seconds(td)), "td_dt": _dt_us(S.to_datetime(td)),
           "dt_sec": _enc_secs(S.to_seconds(dt)), "dt_td": _td_us(S.to_timedelta(dt))}
    # pass-through identity and zone facts (not part of the model comparison)
    flags = {"same": (v[0] == "f" and sec is x) or (v[0] == "i" and sec is x) or (v[0] == "td" and td is x) or (v[0] == "dt" and dt is x),
             "utc": v[0] == "dt" or dt.utcoffset().total_seconds() == 0}
    return out, flags


def impl(case):
    if case["op"] == "now":
        return _now_case(case["tz"])
    a, fa = _conv_all(case["a"])
    b, fb = _conv_all(case["b"])
    return {"a": a, "b": b, "flags": [fa, fb]}


def canon_impl(case, out):
    if case["op"] == "now":
        return {"probes": len(out["probes"])}
    return {"a": out["a"], "b": out["b"]}


# ----- oracle: the property text ----------------------------------------------------------------
def _val(v):
    """exact value in seconds of an input / a seconds result"""
    if v[0] == "f":
        return Fraction(v[1], v[2])
    if v[0] == "i":
        return Fraction(v[1])
    return Fraction(v[1], US)


def _aligned_us(v):
    """the integer microsecond count a value stands for, if it is microsecond-aligned (floats: the nearest double of k/1e6)"""
    if v[0] in ("td", "dt"):
        return v[1]
    if v[0] == "i":
        return v[1] * US
    x = Fraction(v[1], v[2])
    k = round(x * US)
    return k if float(Fraction(k, US)) == float(x) else None


BOUND = 2**52      # beyond it a double cannot hold every microsecond (documented, not claimed)


def oracle(case, out):
    if case["op"] == "now":
        if len(out["probes"]) < 10:
            return f"only {len(out['probes'])} clock readings could be probed"
        for name, d in sorted(out["probes"].items()):
            if not d["aware"]:
                return f"TZ={case['tz']}: {name} is a naive datetime"
            if d["offset"] != 0:
                return f"TZ={case['tz']}: {name} has UTC offset {d['offset']} s (tzname {d['tzname']!r}): aware but not UTC"
            if not (d["is_utc_object"] or d["tzname"] == "UTC"):
                return f"TZ={case['tz']}: {name} has offset 0 but its zone is {d['tzname']!r}, not UTC"
            if d.get("nonneg") is False:
                return f"TZ={case['tz']}: {name} produced a negative interval"
        return None
    a, b = case["a"], case["b"]
    for name, f in (("a", out["flags"][0]), ("b", out["flags"][1])):
        if not f["same"]:
            return f"{name}: a value already in the target representation was not returned unchanged"
        if not f["utc"]:
            return f"{name}: to_datetime of a relative/float value is not UTC"
    # order preservation (weak: equal results allowed where rounding merges neighbours)
    va, vb = _val(a), _val(b)
    if va != vb:
        lo, hi = (out["a"], out["b"]) if va < vb else (out["b"], out["a"])
        if _val(lo["sec"]) > _val(hi["sec"]):
            return f"to_seconds does not preserve order: {a} vs {b} -> {lo['sec']} > {hi['sec']}"
        if lo["td"] > hi["td"]:
            return f"to_timedelta does not preserve order: {a} vs {b}"
        if lo["dt"] > hi["dt"]:
            return f"to_datetime does not preserve order: {a} vs {b}"
    # exact round trips for microsecond-aligned values
    for v, o in ((a, out["a"]), (b, out["b"])):
        us = _aligned_us(v)
        if v[0] in ("td", "dt"):
            if o["td_dt"] != o["td"] or o["dt_td"] != o["dt"] or o["td"] != us or o["dt"] != us:
                return f"{v}: timedelta <-> datetime does not round-trip exactly: {o}"
        if us is not None and abs(us) < BOUND:
            if o["td"] != us or o["dt"] != us:
                return f"{v}: aligned value of {us} us converted to td={o['td']} dt={o['dt']}"
            if o["sec_td"] != us or o["sec_dt"] != us:
                return f"{v}: through seconds and back gives {o['sec_td']}/{o['sec_dt']} instead of {us} us"
            if _aligned_us(o["td_sec"]) != us or _aligned_us(o["dt_sec"]) != us:
                return f"{v}: seconds of the converted value are not the seconds of {us} us"
            if v[0] == "f" and (o["td_sec"] != ["f", v[1], v[2]] or o["dt_sec"] != ["f", v[1], v[2]]):
                return f"{v}: float -> timedelta/datetime -> float does not return the same double"
    return None


def nontrivial(case, out):
    if case["op"] == "now":
        return case["tz"] is not None
    return case["a"] != case["b"] and (case["a"][0] == "f" or True) and _val(case["a"]) != _val(case["b"])


def bucket(case, out):
    if case["op"] == "now":
        yield "now-probe:TZ=" + (case["tz"] or "(environment)")
        yield f"now-probe:readings={len(out['probes'])}"
        return
    k = case["a"][0]
    yield "kind:" + k
    for v in (case["a"], case["b"]):
        us = _aligned_us(v)
        if k == "f":
            yield "float:aligned" if us is not None else "float:not-aligned"
        if us is not None:
            m = abs(us)
            yield "us:<2^50" if m < 2**50 else "us:2^50..2^52" if m < 2**52 else "us:>=2^52"
        if v[0] == "dt" and v[2] != 0:
            yield "dt:non-utc-zone"
    if _val(case["a"]) == _val(case["b"]):
        yield "pair:equal"
    elif out["a"]["td"] == out["b"]["td"]:
        yield "pair:merged-by-rounding"
    else:
        yield "pair:ordered"


def shrink(case):
    if case["op"] == "now":
        return
    c = dict(case); c["b"] = case["a"]; yield c
    c = dict(case); c["a"] = case["b"]; yield c


# ----- "now is aware UTC" on every scheduler class ---------------------------------------------------
NOW_ZONES = [None, "JST-9", "EST5EDT", "IST-5:30"]     # None = the environment's own zone


def now_probe():
    """Every constructible scheduler's `now`, and the timestamps the timestamp operator attaches, described
    without reference to the local zone: (aware?, utcoffset seconds, tzname, tzinfo is timezone.utc)."""
    import asyncio
    import importlib
    import pkgutil
    from datetime import timezone

    import reactivex
    import reactivex.scheduler as pkg
    from reactivex import operators as ops
    from reactivex.scheduler.scheduler import Scheduler
    from reactivex.testing import TestScheduler

    def describe(dt):
        off = dt.utcoffset()
        return {"aware": dt.tzinfo is not None, "offset": None if off is None else off.total_seconds(),
                "tzname": dt.tzname(), "is_utc_object": dt.tzinfo is timezone.utc}

    out, skipped = {}, []
    classes = {}
    for m in pkgutil.walk_packages(pkg.__path__, pkg.__name__ + "."):
        try:
            mod = importlib.import_module(m.name)
        except Exception as e:  # noqa  optional main-loop toolkits
            skipped.append(f"{m.name}: {type(e).__name__}")
            continue
        for name, obj in vars(mod).items():
            if isinstance(obj, type) and issubclass(obj, Scheduler) and obj.__module__ == mod.__name__:
                classes[f"{mod.__name__}.{name}"] = obj
    classes["reactivex.testing.testscheduler.TestScheduler"] = TestScheduler
    loop = asyncio.new_event_loop()
    instances = {}
    try:
        for qn, cls in sorted(classes.items()):
            inst = None
            for mk in (lambda: cls(), lambda: cls(loop), lambda: cls(loop=loop),
                       lambda: cls(reactivex.scheduler.ImmediateScheduler(), lambda e: True)):
                try:
                    inst = mk()
                    break
                except Exception:  # noqa
                    continue
            if inst is None:
                skipped.append(f"{qn}: not constructible here")
                continue
            try:
                out["now:" + qn] = describe(inst.now)
                instances[qn] = inst
            except Exception as e:  # noqa
                skipped.append(f"{qn}: now raised {type(e).__name__}")
        # CatchScheduler over the real-time schedulers
        for qn in list(instances):
            if any(k in qn for k in ("ImmediateScheduler", "CurrentThreadScheduler.", "TimeoutScheduler", "NewThreadScheduler",
                                     "EventLoopScheduler", "TrampolineScheduler")):
                try:
                    out["now:Catch(" + qn.rsplit(".", 1)[1] + ")"] = describe(
                        reactivex.scheduler.CatchScheduler(instances[qn], lambda e: True).now)
                except Exception as e:  # noqa
                    skipped.append(f"Catch({qn}): {type(e).__name__}")
        # values produced by operators that read the clock
        for name, sched in (("immediate", reactivex.scheduler.ImmediateScheduler()), ("current_thread", reactivex.scheduler.CurrentThreadScheduler()),
                            ("default", None)):
            got = []
            src = reactivex.of(1, 2)
            o = src.pipe(ops.timestamp(sched) if sched is not None else ops.timestamp())
            o.subscribe(got.append, scheduler=sched) if sched is not None else o.subscribe(got.append)
            for k, ts in enumerate(got):
                out[f"timestamp:{name}:{k}"] = describe(ts.timestamp)
            got2 = []
            o2 = src.pipe(ops.time_interval(sched) if sched is not None else ops.time_interval())
            o2.subscribe(got2.append, scheduler=sched) if sched is not None else o2.subscribe(got2.append)
            out[f"time_interval:{name}"] = {"aware": True, "offset": 0.0, "tzname": "UTC", "is_utc_object": True,
                                            "nonneg": all(ti.interval.total_seconds() >= 0 for ti in got2)}
        for inst in instances.values():
            if hasattr(inst, "dispose"):
                try:
                    inst.dispose()
                except Exception:  # noqa
                    pass
    finally:
        loop.close()
    return {"probes": out, "skipped": skipped}


def _now_case(tz):
    """run the probe in a child process whose local zone is `tz` (TZ set and tzset() called before reactivex is imported)"""
    import json
    import os
    import subprocess
    import sys

    env = dict(os.environ)
    if tz is not None:
        env["TZ"] = tz
    env["PYTHONPATH"] = os.pathsep.join([str(fw.VERIF / "harness"), str(fw.REPO)])
    env["VERIF_REPO"] = str(fw.REPO)
    code = ("import time; time.tzset(); import json, sys; import props.C36 as m; "
            "r = m.now_probe(); r['local_offset'] = -time.timezone; print('NOWPROBE' + json.dumps(r))")
    p = subprocess.run([sys.executable, "-c", code], env=env, capture_output=True, text=True, timeout=120)
    for line in p.stdout.splitlines():
        if line.startswith("NOWPROBE"):
            return json.loads(line[len("NOWPROBE"):])
    raise RuntimeError(f"now probe failed under TZ={tz}: rc={p.returncode} {p.stderr[-800:]}")


def extra(rng, tier):
    # structural: which classes define their own `now`
    own = []
    for p in (fw.REPO / "reactivex" / "scheduler").rglob("*.py"):
        try:
            t = ast.parse(p.read_text())
        except SyntaxError:
            continue
        for node in ast.walk(t):
            if isinstance(node, ast.ClassDef):
                for f in node.body:
                    if isinstance(f, ast.FunctionDef) and f.name == "now":
                        own.append(f"{p.relative_to(fw.REPO)}:{node.name}")
    return {"failures": [], "coverage": {"classes_defining_now": sorted(own), "now_probe_zones": [z or "(environment)" for z in NOW_ZONES]}}


LEVEL_TEXT = ("Lean theorems on the exact integer-microsecond model: timedelta <-> datetime round-trip exactly (all values); to_seconds, "
              "to_timedelta and to_datetime preserve order for EVERY monotone rounding function (floats, ints, timedeltas, datetimes); float "
              "legs round-trip exactly for |us| <= 2^52 - 2^20; the executable IEEE rounding `rd` is PROVED to be such a rounding. Tied to "
              "the code by exact differential comparison (doubles as integer ratios) against the compiled model, which runs its own "
              "IEEE-754 round-to-nearest-even.")
LEVEL_NOTE = ("The float theorems are stated for an abstract rounding function with the properties of IEEE round-to-nearest (monotone, fixes "
              "integers up to 2^53, relative error <= 2^-53) and, by rd_is_rounding (proved, with single Mathlib modules), hold for the executable "
              "`rd` of the driver, which in turn agrees exactly with CPython doubles on every run. `rd` models the normal range only (no overflow, "
              "no subnormals — far outside time values). Round trip through floats is proved for |us| <= 2^52 - 2^20 (the oracle checks it up to "
              "2^52, where it still holds empirically); beyond 2^52 us the code genuinely loses microseconds (documented, not claimed). `now` is "
              "checked at run time, not proved.")

"""C25 — a disposable's action runs at most once (DESIGN.md §5 C25): Disposable, BooleanDisposable, ScheduledDisposable."""
import fw
from sched import disp_oracle as do
from sched import disp_prop as dp

LEAN_TARGETS = ["RxProofs.C25"]
DRIVER = "drv_disp"
DRIVER_ROOT = "Disp"
PROCS = 1  # histories take microseconds; a process pool costs more than it saves
THEOREMS = [
    "C25.action_at_most_once",
    "C25.is_disposed_after_return",
    "C25.action_exactly_once_when_quiet",
    "C25.disposable_history",
    "C25.boolean_only_flag",
    "C25.scheduled_exactly_once_on_scheduler",
]
RULE = ("(a) call histories: Disposable with 0..6 dispose() calls, 0..3 re-entrant dispose() calls from inside the action and an "
        "action that raises at its first/second invocation; "
        "BooleanDisposable 0..6 calls; ScheduledDisposable histories of dispose/run/runall over a recording queue scheduler, the real "
        "ImmediateScheduler and the real TestScheduler, plus (oracle only) 2-3 STACKED ScheduledDisposable layers each on its own "
        "queue/Test/Immediate scheduler, disposed through any layer, checking on which scheduler the resource is released; compared per call: action / wrapped-resource dispose count and is_disposed; "
        "non-trivial = >=2 calls or a re-entrant call, for scheduled >=2 call kinds and the resource disposed. (b) 2-3 real threads "
        "calling dispose() (scheduled: plus one worker thread per scheduled action), ALL schedules with <=2 (thorough <=3) "
        "preemptions; non-trivial = >=1 preemption. The space of histories is small: most generated cases are duplicates and are "
        "counted once")
ASSUMPTIONS = [
    "a `with self.lock:` block is atomic w.r.t. other threads using the same lock; the action terminates",
    "ScheduledDisposable: the scheduler runs every scheduled action, each at an arbitrary later time on an arbitrary thread (the model's workers); schedulers themselves are C28-C34's business",
]
TRUSTED_EXTRA = ["interleaving controller harness/sched/disp_ctl.py (instrumented RLock, traced attributes) - search/validation tool only"]
TECHNIQUE = "Lean 4 invariants of atomic-step thread systems (any number of threads, calls and any schedule) + differential histories + enumerated real-thread schedules replayed in the model"


def cases(rng, tier):
    n = fw.tier_scale(tier, 150, 1500)
    for _ in range(n):
        yield {"op": "history", "cls": "disposable", "items": 0, "threads": [[["dispose"]] * rng.randrange(0, 7)],
               "reenter": rng.choice([0, 0, 1, 2, 3]), "raises": rng.choice([[], [], [0], [0], [0, 1], [1]])}
    for _ in range(n // 3):
        yield {"op": "history", "cls": "boolean", "items": 0, "threads": [[["dispose"]] * rng.randrange(0, 7)]}
    for _ in range(n * 2):
        kind = rng.choice(["queue", "queue", "immediate", "test"])
        ops = []
        for _ in range(rng.choice([0, 1, 2, 3, 4, 6, 8] + ([16] if tier == "thorough" else []))):
            if kind == "queue":
                ops.append([rng.choice(["dispose", "dispose", "run", "run", "runall"])])
            else:
                ops.append([rng.choice(["dispose", "dispose", "runall"])])
        yield {"op": "history", "cls": "scheduled", "items": 1, "falsy": rng.choice([[], [], [0]]), "sched_kind": kind, "threads": [ops]}


    # stacked layers (oracle only): 2-3 ScheduledDisposable layers, each on its own scheduler, dispose through any layer
    for _ in range(n * 2):
        layers = [rng.choice(["queue", "queue", "test", "immediate"]) for _ in range(rng.choice([2, 2, 3]))]
        ops = []
        for _ in range(rng.choice([1, 2, 3, 4, 6, 8])):
            k = rng.randrange(len(layers))
            ops.append(["dispose", k] if rng.random() < 0.45 else ["run", k])
        yield {"op": "history", "cls": "schedstack", "items": 1, "layers": layers, "threads": [ops]}
    yield {"op": "history", "cls": "schedstack", "items": 1, "layers": ["test", "test"],
           "threads": [[["dispose", 1], ["dispose", 1], ["run", 1], ["run", 0], ["dispose", 0], ["run", 0]]]}


def model_request(case):
    return dp.history_request(case)


impl = dp.impl
canon_impl = dp.canon_history_impl
canon_model = dp.canon_history_model


def oracle(case, out):
    if case.get("op") == "threads":
        if out.get("error"):
            return f"execution failed: {out['error']}"
        return do.c25_threads(case["scenario"], out["trace"], out["final"])
    if case["cls"] == "schedstack":
        return do.c25_stack_history(case, out)
    return do.c25_history(case, out)


def nontrivial(case, out):
    if case.get("op") != "history":
        return True
    ops = case["threads"][0]
    if case["cls"] == "schedstack":
        return bool(out) and out[-1][1]["cnt"][0] >= 1 and len({tuple(o) for o in ops}) >= 2
    if case["cls"] == "scheduled":
        return len({o[0] for o in ops}) >= 2 and bool(out) and out[-1][1]["cnt"][0] >= 1
    return len(ops) >= 2 or (len(ops) >= 1 and (case.get("reenter", 0) > 0 or 0 in case.get("raises", [])))


def bucket(case, out):
    if case.get("op") != "history":
        return
    cls = case["cls"]
    if cls == "schedstack":
        yield f"schedstack:{len(case['layers'])}-layers"
        if out and out[-1][1]["cnt"][0]:
            yield "schedstack:released"
        return
    yield cls if cls != "scheduled" else f"scheduled:{case['sched_kind']}"
    if cls == "disposable" and case.get("reenter") and case["threads"][0]:
        yield "disposable:reentrant"
    if cls == "disposable" and 0 in case.get("raises", []) and case["threads"][0]:
        yield "disposable:action-raises" + ("+later-calls" if len(case["threads"][0]) > 1 else "")
    if cls == "scheduled":
        if case.get("falsy"):
            yield "scheduled:falsy-resource"
        seen_run_before = False
        for op in case["threads"][0]:
            if op[0] in ("run", "runall") and not seen_run_before:
                yield "scheduled:run"
                seen_run_before = True


shrink = dp.shrink_history


def search(rng, tier, disagreeing):
    for c in disagreeing[:40]:
        for c2 in [c] + (list(shrink(c))[:40] if c.get("op") == "history" else []):
            v = oracle(c2, impl(c2))
            if v:
                return fw.Failure("oracle", c2, v)
    return None


D = ["dispose"]
SCENARIOS = [
    {"cls": "disposable", "items": 0, "threads": [[D], [D]]},
    {"cls": "disposable", "items": 0, "threads": [[D, D], [D]]},
    {"cls": "disposable", "items": 0, "threads": [[D], [D], [D]]},
    {"cls": "disposable", "items": 0, "threads": [[D, D], [D, D]]},
    {"cls": "disposable", "items": 0, "threads": [[D, D], [D], [D]]},
    {"cls": "disposable", "items": 0, "raises": [0], "threads": [[D, D], [D]]},
    {"cls": "disposable", "items": 0, "raises": [0, 1], "threads": [[D], [D], [D]]},
    {"cls": "boolean", "items": 0, "threads": [[D], [D]]},
    {"cls": "boolean", "items": 0, "threads": [[D, D], [D], [D]]},
    {"cls": "scheduled", "items": 1, "threads": [[D]], "workers": 1},
    {"cls": "scheduled", "items": 1, "threads": [[D], [D]], "workers": 2},
    {"cls": "scheduled", "items": 1, "falsy": [0], "threads": [[D], [D]], "workers": 2},
    {"cls": "scheduled", "items": 1, "threads": [[D, D], [D]], "workers": 3},
]


def extra(rng, tier):
    parts = [("", dp.thread_check(SCENARIOS, do.c25_threads, tier, accept=True))]
    if tier == "thorough":
        parts.append(("lines", dp.thread_check(SCENARIOS[:9], do.c25_threads, tier, accept=False, lines=True, bound=2, budget_s=120)))
    return dp.merge_extra(parts)


LEVEL_TEXT = ("Lean theorems for any number of threads, any number of dispose() calls per thread and any schedule: Disposable's action "
              "runs at most once, exactly once when some call returned and no thread is between lock and action, is_disposed holds "
              "as soon as any call returned; BooleanDisposable only writes its flag; ScheduledDisposable disposes the wrapped resource "
              "at most once, only on a scheduler worker after an action was scheduled, exactly once after an action ran. Tied to the "
              "code by differential histories (incl. re-entrant dispose from the action, real Immediate/Test schedulers) and by "
              "enumerated schedules of 2-3 real threads replayed in the model.")
LEVEL_NOTE = ("The scheduler of ScheduledDisposable is abstract (every scheduled action runs on its own worker at any later time); "
              "atomicity of lock blocks is assumed (validated by the controller), not proved; an action that raises is modelled (its k-th invocation may raise; the flag stays set), one that blocks is not.")

"""C44 — an operator function can be applied to many sources independently (DESIGN.md §5 C44).

 * the same capture table as C04 (harness/xlate/captures.py -> lean/RxGen/Captures.lean) read at the factory level:
   `C44.captures_factory_ok` (kernel `decide`): in reactivex/operators nothing created when the operator function is
   built is mutated/consumed when it is applied/subscribed/run, nor escapes into an operator constructor;
 * `C44.apply_independent` — the frame theorem with applications as instances; `refcount_apply_independent` and the
   decided leak of the pre-fix `ref_count_`;
 * correspondence ("frame" cases): the frame model of `ref_count_` (fixed: count/connection per application) against the
   real operator: ONE `ops.ref_count()` object applied to 2-3 instrumented connectables, subscriber subscribe/dispose
   calls interleaved across the applications; compared: what each application does to its connectable, in order;
 * oracle ("apply" cases, real code only): EVERY operator of reactivex.operators that has a fluent method (131, via
   C39's argument generators), ONE operator object applied to 2-3 independent cold sources with interleaved
   subscriptions / connections on one TestScheduler, against fresh operator objects per source on an identical timeline:
   per-subscriber notifications, side effects and source subscription logs must be equal.
"""
from __future__ import annotations

import random
import signal

import fw
from fw import enc, err_name
from props import C39
from xlate import captures as xc

LEAN_TARGETS = ["RxProofs.C44"]
DRIVER = "drv_struct"
DRIVER_ROOT = "Struct"
THEOREMS = [
    "C44.captures_factory_ok",
    "C44.apply_independent",
    "C44.refcount_framed",
    "C44.refcount_apply_independent",
    "C44.refcount_asis_leaks",
    "C44.catalogue_ops_apply_independent",
    "C44.catalogue_agg_apply_independent",
    "C44.refcount_lift_framed",
]
RULE = ("frame cases: one ref_count() operator object x 2-3 applications x random interleavings of subscribe/dispose of 1-3 subscribers "
        "per application (double dispose included); apply cases: every operator with a fluent method x generated arguments x 2-3 cold "
        "sources x 1-2 subscribers per application at interleaved virtual times (connectables: connect times too), shared operator object "
        "vs fresh operator objects. Non-trivial: at least two applications deliver a notification (apply) / perform an effect (frame). "
        "Distinct by canonical JSON.")
ASSUMPTIONS = [
    "the capture translator classifies scopes and mutable objects correctly (fail closed); rules in harness/xlate/captures.py",
    "arguments handed to an operator factory are themselves stateless or cold (generated that way); `multicast(subject)` is exercised with "
    "subject=None / subject_factory only, because a subject passed by the caller is the caller's shared state",
]
TRUSTED_EXTRA = ["harness/xlate/captures.py (AST translator)"]

_SUMM = None


def regenerate():
    global _SUMM
    _, _SUMM = xc.regenerate(fw.REPO, fw.LEAN)
    return _SUMM


# =============================================================================== frame cases (ref_count)
def gen_frame_cases(rng, tier):
    for _ in range(fw.tier_scale(tier, 500, 5000)):
        napp = rng.choice([2, 2, 3])
        acts = [["c", i] for i in range(napp)]
        live = {i: [] for i in range(napp)}
        nxt = {i: 0 for i in range(napp)}
        gone = {i: [] for i in range(napp)}
        for _ in range(rng.choice([4, 8, 12, 20])):
            i = rng.randrange(napp)
            r = rng.random()
            if r < 0.5 or not (live[i] or gone[i]):
                k = nxt[i]
                nxt[i] += 1
                live[i].append(k)
                acts.append(["a", i, ["sub", k]])
            elif r < 0.9 and live[i]:
                k = live[i].pop(rng.randrange(len(live[i])))
                gone[i].append(k)
                acts.append(["a", i, ["unsub", k]])
            elif gone[i]:
                acts.append(["a", i, ["unsub", rng.choice(gone[i])]])  # disposing twice is a no-op
        yield {"op": "frame_run", "sys": "ref_count", "acts": acts}


class FakeConnectable:
    """stands in for a ConnectableObservable: records what the application does to it"""

    def __init__(self, idx, out):
        self.idx, self.out = idx, out

    def subscribe(self, observer=None, *a, scheduler=None, **kw):
        from reactivex.disposable import Disposable
        k = observer.k if hasattr(observer, "k") else getattr(observer, "_k", None)
        self.out.append([self.idx, ["srcSubscribe", k]])
        return Disposable(lambda: self.out.append([self.idx, ["srcUnsubscribe", k]]))

    def connect(self, scheduler=None):
        from reactivex.disposable import CompositeDisposable, Disposable
        self.out.append([self.idx, ["connect"]])
        # same shape as ConnectableObservable.connect: truthy while connected, empty (falsy) once disposed
        return CompositeDisposable(Disposable(lambda: self.out.append([self.idx, ["disconnect"]])))


def run_frame(case):
    from reactivex import operators as ops
    from reactivex.observer import Observer

    out = []
    op = ops.ref_count()
    apps, subs = {}, {}
    for a in case["acts"]:
        if a[0] == "c":
            apps[a[1]] = op(FakeConnectable(a[1], out))
        else:
            i, (kind, k) = a[1], a[2]
            if i not in apps:
                continue
            if kind == "sub":
                ob = Observer()
                ob.k = k
                # ref_count's subscribe function is called directly with our observer (Observable.subscribe would wrap it)
                subs[(i, k)] = apps[i]._subscribe(ob, None)
            else:
                d = subs.get((i, k))
                if d is not None:
                    d.dispose()
    return out


# =============================================================================== apply cases
HORIZON = 1000
HEAVY = {"publish", "replay", "publish_value", "ref_count", "share"}  # the operators the property is anchored in get more cases


def gen_apply_cases(rng, tier):
    per = fw.tier_scale(tier, 6, 50)
    for m in C39.table()["methods"]:
        for _ in range(per * (8 if m["name"] in HEAVY else 1)):
            omit, explicit = [], []
            for p in m["params"]:
                if p["kind"] in ("pos", "kwonly") and p["dflt"] is not None and C39._op_has_default(m, p):
                    r = rng.random()
                    if r < 0.35:
                        omit.append(p["name"])
                    elif r < 0.45:
                        explicit.append(p["name"])
            napp = rng.choice([2, 2, 3])
            subs = []
            for i in range(napp):
                ts = sorted(200 + rng.choice([0, 5, 10, 20, 35, 50, 90, 140]) for _ in range(rng.choice([1, 2, 2])))
                subs.append({"at": ts, "connect": 200 + rng.choice([0, 5, 15, 30, 60]), "unsub": [t + rng.choice([20, 60, 150, 700]) for t in ts]})
            yield {"op": "apply", "method": m["name"], "omit": omit, "explicit": explicit, "seed": rng.randrange(1 << 30),
                   "srcs": [C39.gen_msgs(rng) for _ in range(napp)], "nstar": rng.choice([0, 1, 2]), "apps": subs}


class _PureCtx(C39.Ctx):
    """C39's argument context, with the call-counting condition replaced by a pure function of virtual time"""


def _pure_arg_for(ctx, m, pname):
    if pname == "condition":
        t = 200 + ctx.r.choice([0, 40, 90, 160])
        return lambda _src: ctx.sched.clock < t
    if m == "multicast" and pname == "subject":
        ctx.r.random()
        return None
    return C39.arg_for(ctx, m, pname)


def _build_args(ctx, mrow):
    """C39.build_args with the pure generators"""
    pos, kw = [], {}
    broke = False
    case = ctx.case
    for p in mrow["params"]:
        n = p["name"]
        if p["kind"] == "varkw":
            continue
        v = _pure_arg_for(ctx, mrow["name"], n)
        if p["kind"] == "vararg":
            if not broke:
                pos.extend(v[1])
            continue
        if n in case["omit"]:
            if p["kind"] == "pos":
                broke = True
            continue
        if n in case["explicit"]:
            v = C39._val(p["dflt"]) if p["dflt"] in C39.CONSTS or p["dflt"] == "NotSet" else v
        if p["kind"] == "kwonly" or broke:
            kw[n] = v
        else:
            pos.append(v)
    return pos, kw


def run_world(case, shared: bool):
    import concurrent.futures

    import reactivex.operators as ops
    from reactivex import ConnectableObservable, Observable
    from reactivex.disposable import CompositeDisposable
    from reactivex.testing import TestScheduler

    mrow = next(m for m in C39.table()["methods"] if m["name"] == case["method"])
    alias = C39.ALIAS.get(case["method"], case["method"])
    sched = TestScheduler()
    log = []
    ctx = _PureCtx(case, sched, log)
    kind = C39.SRC_KIND.get(case["method"], "int")
    srcs = []
    for msgs in case["srcs"]:
        s = ctx.cold(msgs, kind)
        srcs.append(s)
    colds = list(srcs)
    if case["method"] == "ref_count":
        srcs = [s.pipe(ops.publish()) for s in srcs]
    napp = len(srcs)
    results = []
    try:
        if shared:
            pos, kw = _build_args(ctx, mrow)
            op = getattr(ops, alias)(*pos, **kw)
            for s in srcs:
                results.append(op(s))
        else:
            for s in srcs:
                c2 = _PureCtx(case, sched, log)  # same seed: equal arguments, separate objects
                pos, kw = _build_args(c2, mrow)
                results.append(getattr(ops, alias)(*pos, **kw)(s))
    except Exception as e:
        return {"raised": err_name(e), "log": log}
    counter = [0]
    shapes = []
    futures = []
    for i, res in enumerate(results):
        app = case["apps"][i]
        if isinstance(res, ConnectableObservable):
            shapes.append("connectable")
        elif isinstance(res, Observable):
            shapes.append("observable")
        elif isinstance(res, (list, tuple)) and all(isinstance(x, Observable) for x in res):
            shapes.append("list%d" % len(res))
        elif isinstance(res, concurrent.futures.Future) or hasattr(res, "add_done_callback"):
            shapes.append("future")
            futures.append((i, res))
            continue
        else:
            shapes.append("other:" + type(res).__name__)
            continue
        targets = list(res) if isinstance(res, (list, tuple)) else [res]
        for ti, o in enumerate(targets):
            for si, (t_sub, t_unsub) in enumerate(zip(app["at"], app["unsub"])):
                tag = "app%d.%d.s%d" % (i, ti, si)

                def act(s, st, o=o, tag=tag, t_unsub=t_unsub):
                    d = o.subscribe(C39.Rec(sched, log, tag, counter), scheduler=sched)
                    sched.schedule_absolute(max(t_unsub, int(sched.clock)), lambda s2, st2: d.dispose())
                sched.schedule_absolute(t_sub, act)
        if isinstance(res, ConnectableObservable):
            def conn(s, st, res=res):
                d = res.connect(sched)
                sched.schedule_absolute(HORIZON, lambda s2, st2: d.dispose() if d is not None else None)
            sched.schedule_absolute(app["connect"], conn)
    escaped = []
    for _ in range(50):
        try:
            sched.start()
            break
        except Exception as e:
            escaped.append(err_name(e))
    out = {"raised": None, "shapes": shapes, "log": log, "escaped": escaped[:5],
           "subs": [fw.subs_json(c.subscriptions) for c in colds]}
    fut = []
    for i, f in futures:
        if f.done():
            try:
                fut.append([i, "result", C39._encv(f.result(), None)])
            except BaseException as e:  # noqa
                fut.append([i, "exception", err_name(e)])
        else:
            fut.append([i, "pending"])
    out["futures"] = fut
    return out


class CaseTimeout(BaseException):
    pass


def _alarm(signum, frame):
    raise CaseTimeout()


def run_apply(case):
    old = signal.signal(signal.SIGALRM, _alarm)
    signal.setitimer(signal.ITIMER_REAL, 20.0)
    try:
        return {"shared": run_world(case, True), "fresh": run_world(case, False)}
    except CaseTimeout:
        return {"timeout": True}
    finally:
        signal.setitimer(signal.ITIMER_REAL, 0)
        signal.signal(signal.SIGALRM, old)


# =============================================================================== interface
def cases(rng, tier):
    yield from gen_frame_cases(rng, tier)
    yield from gen_apply_cases(rng, tier)


def model_request(case):
    return case if case["op"] == "frame_run" else None


def impl(case):
    if case["op"] == "frame_run":
        return run_frame(case)
    return run_apply(case)


def _frame_reference(case):
    """property-level reference for the frame cases, written against the property text: every application connects its
    own source when its own subscriber count goes 0->1 and disconnects when it returns to 0"""
    out, cnt, live = [], {}, {}
    for a in case["acts"]:
        if a[0] == "c":
            cnt[a[1]] = 0
            live[a[1]] = set()
            continue
        i, (kind, k) = a[1], a[2]
        if i not in cnt:
            continue
        if kind == "sub":
            live[i].add(k)
            cnt[i] += 1
            out.append([i, ["srcSubscribe", k]])
            if cnt[i] == 1:
                out.append([i, ["connect"]])
        elif k in live[i]:
            live[i].discard(k)
            cnt[i] -= 1
            out.append([i, ["srcUnsubscribe", k]])
            if cnt[i] == 0:
                out.append([i, ["disconnect"]])
    return out


def oracle(case, out):
    if case["op"] == "frame_run":
        ref = _frame_reference(case)
        if fw.key(ref) != fw.key(out):
            for i in sorted({o[0] for o in ref} | {o[0] for o in out}):
                a, b = [o[1] for o in out if o[0] == i], [o[1] for o in ref if o[0] == i]
                if a != b:
                    return (f"one ref_count() operator applied to several connectables: application {i} did {a}, a fresh operator "
                            f"would do {b}")
        return None
    if out.get("timeout"):
        return None
    if fw.key(out["shared"]) != fw.key(out["fresh"]):
        s, f = out["shared"], out["fresh"]
        what = "source subscription logs" if s.get("log") == f.get("log") else "notifications"
        return (f"ops.{C39.ALIAS.get(case['method'], case['method'])}: one operator object applied to {len(case['srcs'])} sources differs from fresh "
                f"operators per source ({what}): shared={fw.key(s)[:500]} fresh={fw.key(f)[:500]}")
    return None


def nontrivial(case, out):
    if case["op"] == "frame_run":
        return len({o[0] for o in out}) >= 2
    if out.get("timeout") or out["fresh"].get("raised"):
        return False
    apps = {str(e[1]).split(".")[0] for e in out["fresh"]["log"] if len(e) > 2 and str(e[1]).startswith("app")}
    return len(apps) >= 2 or len(out["fresh"].get("futures", [])) >= 2


def bucket(case, out):
    if case["op"] == "frame_run":
        yield "frame:ref_count"
        return
    yield "apply"
    if out.get("timeout"):
        yield "apply:timeout"
    elif out["fresh"].get("raised"):
        yield "apply:raised"
    else:
        for s in set(out["fresh"]["shapes"]):
            yield "apply:" + s


def shrink(case):
    if case["op"] == "frame_run":
        for i in range(len(case["acts"])):
            c = dict(case)
            c["acts"] = case["acts"][:i] + case["acts"][i + 1:]
            yield c
        return
    for k in range(len(case["srcs"])):
        for i in range(len(case["srcs"][k])):
            c = dict(case)
            c["srcs"] = [list(x) for x in case["srcs"]]
            del c["srcs"][k][i]
            yield c
    if len(case["srcs"]) > 2:
        c = dict(case)
        c["srcs"] = case["srcs"][:-1]
        c["apps"] = case["apps"][:-1]
        yield c
    for fld in ("omit", "explicit"):
        for i in range(len(case[fld])):
            c = dict(case)
            c[fld] = case[fld][:i] + case[fld][i + 1:]
            yield c


def search(rng, tier, disagreeing):
    import time as _time
    r2 = random.Random(rng.randrange(1 << 30))
    n = 0
    t_end = _time.time() + fw.tier_scale(tier, 25, 240)  # the failing-input search has a time budget
    for c in gen_apply_cases(r2, "thorough"):
        n += 1
        if _time.time() > t_end:
            break
        if n > fw.tier_scale(tier, 3000, 9000):
            break
        v = oracle(c, impl(c))
        if v:
            return fw.Failure("oracle", c, v)
    return None


def extra(rng, tier):
    cov = {"exhaustive": False, "operators_with_apply_cases": len(C39.table()["methods"]),
           "skipped": ["multicast(subject=<caller's subject>): a subject passed in by the caller is the caller's shared state; "
                       "multicast is exercised with subject=None (ValueError on both sides) only; subject_factory+mapper is exercised through publish/replay/publish_value with a mapper"]}
    try:
        rep = fw.run_driver(DRIVER, [{"op": "captures_report"}])[0]
        cov["capture_table"] = {k: rep[k] for k in ("entries", "factory_violations", "factory_allowed", "factory_stale_allow")}
    except Exception as e:
        cov["capture_table"] = {"driver_unavailable": str(e)[:200], "flagged_by_translator": (_SUMM or {}).get("flagged_before_allow_list")}
    return {"proof_failures": [], "coverage": cov}


LEVEL_TEXT = ("Lean: `captures_factory_ok` (kernel `decide` over the capture table regenerated on this run: in reactivex/operators nothing created "
              "when the operator function is built is mutated/consumed when it is applied, subscribed or run, nor escapes into an operator constructor) "
              "and the frame theorem `apply_independent` (if the factory-level state is never written, every application behaves, under any "
              "interleaving with the other applications, like the only application of a fresh operator), instantiated for ref_count_ and run against "
              "the real ref_count; plus the decided leak of the pre-fix ref_count_. Dynamic oracle: every operator with a fluent method, one operator "
              "object on 2-3 sources vs fresh operators.")
LEVEL_NOTE = ("The theorem is about the abstract frame model; the tie to the code is the capture table (syntactic AST analysis, fail closed, one "
              "allow-listed idempotent write) and the shared-vs-fresh oracle; only ref_count_ has an executable model run against the code by this check; `catalogue_ops_apply_independent` / `catalogue_agg_apply_independent` instantiate the theorem (applications with all their subscriptions as instances, Sys.lift) for every handler record of the element-wise and aggregating families (list in C04's level note; tied to the code by C05-C08). Needs "
              "fixes/C44_*.patch: on the unfixed tree the check reports VIOLATION with a replay (ref_count / replay / publish_value).")

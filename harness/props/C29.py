"""C29 — virtual-time runs always finish (DESIGN.md §5 C29)."""
import fw
from props import vts_common as vc
from props import C28

LEAN_TARGETS = ["RxProofs.C29"]
DRIVER = "drv_vts"
DRIVER_ROOT = "Vts"
THEOREMS = [
    "C29.start_terminates",
    "C29.countInv_reachable",
    "C29.start_runs_all_uncancelled",
    "C29.restart_after_drain",
    "C29.historical_spin_stuck",
    "C29.historical_spin_fixed",
]
RULE = ("finite schedules with 0..400 actions at the same due time (counts aimed at the spin threshold: 99..103, 150, 202..205, 400), "
        "self-rescheduling chains at the current time of depth <=150, mixed with other due times, cancellations, repeated start() "
        "(restart after drain) and advance_to, re-entrant advance_to/advance_by/start calls made by a running action with due actions queued behind it, drain-and-restart rounds (queue emptied by start / advance_to / advance_by, more scheduled, run again), on TestScheduler, VirtualTimeScheduler and HistoricalScheduler (datetime clock), every run "
        "under a watchdog; plus the C28 random scripts. Compared with the Lean model (log, clocks, outcomes). "
        "non-trivial = at least two actions share a due time and at least one action ran")
ASSUMPTIONS = ["single-threaded use of the scheduler", "integer times",
               "a call that does not return within the watchdog (5 s for <=400 no-op actions) is counted as not returning"]
TRUSTED_EXTRA = ["SIGALRM watchdog in harness/props/vts_common.py"]


def noop(i):
    return {"id": i, "steps": [], "raise": None}


def chain(first_id, depth, mode="imm", t=0):
    """action first_id reschedules a successor at the current time, `depth` times"""
    node = noop(first_id + depth)
    for k in range(depth - 1, -1, -1):
        node = {"id": first_id + k, "steps": [["sched", "handed", mode, t, node]], "raise": None}
    return node


def base(kind, c0, ops):
    return {"op": "vts_script", "sched": kind, "clock": c0, "bump": 1000 if kind == "hist" else 1, "ops": ops,
            "handler_true": [], "handler_default": False}


def gen_same_time(rng, kind, n):
    unit = 500 if kind == "hist" else 1
    c0 = unit * rng.choice([0, 0, 7])
    ops = []
    nid = 1
    how = rng.choice(["imm", "abs", "rel0", "mixed", "future"])
    at = c0 + (unit * 3 if how == "future" else 0)
    for _ in range(n):
        m = how if how in ("imm", "abs") else ("rel" if how == "rel0" else rng.choice(["imm", "abs", "rel"]))
        if how == "future":
            m = "abs"
        t = 0 if m in ("imm", "rel") else at
        ops.append(["sched", False, m, t, noop(nid)])
        nid += 1
    # a few at other times, a few cancellations
    for _ in range(rng.choice([0, 0, 1, 3])):
        ops.append(["sched", False, "abs", c0 + unit * rng.randrange(0, 6), noop(nid)])
        nid += 1
    for _ in range(rng.choice([0, 0, 1, 5])):
        if nid > 1:
            ops.append(["cancel", rng.randrange(1, nid)])
    runner = rng.choice(["start", "start", "start", "advance"])
    if runner == "start":
        ops.append(["start"])
    else:
        ops.append(["advance_to", at + unit * rng.choice([1, 2, 10])])
    # restart after drain
    if rng.random() < 0.5:
        for _ in range(rng.choice([1, 3, 120])):
            ops.append(["sched", False, rng.choice(["imm", "rel"]), 0, noop(nid)])
            nid += 1
        ops.append(["start"])
    return base(kind, c0, ops)


def gen_chain(rng, kind):
    unit = 500 if kind == "hist" else 1
    c0 = 0
    depth = rng.choice([1, 5, 50, 99, 100, 101, 102, 120, 150])
    ops = [["sched", False, "imm", 0, chain(1, depth, rng.choice(["imm", "imm", "rel"]), 0)]]
    nid = depth + 2
    for _ in range(rng.choice([0, 1, 30, 110])):
        ops.append(["sched", False, "imm", 0, noop(nid)])
        nid += 1
    if rng.random() < 0.3:
        ops.append(["sched", False, "abs", unit * 2, chain(nid, rng.choice([3, 105]))])
    ops.append(["start"])
    return base(kind, c0, ops)


def gen_drain_restart(rng, kind=None):
    """2..4 rounds: schedule some actions, run until the queue is EMPTY — by start(), by advance_to(T) or advance_by(d) with the
    target at/after the last due time — then schedule more and run again, by any of the three"""
    kind = kind or rng.choice(["test", "vts", "hist"])
    unit = 500 if kind == "hist" else 1
    c0 = unit * rng.choice([0, 0, 9])
    clock = c0
    ops, nid = [], 1
    for _ in range(rng.choice([2, 2, 3, 4])):
        last = clock
        for _ in range(rng.choice([1, 2, 5, 30])):
            mode = rng.choice(["imm", "rel", "abs"])
            t = 0 if mode == "imm" else unit * rng.randrange(0, 6) if mode == "rel" else clock + unit * rng.randrange(0, 6)
            due = clock if mode == "imm" else clock + t if mode == "rel" else t
            node = noop(nid) if rng.random() < 0.7 else chain(nid, rng.choice([1, 3]), "rel", unit * rng.randrange(0, 3))
            nid = max(vc.action_ids(node)) + 1
            last = max(last, due + 6 * unit)
            ops.append(["sched", False, mode, t, node])
        how = rng.choice(["start", "advance_to", "advance_to", "advance_by", "advance_by"])
        if how == "start":
            ops.append(["start"])
            clock = last   # an upper bound is enough: later absolute times are taken from it
        elif how == "advance_to":
            T = last + unit * rng.choice([0, 1, 5])
            ops.append(["advance_to", T])
            clock = T
        else:
            d = last - clock + unit * rng.choice([1, 2])
            ops.append(["advance_by", d])
            clock += d
    return base(kind, c0, ops)


def gen_reentrant(rng, kind=None):
    """an action that calls advance_to(now) / advance_to(later) / advance_by(0) / advance_by(d) / start() / an out-of-range
    advance_to it catches — on the scheduler that is running it — with more due actions queued behind it (same instant and
    later): the guard returns at once and the outer run must still execute everything due"""
    kind = kind or rng.choice(["test", "vts", "hist"])
    unit = 500 if kind == "hist" else 1
    c0 = unit * rng.choice([0, 0, 6])
    at = c0 + unit * rng.choice([0, 2])
    calls = [["advance_to", at, False], ["advance_to", at + unit * rng.choice([1, 7, 100]), False], ["advance_by", 0, False],
             ["advance_by", unit * rng.choice([1, 4]), False], ["start"], ["advance_to", at - unit * rng.choice([1, 50]), True],
             ["advance_by", -unit, True]]
    steps = [rng.choice(calls) for _ in range(rng.choice([1, 1, 2, 3]))]
    nid = 1
    ops = []
    first = rng.random() < 0.5
    if not first:   # something already ran before the re-entrant action, at the same instant
        ops.append(["sched", False, "abs", at, noop(nid)])
        nid += 1
    if rng.random() < 0.3:   # the re-entrant call sits in a recursively scheduled child
        child = {"id": nid + 1, "steps": steps, "raise": None}
        ops.append(["sched", False, "abs", at, {"id": nid, "steps": [["sched", "handed", "imm", 0, child]], "raise": None}])
        nid += 2
    else:
        ops.append(["sched", False, "abs", at, {"id": nid, "steps": steps, "raise": None}])
        nid += 1
    for _ in range(rng.choice([1, 2, 5])):   # queued behind it
        ops.append(["sched", False, "abs", at + unit * rng.choice([0, 0, 1, 3]), noop(nid)])
        nid += 1
    runner = rng.choice(["start", "advance_to", "advance_by"])
    if runner == "start":
        ops.append(["start"])
    elif runner == "advance_to":
        ops.append(["advance_to", at + unit * rng.choice([3, 4, 10])])
    else:
        ops.append(["advance_by", at - c0 + unit * rng.choice([3, 5])])
    if rng.random() < 0.4:   # and the scheduler is usable afterwards
        ops.append(["sched", False, "rel", unit, noop(nid)])
        ops.append(rng.choice([["start"], ["advance_by", unit * 2]]))
    return base(kind, c0, ops)


def cases(rng, tier):
    kinds = ["test", "vts", "hist"]
    # the confirmed defect (DESIGN §6 #1), always first: 102 same-time actions on a datetime clock
    yield base("hist", 0, [["sched", False, "imm", 0, noop(i)] for i in range(1, 103)] + [["start"]])
    for n in [0, 1, 2, 99, 100, 101, 102, 103, 150, 202, 203, 204, 400]:
        for kind in kinds:
            yield gen_same_time(rng, kind, n)
    for _ in range(fw.tier_scale(tier, 40, 400)):
        yield gen_same_time(rng, rng.choice(kinds), rng.choice([3, 50, 101, 102, 103, 104, 130, 205, 300]))
    for _ in range(fw.tier_scale(tier, 60, 600)):
        yield gen_chain(rng, rng.choice(kinds))
    for _ in range(fw.tier_scale(tier, 600, 6000)):
        yield C28.gen_script(rng, raise_p=0.0)
    for _ in range(fw.tier_scale(tier, 60, 600)):
        yield C28.gen_multi_start(rng)
    for _ in range(fw.tier_scale(tier, 300, 3000)):
        yield gen_drain_restart(rng)
    for _ in range(fw.tier_scale(tier, 300, 3000)):
        yield gen_reentrant(rng)
    for _ in range(fw.tier_scale(tier, 60, 600)):
        yield C28.gen_long_run(rng)


model_request = vc.model_request
impl = vc.run_script
canon_impl = vc.canon_impl
canon_model = vc.canon_model


def oracle(case, out):
    if out.get("hang"):
        return f"the scheduler did not return within the {out['watchdog_s']} s watchdog on a finite schedule"
    ht = vc.HandleTracker()
    pending, cancelled = ht.pending, ht.cancelled
    cur = None
    must_be_enabled = False   # may the scheduler legitimately be enabled between calls? (only after an exception escaped)
    for ev in out["events"]:
        k = ev[0]
        if k == "op":
            cur = {"name": ev[2], "arg": ev[3], "c0": ev[4], "enabled": ev[5], "stopped": False, "ran": 0}
        elif k == "sched":
            ht.sched(ev[1], ev[2])
        elif k == "cancel":
            ht.cancel(ev[1])
        elif k == "ret":
            ht.ret(ev[1], ev[2])
        elif k == "stop":
            if cur is not None:
                cur["stopped"] = True
        elif k == "run":
            if ev[1] not in pending:
                return f"action {ev[1]} ran twice or was never scheduled"
            del pending[ev[1]]
            if cur is not None:
                cur["ran"] += 1
        elif k == "opend":
            res = ev[2]
            # restart clause: a run that RETURNED NORMALLY leaves the scheduler startable again, however its loop ended
            # (queue drained, next item beyond the target, stop() from an action)
            if res == "ok" and not cur["enabled"] and cur["name"] in ("start", "advance_to", "advance_by") and ev[4]:
                return (f"{cur['name']}({'' if cur['arg'] is None else cur['arg']}) returned normally but left the scheduler enabled: "
                        f"every later start()/advance_to() returns at once without running anything")
            if cur["enabled"] and cur["name"] in ("start", "advance_to", "advance_by") and not must_be_enabled:
                return (f"{cur['name']} found the scheduler still enabled although the previous run returned normally "
                        f"(queue drained): it ran nothing")
            if cur["name"] in ("start", "advance_to", "advance_by"):
                # as written, only an exception escaping from an action leaves _is_enabled set
                must_be_enabled = (res != "ok" and cur["ran"] > 0) or (must_be_enabled and cur["enabled"])
            elif cur["name"] == "stop":
                must_be_enabled = False
            if res == "ok" and not cur["enabled"] and not cur["stopped"]:
                if cur["name"] == "start":
                    left = sorted(i for i in pending if i not in cancelled)
                    if left:
                        return f"start() returned with uncancelled actions still pending: {left[:10]} ({len(left)})"
                    if ev[4]:
                        return "start() returned but the scheduler is still enabled (cannot be started again)"
                elif cur["name"] in ("advance_to", "advance_by"):
                    T = cur["arg"] if cur["name"] == "advance_to" else cur["c0"] + cur["arg"]
                    if T > cur["c0"]:
                        left = sorted(i for i, due in pending.items() if due <= T and i not in cancelled)
                        if left:
                            return f"{cur['name']} returned with due actions still pending: {left[:10]}"
    return None


def nontrivial(case, out):
    if out.get("hang"):
        return True
    dues = [ev[2] for ev in out["events"] if ev[0] == "sched"]
    return len(dues) != len(set(dues)) and bool(out["log"])


def bucket(case, out):
    yield "sched:" + case["sched"]
    if out.get("hang"):
        yield "hang"
        return
    dues = {}
    for ev in out["events"]:
        if ev[0] == "sched":
            dues[ev[2]] = dues.get(ev[2], 0) + 1
    m = max(dues.values()) if dues else 0
    yield "max-same-time:" + ("0" if m == 0 else "1" if m == 1 else "2-100" if m <= 100 else "101-102" if m <= 102 else "103-204" if m <= 204 else ">204")
    yield "starts:" + str(sum(1 for o in case["ops"] if o[0] == "start"))
    n = len(out["log"])
    yield "ran:" + ("0" if n == 0 else "1-100" if n <= 100 else "101-202" if n <= 202 else ">202")


def shrink(case):
    for c in vc.shrink_script(case):
        if all(vc.ret_ok(op[4]) for op in c["ops"] if op[0] == "sched"):
            yield c

LEVEL_TEXT = ("Lean: the loop of start()/advance_to() is a total function — accepted by Lean by well-founded recursion on the number of pending "
              "action-tree nodes, for any finite set of action trees, any number of equal due times, both clock flavours (start_terminates, with the "
              "explicit bound nodes+1 on loop iterations and 'never blocks' for the repaired code); start() returning normally has drained the queue "
              "and executed everything scheduled that was not cancelled (#executed + #skipped-cancelled = #scheduled, by an invariant over all scripts); "
              "a drained scheduler is not enabled and a second start() again runs everything. Tied to /repo by differential runs with 0..400 same-time "
              "actions and self-rescheduling chains on all three schedulers under a watchdog.")
LEVEL_NOTE = ("Model of the REPAIRED code (fix: C29_historical_spin_deadlock — `self.clock +=` -> `self._clock +=` in the spin branch of start()). The unfixed "
              "behaviour is kept as Cfg.spinDeadlock and proved to block on 102 same-time actions (C29.historical_spin_stuck, `decide`); on an unfixed tree the "
              "check reports VIOLATION with that replay. start_runs_all_uncancelled assumes no action calls stop() and start() returns normally (an exception "
              "escaping an action leaves _is_enabled set, as written). Re-entrant advance_to/advance_by/start calls made by a running action are modelled as written (the entry guard returns at once, or raises out-of-range; nothing changes) — except after the same action has itself called stop(), where the real code would run a nested loop: not modelled, never generated. Actions are finite trees: unbounded self-rescheduling is outside the property.")

"""C14 — early termination cancels synchronous infinite sources (DESIGN.md §5 C14)."""
import itertools

import fw

LEAN_TARGETS = ["RxProofs.C14"]
DRIVER = "drv_pipe"
DRIVER_ROOT = "Pipe"
THEOREMS = ["C14.shared_deferred", "C14.trampoline_assign_before_emit", "C14.fresh_emit_before_assign", "C14.early_term_bounded",
            "C14.immediate_scheduler_diverges", "C14.fromIter_take", "C14.loop_starves_queued", "C14.resched_producer_fair"]
BUDGET = 400
PRODUCERS = ["from_iterable", "range", "repeat_value", "generate", "repeat_of"]
SHAPES = ["direct", "map_filter", "merge", "flat_map_inner", "flat_map_outer", "concat", "concat_after", "switch_map", "share", "amb",
          "with_latest_from", "combine_latest"]
TERMS = ["take", "first", "take_while", "element_at", "take_until"]
LINEAR = ("direct", "map_filter")
RULE = ("every (producer, shape, terminator, scheduler) combination of the property's list — 5 never-ending synchronous producers x 12 shapes x 5 early "
        "terminators x {default, explicit ImmediateScheduler, explicit fresh CurrentThreadScheduler} — run on the real code in a forked child under a pull "
        "budget and a watchdog; the count parameter is drawn from the seed. non-trivial = every case (each needs early termination to return)")
ASSUMPTIONS = ["'bounded work' is measured as source pulls <= elements the terminator needs + 2; the pull budget is 400"]
LEVEL_TEXT = ("Lean theorems about the subscribe/trampoline ordering and the polling loop: on the default trampoline the subscription is assigned before the "
              "producer's action runs, so take(n) over a never-ending producer pulls exactly n elements for every n>=1 and every budget (bounded work); with an "
              "immediate/fresh scheduler the loop provably never sees its flag (every budget is consumed) — the recorded findings. The model's verdict "
              "(bounded with m pulls / diverges) is compared with the real code for the linear shapes; all 900 listed combinations run under the oracle.")
LEVEL_NOTE = ("Partial: theorems cover producer -> pass-through stages -> counting terminator under both scheduler disciplines. take_until over from_iterable/range/generate is additionally decided by the trampoline-queue model "
              "(loop_starves_queued / resched_producer_fair). Other shapes whose terminator depends "
              "on another scheduled source (merge/flat_map/concat/switch_map/share/amb/with_latest_from/combine_latest, take_until) are decided by the budgeted "
              "oracle on the real code only. Known findings (not small fixes): explicit immediate/fresh current-thread scheduler with from_iterable/range; "
              "from_iterable's single-action loop starving queued sources (take_until(of), combine_latest(of), infinite outer of flat_map).")
TECHNIQUE = "Lean 4 proofs over a trampoline-ordering + polling-loop model; budgeted differential run of all listed shapes on the real code"


def needed(term, n):
    return {"take": n, "first": 1, "element_at": n, "take_while": n, "take_until": 1}[term]


def cases(rng, tier):
    reps = fw.tier_scale(tier, 1, 4)
    for _ in range(reps):
        for p, sh, t in itertools.product(PRODUCERS, SHAPES, TERMS):
            for sk in (["default", "immediate", "own_ct"] if p in ("from_iterable", "range") else ["default"]):
                yield {"op": "subscribe_run", "producer": p, "shape": sh, "term": t, "sched": sk, "n": rng.randrange(1, 6)}
        # scheduler given at subscribe time: the thread's own current-thread singleton (must behave like the default), an
        # ImmediateScheduler and a fresh CurrentThreadScheduler (the recorded explicit-scheduler finding)
        for p, sh, t in itertools.product(PRODUCERS, ["direct", "merge", "concat_after"], TERMS):
            for sk in (("sub_singleton", "sub_immediate", "sub_own_ct") if sh == "direct" else ("sub_singleton", rng.choice(["sub_immediate", "sub_own_ct"]))):
                yield {"op": "subscribe_run", "producer": p, "shape": sh, "term": t, "sched": sk, "n": rng.randrange(1, 6)}
        # the never-ending inner is PARKED in merge(max_concurrent)/concat_map's queue and subscribed when an earlier finite inner completes
        for p, sh, t in itertools.product(PRODUCERS, ["merge_maxc_parked", "concat_map_parked", "amb_right", "amb_nary"], TERMS):
            yield {"op": "subscribe_run", "producer": p, "shape": sh, "term": t, "sched": "default", "n": rng.randrange(2, 6)}
        # the same thread earlier ran a pipeline that crashed out of subscribe() (its observer raised while another never-ending
        # step-wise source still had a step queued on the current-thread trampoline): later pipelines must be unaffected
        for p, sh, t in itertools.product(PRODUCERS, ["direct", "map_filter", "merge"], ["take", "first", "element_at"]):
            yield {"op": "subscribe_run", "producer": p, "shape": sh, "term": t, "sched": "default", "n": rng.randrange(1, 6), "prelude": "crash"}


QUEUE_MODEL = {"from_iterable": "loop", "range": "step", "generate": "step"}


def model_request(case):
    if case.get("prelude") or case["shape"] not in LINEAR:
        return None
    if case["term"] == "take_until":
        # the terminator depends on a second, queued source: the trampoline-queue model (drainQ) decides
        if case["sched"] not in ("default", "sub_singleton") or case["producer"] not in QUEUE_MODEL:
            return None
        return {"op": "drain_q", "producer": QUEUE_MODEL[case["producer"]], "fuel": BUDGET}
    return {"op": "subscribe_run", "shared": case["sched"] in ("default", "sub_singleton"), "n": needed(case["term"], case["n"]), "fuel": BUDGET}


class Budget(BaseException):
    pass


def _run(case):
    import reactivex as rx
    from reactivex import operators as ops
    from reactivex.scheduler import CurrentThreadScheduler, ImmediateScheduler

    producer, shape, term, schedk, n = case["producer"], case["shape"], case["term"], case["sched"], case["n"]
    pulls = [0]

    def count(x):
        pulls[0] += 1
        if pulls[0] > BUDGET:
            raise Budget()
        return x

    def infinite():
        i = 0
        while True:
            yield i
            i += 1

    if case.get("prelude") == "crash":
        fault = [True]

        def flaky(item):
            if fault[0] and item[0] == "B" and item[1] == 1:
                fault[0] = False
                raise ValueError("observer failed once")
            if item[1] > BUDGET:
                raise Budget()

        a = rx.range(0, 10 ** 9).pipe(ops.map(lambda n: ("A", n)))
        b = rx.generate(0, lambda s: True, lambda s: s + 1).pipe(ops.map(lambda n: ("B", n)))
        try:
            rx.merge(a, b).subscribe(flaky)
        except ValueError:
            pass
    sched = {"immediate": ImmediateScheduler(), "own_ct": CurrentThreadScheduler()}.get(schedk)
    sub_sched = {"sub_singleton": CurrentThreadScheduler.singleton(), "sub_immediate": ImmediateScheduler(), "sub_own_ct": CurrentThreadScheduler()}.get(schedk)
    if producer == "from_iterable": src = rx.from_iterable(infinite(), scheduler=sched).pipe(ops.map(count))
    elif producer == "range": src = rx.range(0, 10 ** 9, scheduler=sched).pipe(ops.map(count))
    elif producer == "repeat_value": src = rx.repeat_value(7).pipe(ops.map(count))
    elif producer == "generate": src = rx.generate(0, lambda x: True, lambda x: x + 1).pipe(ops.map(count))
    else: src = rx.of(1, 2).pipe(ops.map(count), ops.repeat())
    if shape == "direct": o = src
    elif shape == "map_filter": o = src.pipe(ops.map(lambda x: x), ops.filter(lambda x: True))
    elif shape == "merge": o = src.pipe(ops.merge(rx.never()))
    elif shape == "flat_map_inner": o = rx.of(1).pipe(ops.flat_map(lambda _: src))
    elif shape == "flat_map_outer": o = src.pipe(ops.flat_map(lambda x: rx.of(x)))
    elif shape == "concat": o = src.pipe(ops.concat(rx.of(1)))
    elif shape == "concat_after": o = rx.of(1).pipe(ops.concat(src))
    elif shape == "switch_map": o = rx.of(1).pipe(ops.switch_map(lambda _: src))
    elif shape == "merge_maxc_parked": o = rx.of(rx.of(-1, -2), src).pipe(ops.merge(max_concurrent=1))
    elif shape == "concat_map_parked": o = rx.of(0, 1).pipe(ops.concat_map(lambda i: rx.of(-1) if i == 0 else src))
    elif shape == "share": o = src.pipe(ops.share())
    elif shape == "amb": o = src.pipe(ops.amb(rx.never()))
    elif shape == "amb_right": o = rx.never().pipe(ops.amb(src))            # the never-ending source wins as the RIGHT arm
    elif shape == "amb_nary": o = rx.amb(rx.never(), src, rx.never())
    elif shape == "with_latest_from": o = src.pipe(ops.with_latest_from(rx.of(1)))
    else: o = src.pipe(ops.combine_latest(rx.of(1)))
    got = []
    if term == "take": o = o.pipe(ops.take(n))
    elif term == "first": o = o.pipe(ops.first())
    elif term == "take_while": o = o.pipe(ops.take_while(lambda x: len(got) < n - 1))
    elif term == "element_at": o = o.pipe(ops.element_at(n - 1))
    else: o = o.pipe(ops.take_until(rx.of(1)))
    try:
        o.subscribe(on_next=got.append, on_error=lambda e: got.append("E"), scheduler=sub_sched)
        first = pulls[0]
        # the same pipeline object subscribed again (what repeat/retry/concat(p, p) do): must be bounded as well
        pulls[0] = 0
        del got[:]
        o.subscribe(on_next=got.append, on_error=lambda e: got.append("E"), scheduler=sub_sched)
        return {"status": "returned", "pulls": first, "pulls2": pulls[0]}
    except Budget:
        return {"status": "budget", "pulls": pulls[0]}
    except RecursionError:
        return {"status": "recursion", "pulls": pulls[0]}


def impl(case):
    import reactivex, reactivex.operators, reactivex.scheduler  # noqa: F401  import once in the parent; the forked children inherit it
    r = fw.run_with_timeout(_run, (case,), timeout=30)
    if r[0] == "timeout":
        return {"status": "timeout", "pulls": -1}
    if r[0] == "exc":
        return {"status": "exception", "pulls": -1, "detail": r[1][-300:]}
    return r[1]


def bounded(case, out):
    extra = 1 if case["shape"] == "concat_after" else 0
    lim = needed(case["term"], case["n"]) + 2 + extra
    return out["status"] == "returned" and out["pulls"] <= lim and out.get("pulls2", 0) <= lim


def canon_impl(case, out):
    return {"bounded": True, "pulls": out["pulls"]} if bounded(case, out) else {"bounded": False}


def canon_model(case, resp):
    if "error" in resp:
        return resp
    if "otherRan" in resp:
        return {"bounded": True, "pulls": resp["producedBefore"]} if resp["otherRan"] else {"bounded": False}
    return {"bounded": True, "pulls": resp["pulls"]} if resp["stopped"] else {"bounded": False}


def oracle(case, out):
    if bounded(case, out):
        return None
    return (f"{case['producer']}/{case['shape']}/{case['term']}({case['n']})/{case['sched']}: subscribe() did not return after bounded work "
            f"(status {out['status']}, {out['pulls']} pulls, {needed(case['term'], case['n'])} needed)")


def classify(case, why):
    p, sh, t, sk = case["producer"], case["shape"], case["term"], case["sched"]
    if sk in ("immediate", "own_ct") and p in ("from_iterable", "range"):
        return "C14-explicit-scheduler"
    if sk in ("sub_immediate", "sub_own_ct"):
        # the same finding through subscribe(scheduler=...): every producer takes the subscribe-time scheduler when it has none of its own
        return "C14-explicit-scheduler"
    if p == "from_iterable" and sk in ("default", "sub_singleton") and (t == "take_until" or sh in ("flat_map_outer", "combine_latest")):
        return "C14-loop-starves-queued"
    return None


def nontrivial(case, out):
    return True


def bucket(case, out):
    yield f"{case['producer']}:{case['sched']}:{'bounded' if bounded(case, out) else out['status']}"
    if case.get("prelude"):
        yield "prelude:" + case["prelude"]

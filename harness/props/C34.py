"""C34 — real-time schedulers never run an action early or after cancellation; ImmediateScheduler (DESIGN.md §5 C34).

The real TimeoutScheduler / NewThreadScheduler / ThreadPoolScheduler / EventLoopScheduler run with threading.Timer,
thread factories, threading.Condition and the scheduler clock replaced by cooperative versions on a controlled clock;
a user thread schedules (relative / absolute / immediate) and disposes on a generated timeline; timer and event-loop
threads are controlled threads.  Correspondence (single-action cases): the observed events (timer wake-up and
`finished` read; event loop's clock reads, waits and `is_cancelled()` read; dispose; clock reaching the due time) are
replayed step for step in the Lean model `Thr2Timer`.  ImmediateScheduler is compared with the model function.
Oracle (property text): every action starts at most once, at a clock >= its due time, and never if it was disposed
before its due time.  extra(): enumeration of all <=2 (quick) / <=3 (thorough) preemption schedules.
"""
from __future__ import annotations

import time

import fw
from sched import thr2_explore as X
from sched import thr2_timer as T

LEAN_TARGETS = ["RxProofs.C34"]
DRIVER = "drv_thr2"
DRIVER_ROOT = "Thr2"
THEOREMS = [
    "C34.periodic_no_tick_after_dispose",
    "C34.shared_loop_safe",
    "C34.remove_by_due_time_disposes_wrong_item",
    "C34.never_before_due",
    "C34.disposed_before_due_never_starts",
    "C34.start_flags",
    "C34.immediate_sync_or_wouldblock",
    "Thr2Timer.reach_ok",
]
RULE = ("cases = scheduler (Timeout/NewThread/ThreadPool/EventLoop) x 1..3 actions each scheduled now|relative|absolute with "
        "delay -1..3 ticks or a timedelta with a days part (absolute due times also as aware datetimes in non-UTC zones) at time 0..1 and disposed never or at a time around its due time x schedule (start thread + <=3 "
        "preemptions); plus ImmediateScheduler schedule/relative/absolute with negative, zero and positive delays; "
        "event-loop kinds also with the scheduler clock stepped back while the loop sleeps; periodic schedules on NewThread/"
        "ThreadPool with ticks within / beyond their period and a dispose mid-tick; "
        "ThreadPoolScheduler with a saturated pool (bounded stub executor, blocker action) and zero-delay actions disposed while "
        "queued; non-trivial = a dispose races with a pending action (disposed while the scheduler thread exists and the action "
        "has not started) or a preemption switched threads; distinct by canonical JSON.")
ASSUMPTIONS = [
    "threading.Timer, threading.Condition/Lock, ThreadPoolExecutor.submit and thread start are modelled (trusted): "
    "Timer.run = wait(interval) then read `finished` then call; Condition.wait(timeout) returns when notified or when the "
    "controlled clock has advanced by timeout",
    "'starts' means the scheduler thread's read of `finished` / `is_cancelled()` (DESIGN.md §8)",
    "controlled clock in integer ticks (1 tick = 1 s); nothing is claimed about wall-clock accuracy",
    "'disposed before its due time' = dispose() returned at a clock value strictly below the due time",
]
TRUSTED_EXTRA = ["cooperative Timer/Condition/Event/clock and scenario runner harness/sched/thr2_timer.py, thr2_ctl.py"]
LEVEL_TEXT = ("Lean theorems over finite atomic-step models of one action on a threading.Timer-based scheduler and on the "
              "event-loop thread used by NewThread/ThreadPool/EventLoop schedulers (scheduler thread, disposing thread, clock "
              "reaching the due time): for every schedule of any length the action never starts before its due time and "
              "never starts when disposed before its due time; the reachable set is computed and checked closed and safe "
              "by decide in the kernel, then lifted to all schedules by induction. ImmediateScheduler: runs synchronously iff "
              "the delay is not positive, else WouldBlock. Any number of actions on one event-loop thread: invariant proof "
              "(`shared_loop_safe`). Tied to the code by step-for-step replay of controlled real runs "
              "and an enumerative <=k-preemption search with the property oracle.")
LEVEL_NOTE = ("Single-action models are finite and checked by kernel-computed reachability; several actions sharing one "
              "EventLoopScheduler thread are covered by `shared_loop_safe`, an invariant proof for ANY number of items, heap "
              "order and due times (items queued with positive delays before the loop's first turn; the loop reads each item's "
              "own is_cancelled()), replayed against real runs with 2-4 items; `remove_by_due_time_disposes_wrong_item` shows "
              "at model level why dispose must flag the item instead of PriorityQueue.remove (== on due time). Items scheduled "
              "while the loop is already turning are covered by the oracle and the search only. The clock is abstracted to "
              "'due reached'; to_seconds/to_datetime conversions are C36's (absolute due times in non-UTC zones are generated).")

KINDS = ["timeout", "newthread", "threadpool", "eventloop"]


def gen_item(rng, at=0):
    how = rng.choice(["rel", "rel", "abs", "now"])
    delay = 0 if how == "now" else rng.choice([-1, 0, 1, 2, 2, 3])
    due = at + max(0, delay)
    disp = rng.choice([None, None, due - 1, due - 1, due, due + 1, at])
    if disp is not None:
        disp = max(at, disp)
    it = {"how": how, "delay": delay, "at": at, "disp": disp}
    if how in ("rel", "abs") and rng.random() < 0.25:
        # a delay given as a timedelta with a days part (and mixes of days / seconds / microseconds, also negative)
        td = rng.choice([[1, 0, 50000], [1, 2, 0], [2, 0, 0], [1, 86399, 999999], [-1, 2, 0], [-1, 86399, 0], [0, 1, 500000]])
        it["td"] = td
        tot = td[0] * 86400 + td[1] + td[2] / 1e6
        it["delay"] = tot
        due = at + max(0, tot)
        it["disp"] = rng.choice([None, None, int(due) - 1, int(due) + 1, at])
        if it["disp"] is not None:
            it["disp"] = max(at, it["disp"])
    if how == "abs" and rng.random() < 0.6:
        it["tz"] = rng.choice([-11, -5, -1, 2, 9])  # due time as an aware datetime in a non-UTC zone
    return it


def cases(rng, tier):
    n = fw.tier_scale(tier, 300, 3000)
    base = {}
    for _ in range(n):
        kind = rng.choice(KINDS)
        nitems = rng.choice([1, 1, 1, 2, 3])
        sc = {"type": "single" if nitems == 1 else "multi", "sched": kind,
              "items": [gen_item(rng, rng.choice([0, 0, 1]) if i else 0) for i in range(nitems)]}
        k = fw.key(sc)
        if k not in base:
            r0 = T.run_case(dict(sc, first=0, pre=[]))
            base[k] = (r0["steps"], r0["nthreads"])
        S, nt = max(2, base[k][0]), base[k][1]
        npre = rng.choice([0, 1, 2, 2, 3])
        steps = sorted(rng.sample(range(S), min(npre, S)))
        sc["first"] = 0
        sc["pre"] = [[s, rng.randrange(nt)] for s in steps]
        yield sc
    # the scheduler clock is stepped back while the event loop sleeps: its timed wait runs out (monotonic clock) before
    # the item is due on the scheduler clock
    for _ in range(fw.tier_scale(tier, 60, 600)):
        kind = rng.choice(["newthread", "threadpool", "eventloop"])
        d = rng.choice([2, 3, 4])
        sc = {"type": "single", "sched": kind, "skew": {"at": rng.randrange(0, d - 1) if d > 2 else 0, "by": rng.choice([1, 2, 3])},
              "items": [{"how": rng.choice(["rel", "abs"]), "delay": d, "at": 0, "disp": rng.choice([None, None, d - 1, d + 1])}]}
        k = fw.key(sc)
        if k not in base:
            r0 = T.run_case(dict(sc, first=0, pre=[]))
            base[k] = (r0["steps"], r0["nthreads"])
        S, nt = max(2, base[k][0]), base[k][1]
        steps = sorted(rng.sample(range(S), min(rng.choice([0, 1, 2]), S)))
        sc["first"] = 0
        sc["pre"] = [[s, rng.randrange(nt)] for s in steps]
        yield sc
    # periodic scheduling on NewThread / ThreadPool: ticks that overrun their period (or period 0), dispose mid-tick
    for _ in range(fw.tier_scale(tier, 60, 600)):
        period = rng.choice([0, 1, 2, 2])
        costs = [rng.choice([0, 1, period, period + 1, 2 * period + 1]) for _ in range(3)]
        sc = {"type": "periodic", "sched": rng.choice(["newthread", "threadpool"]), "items": [],
              "periodic": {"period": period, "costs": costs, "disp": rng.choice([0, 1, 2, 3, 4, 5])}}
        k = fw.key(sc)
        if k not in base:
            r0 = T.run_case(dict(sc, first=0, pre=[]))
            base[k] = (r0["steps"], r0["nthreads"])
        S, nt = max(2, base[k][0]), base[k][1]
        steps = sorted(rng.sample(range(S), min(rng.choice([0, 1, 2]), S)))
        sc["first"] = 0
        sc["pre"] = [[s, rng.randrange(nt)] for s in steps]
        yield sc
    # several relative actions queued at time 0 on ONE EventLoopScheduler thread: replayed in the n-item model
    for _ in range(fw.tier_scale(tier, 120, 1200)):
        nitems = rng.choice([2, 2, 3, 4])
        items = []
        for i in range(nitems):
            d = rng.choice([1, 1, 2, 2, 3])
            items.append({"how": "rel", "delay": d, "at": 0, "disp": rng.choice([None, None, d - 1, d - 1, d, d + 1, 0])})
        sc = {"type": "shared", "sched": "eventloop", "items": items}
        if rng.random() < 0.25 and min(it["delay"] for it in items) >= 2:
            sc["skew"] = {"at": 0, "by": rng.choice([1, 2])}
            for it in sc["items"]:
                it["disp"] = None if it["disp"] is None else max(1, it["disp"])
        k = fw.key(sc)
        if k not in base:
            r0 = T.run_case(dict(sc, first=0, pre=[]))
            base[k] = (r0["steps"], r0["nthreads"])
        S, nt = max(2, base[k][0]), base[k][1]
        npre = rng.choice([0, 1, 2, 2, 3])
        steps = sorted(rng.sample(range(S), min(npre, S)))
        sc["first"] = 0
        sc["pre"] = [[s, rng.randrange(nt)] for s in steps]
        yield sc
    # saturated thread pool: all workers busy, zero-delay actions queued in the executor, disposed before they start
    for _ in range(fw.tier_scale(tier, 40, 400)):
        items = [{"how": rng.choice(["now", "rel"]), "delay": 0, "at": rng.choice([0, 0, 1]), "disp": rng.choice([None, 0, 1, 1, 3])}
                 for _ in range(rng.choice([1, 2, 3]))]
        for it in items:
            if it["disp"] is not None:
                it["disp"] = max(it["disp"], it["at"])
        sc = {"type": "pool", "sched": "threadpool", "pool": {"workers": rng.choice([1, 1, 2]), "block": 2}, "items": items}
        k = fw.key(sc)
        if k not in base:
            r0 = T.run_case(dict(sc, first=0, pre=[]))
            base[k] = (r0["steps"], r0["nthreads"])
        S, nt = max(2, base[k][0]), base[k][1]
        steps = sorted(rng.sample(range(S), min(rng.choice([0, 1, 2]), S)))
        sc["first"] = 0
        sc["pre"] = [[s, rng.randrange(nt)] for s in steps]
        yield sc
    for _ in range(fw.tier_scale(tier, 60, 400)):
        how = rng.choice(["schedule", "relative", "absolute"])
        c = {"type": "imm", "how": how, "delay_us": rng.choice([-2000000, -1, 0, 0, 1, 500000, 3000000])}
        if how == "absolute" and rng.random() < 0.6:
            c["tz"] = rng.choice([-11, -5, -1, 2, 9])
        yield c


_CACHE = {}


def _run(case):
    k = fw.key(case)
    if k not in _CACHE:
        if len(_CACHE) > 4000:
            _CACHE.clear()
        r = T.run_case(case)
        if r["outcome"] == "hang":  # a loaded machine can starve a run: confirm before calling it a hang
            r = T.run_case(case, wall=40.0)
        _CACHE[k] = r
    return _CACHE[k]


def run_imm(case):
    from datetime import timedelta

    import reactivex.scheduler.scheduler as SCH
    from reactivex.internal.exceptions import WouldBlockException
    from reactivex.scheduler import ImmediateScheduler

    saved = SCH.default_now
    SCH.default_now = lambda: T.EPOCH
    ran = []
    try:
        s = ImmediateScheduler()
        act = lambda sc, st=None: ran.append(1)
        d = timedelta(microseconds=case["delay_us"])
        try:
            if case["how"] == "schedule":
                s.schedule(act)
            elif case["how"] == "relative":
                s.schedule_relative(d, act)
            else:
                when = T.EPOCH + d
                if case.get("tz") is not None:
                    from datetime import timezone

                    when = when.astimezone(timezone(timedelta(hours=case["tz"])))
                s.schedule_absolute(when, act)
            out = "ran" if ran else "returned-without-running"
        except WouldBlockException:
            out = "wouldblock" if not ran else "ran-and-raised"
    finally:
        SCH.default_now = saved
    return {"imm": out}


def impl(case):
    if case["type"] == "imm":
        return run_imm(case)
    r = _run(case)
    out = {k: r[k] for k in ("outcome", "starts", "disposed_at", "due", "sched_at", "steps", "preempted", "excs", "nthreads")}
    if case["type"] == "single" and r["outcome"] == "ok":
        cfg, evs = T.project(case, r)
        out["cfg"], out["events"] = cfg, evs
    out["timer_args"], out["ticks"], out["p_returned"] = r["timer_args"], r["ticks"], r["p_returned"]
    if case["type"] == "periodic" and r["outcome"] == "ok":
        out["periodic_labels"] = T.project_periodic(case, r)[1]
    if case["type"] == "shared" and r["outcome"] == "ok":
        _req, labels = T.project_shared(case, r)
        out["shared_labels"] = labels
    return out


def model_request(case):
    if case["type"] == "imm":
        if case["how"] == "schedule":
            return {"op": "imm", "how": "schedule"}
        if case["how"] == "relative":
            return {"op": "imm", "how": "relative", "delay": case["delay_us"]}
        return {"op": "imm", "how": "absolute", "due": case["delay_us"], "now": 0}
    if case["type"] == "shared":
        r = _run(case)
        return T.project_shared(case, r)[0] if r["outcome"] == "ok" else None
    if case["type"] == "periodic":
        r = _run(case)
        return T.project_periodic(case, r)[0] if r["outcome"] == "ok" else None
    if case["type"] != "single":
        return None
    r = _run(case)
    if r["outcome"] != "ok":
        return None
    cfg, evs = T.project(case, r)
    return {"op": "timer_replay", "kind": cfg["kind"], "immediate": cfg["immediate"], "sched": [e[0] for e in evs]}


def canon_impl(case, out):
    if case["type"] == "imm":
        return out["imm"]
    if case["type"] == "periodic":
        if "periodic_labels" not in out:
            return {"outcome": out["outcome"]}
        return {"labels": out["periodic_labels"], "bad": any(t["after_return"] for t in out["ticks"])}
    if case["type"] == "shared":
        if "shared_labels" not in out:
            return {"outcome": out["outcome"]}
        return {"labels": out["shared_labels"], "started": [bool(s) for s in out["starts"]]}
    if "events" not in out:
        return {"outcome": out["outcome"]}
    return {"labels": [e[1] for e in out["events"]], "started": bool(out["starts"][0])}


def canon_model(case, resp):
    if case["type"] == "imm":
        return resp
    if "error" in resp:
        return resp
    if case["type"] == "periodic":
        return {"labels": resp["labels"], "bad": resp["bad"]}
    if case["type"] == "shared":
        # the bottom step's label says whether the head was due; the real run shows it only through what follows
        return {"labels": ["bottom" if l.startswith("bottom-") else l for l in resp["labels"]], "started": resp["started"]}
    return {"labels": resp["labels"], "started": resp["started"]}


def verdict(case, out):
    if out["outcome"] == "hang":
        return ("hang", None)
    if out["outcome"] != "ok":
        return ("bad", f"run ended with {out['outcome']}")
    if out["excs"]:
        return ("bad", f"exception in a thread: {out['excs']}")
    if case.get("type") == "periodic":
        for k, t in enumerate(out["ticks"]):
            if t["after_return"]:
                return ("bad", f"periodic tick {k} (clock {t['clock']}) was let through by a read of the disposed flag made "
                               "after dispose() had returned, or without reading it")
        return ("ok", None)
    if case["sched"] == "timeout":
        # the instrumented Timer: it must be armed with due - now
        for i, arg in out["timer_args"]:
            due, at = out["due"][i], out["sched_at"][i]
            if abs(arg - (due - at)) > 1e-6:
                return ("bad", f"action {i}: threading.Timer armed with {arg} s, due time is {due - at} s away")
    for i, it in enumerate(case["items"]):
        st = out["starts"][i]
        due, disp = out["due"][i], out["disposed_at"][i]
        if len(st) > 1:
            return ("bad", f"action {i} started {len(st)} times")
        for s in st:
            if s["clock"] < due:
                return ("bad", f"action {i} started at clock {s['clock']}, before its due time {due}")
            if disp is not None and disp < due:
                return ("bad", f"action {i} started (clock {s['clock']}) although disposed at {disp}, before its due time {due}")
            if case.get("type") == "pool" and s.get("after_dispose_returned"):
                return ("bad", f"action {i} (queued in the saturated pool) was started at clock {s['clock']} after its dispose() "
                               f"had returned at {disp}: nothing read its disposable before invoking it")
        if not st and disp is None:
            return ("bad", f"action {i} was never disposed and never ran")
    return ("ok", None)


def oracle(case, out):
    if case["type"] == "imm":
        want = "wouldblock" if (case["how"] != "schedule" and case["delay_us"] > 0) else "ran"
        return None if out["imm"] == want else f"ImmediateScheduler.{case['how']}(delay {case['delay_us']}us): {out['imm']}, expected {want}"
    v, why = verdict(case, out)
    if v == "hang":
        raise RuntimeError("controller watchdog fired (harness hang)")
    return why


def nontrivial(case, out):
    if case["type"] == "imm":
        return True
    if case["type"] == "periodic":
        return len(out["ticks"]) > 0
    racing = any(d is not None and d <= due for d, due in zip(out["disposed_at"], out["due"]))
    return out["outcome"] == "ok" and (out["preempted"] > 0 or racing)


def bucket(case, out):
    if case["type"] == "imm":
        yield f"imm:{case['how']}:{out['imm']}"
        return
    yield f"sched:{case['sched']}"
    if case["type"] == "pool":
        yield "saturated-pool"
    if case["type"] == "periodic":
        pc = case["periodic"]
        yield "periodic:" + ("period0" if pc["period"] == 0 else "overrun" if any(c >= pc["period"] for c in pc["costs"]) else "in-time")
        yield f"periodic:ticks:{min(len(out['ticks']), 4)}"
        return
    if case.get("skew"):
        yield "clock-stepped-back"
    if any(it.get("td") for it in case["items"]):
        yield "delay-with-days"
    yield f"items:{len(case['items'])}"
    for it, st, d, due in zip(case["items"], out["starts"], out["disposed_at"], out["due"]):
        yield f"how:{it['how']}"
        yield ("started" if st else "not-started") + ("/disposed-early" if d is not None and d < due else
                                                      "/disposed-late" if d is not None else "/kept")
    yield f"preemptions:{len(case.get('pre', []))}"


def shrink(case):
    pre = case.get("pre", [])
    for i in range(len(pre)):
        yield dict(case, pre=pre[:i] + pre[i + 1:])


# ----------------------------------------------------------------------------------------------- search
def _rerun(case):
    return T.run_case(case, wall=40.0)


def explore_batch(batch):
    return X.explore_batch(batch, T.run_case, verdict, 2, _rerun)


def extra(rng, tier):
    t0 = time.time()
    quick = tier != "thorough"
    scs = []
    for kind in KINDS:
        for it in ({"how": "rel", "delay": 2, "at": 0, "disp": 1}, {"how": "rel", "delay": 1, "at": 0, "disp": 1},
                   {"how": "abs", "delay": 2, "at": 0, "disp": None}, {"how": "abs", "delay": 2, "at": 0, "disp": None, "tz": -5},
                   {"how": "now", "delay": 0, "at": 0, "disp": 0},
                   {"how": "rel", "delay": 0, "at": 0, "disp": 0}, {"how": "rel", "delay": 2, "at": 0, "disp": 0}):
            scs.append({"type": "single", "sched": kind, "items": [it]})
        scs.append({"type": "multi", "sched": kind, "items": [{"how": "rel", "delay": 2, "at": 0, "disp": 1},
                                                               {"how": "rel", "delay": 1, "at": 0, "disp": None}]})
        scs.append({"type": "single", "sched": kind, "items": [{"how": "rel", "delay": 86402, "td": [1, 2, 0], "at": 0, "disp": None}]})
        if kind != "timeout":
            scs.append({"type": "single", "sched": kind, "skew": {"at": 1, "by": 2},
                        "items": [{"how": "rel", "delay": 3, "at": 0, "disp": None}]})
        if kind == "threadpool":
            scs.append({"type": "pool", "sched": kind, "pool": {"workers": 1, "block": 2},
                        "items": [{"how": "now", "delay": 0, "at": 0, "disp": 1}, {"how": "rel", "delay": 0, "at": 0, "disp": None}]})
        if kind in ("newthread", "threadpool"):
            scs.append({"type": "periodic", "sched": kind, "items": [], "periodic": {"period": 1, "costs": [2, 2, 2], "disp": 3}})
            scs.append({"type": "periodic", "sched": kind, "items": [], "periodic": {"period": 0, "costs": [1, 1, 1], "disp": 1}})
    single = [sc for sc in scs if sc["type"] in ("single", "periodic", "pool")]
    multi = [sc for sc in scs if sc["type"] == "multi"]
    b1, i1 = X.plan(single, T.run_case, lambda sc: 2, ["all"] if quick else ["all", "all"], batch_runs=400, firsts=[0],
                    stride=3 if quick else 2)
    b2, i2 = X.plan(multi, T.run_case, lambda sc: 2, [] if quick else ["all"], batch_runs=400, firsts=[0])
    batches, info = b1 + b2, i1 + i2
    res = fw.pmap("props.C34", "explore_batch", batches, chunk=1)
    failures, runs, hang, nontriv = [], 0, 0, 0
    for r in res:
        if "harness_exception" in r:
            raise RuntimeError("explore_batch crashed: " + r["harness_exception"] + r.get("tb", ""))
        runs += r["runs"]
        hang += r["hang"]
        nontriv += r["nontrivial"]
        for b in r["bad"]:
            failures.append(fw.Failure("oracle", b["case"], b["why"]))
    if hang:
        raise RuntimeError(f"{hang} controller runs hit the wall-clock watchdog twice (harness hang)")
    cov = {"search_schedules": runs, "search_schedules_with_preemption": nontriv, "search_scenarios": len(scs),
           "search_rule": ("single action: every single preemption at every yield point x "
                           + ("every third second preemption point" if quick else "every second preemption x every other third")
                           + "; two actions: every single preemption" + ("" if quick else " x every second")),
           "search_plan": [{"sched": i["scenario"]["sched"], "items": i["scenario"]["items"], "yield_points": i["yield_points"],
                            "est_runs": i["est_runs"]} for i in info][:40],
           "search_wall_s": round(time.time() - t0, 1)}
    return {"failures": failures, "coverage": cov, "proof_failures": []}

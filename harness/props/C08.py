"""C08 — falsy values are ordinary elements (DESIGN.md §5 C08).

Three parts:

1. *Model correspondence on the falsy domain*: the C05 generators re-run with every element drawn from
   `{None, 0, 0.0, False, '', (), [], {}, 1, 'a'}`; real operator vs Lean model, compared by (type, repr);
   C05's list-computation oracle on the same cases.
2. *Real-code naturality oracle* (independent of the Lean model, covers operators of every family and the
   subjects): a pipeline is run on a timeline over the falsy domain (world A) and on the same timeline with
   every domain value replaced by an opaque, truthy token (world B; `[]`/`{}` become *unhashable* tokens; user
   callbacks are the same index-level tables in both worlds).  Mapping the tokens in B's output back must give
   A's output exactly — otherwise some value was treated specially.
3. *AST scan* of `reactivex/operators`, `reactivex/subject`, `reactivex/observable` for truthiness / `is None` /
   `or default` tests on variables fed from `on_next` arguments: candidate sites are listed in the evidence
   and the catalogue entries touching those files are sampled more often.
"""
import ast
import re
import sys

import fw
from fw import InjectedError, enc, err_name

from props import C05

LEAN_TARGETS = ["RxProofs.C08", "RxProofs.C20", "RxProofs.C21", "RxProofs.C22", "RxProofs.C23", "RxProofs.C08Agg"]
DRIVER = "drv_ops"
DRIVER_ROOT = "Ops"
THEOREMS = [
    "C08.take_natural", "C08.skip_natural", "C08.take_last_natural", "C08.skip_last_natural", "C08.take_last_buffer_natural",
    "C08.pairwise_natural", "C08.start_with_natural", "C08.default_if_empty_natural", "C08.ignore_elements_natural",
    "C08.element_at_natural", "C08.map_natural", "C08.map_indexed_natural", "C08.filter_natural", "C08.filter_indexed_natural",
    "C08.take_while_natural", "C08.skip_while_natural", "C08.take_while_indexed_natural", "C08.skip_while_indexed_natural", "C08.dematerialize_natural", "C08.distinct_natural", "C08.distinct_natural_inj",
    "C08.distinct_until_changed_natural", "C08.distinct_until_changed_natural_inj", "C08.find_natural", "C08.find_index_natural",
    "C08.materialize_natural",
    # timed operators and windows: naturality over the Timed / Win families' models
    "C08.timestamp_natural", "C08.time_interval_natural", "C08.delay_natural", "C08.throttle_first_natural", "C08.debounce_natural",
    "C08.sample_natural", "C08.window_with_count_natural",
    # subjects: the subject family's own naturality theorems (arbitrary renaming), audited here as well
    "C20.subject_natural", "C21.behavior_natural", "C22.replay_natural", "C23.async_natural",
    # aggregates: the Agg family's naturality theorems (module RxProofs.C08Agg, framework Agg.Op / Op.out)
    "C08Agg.scan_natural", "C08Agg.reduce_natural", "C08Agg.count_natural", "C08Agg.sum_by_natural", "C08Agg.average_natural",
    "C08Agg.max_by_natural", "C08Agg.min_by_natural", "C08Agg.max_natural", "C08Agg.min_natural", "C08Agg.to_list_natural",
    "C08Agg.to_set_natural", "C08Agg.to_dict_natural", "C08Agg.first_last_single_natural", "C08Agg.predicate_forms_natural",
    "C08Agg.some_natural", "C08Agg.is_empty_natural", "C08Agg.all_natural", "C08Agg.contains_natural",
    # structural obligations (regenerated tables)
    "C08.truthiness_sites_reviewed", "C08.pyval_models_empty", "C08.pyval_asis_only_skip_last", "C08.skip_last_asis_not_natural",
]
RULE = ("(1) C05's generator with every element, default, start value and callback result drawn from the falsy domain "
        "{None,0,0.0,False,'',(),[],{},1,'a'}; (2) naturality cases: one catalogue entry (operators of all families, subjects, factories), "
        "1-3 hot timelines over a ==-collision-free alphabet of the domain, run in the falsy world and in the token world, outputs compared "
        "after mapping tokens back. Non-trivial = at least one falsy element reaches the operator and the output is non-empty.")
ASSUMPTIONS = [
    "single-threaded / virtual-time execution",
    "naturality oracle: alphabets contain at most one of {0, 0.0, False} (they are == in Python, tokens are not); operators with built-in "
    "arithmetic/ordering on elements (sum, average, min, max without key) are outside the quantifier (not value-agnostic by design)",
    "find() yields None both for 'not found' and for a found None element: the API's own ambiguity, not counted",
    "Lean side: restricted to the operators of the Ops family (C05 catalogue); subjects and other families are covered by the real-code oracle only",
]
FALSY = [None, 0, 0.0, False, "", (), [], {}, 1, "a"]
ZEROISH = (1, 2, 3)  # indices of 0, 0.0, False
TSUB = 200


# ===================================================================================== part 0: regenerate
def regenerate():
    """RxGen/OpsPyVal.lean: which L1 model definitions ask for `[PyVal α]` (truthiness / is-None of an element)."""
    users, asis = [], []
    for p in sorted((fw.LEAN / "RxModel").glob("Ops*.lean")):
        src = fw.strip_lean_comments(p.read_text())
        for m in re.finditer(r"^def\s+(\w+)([^:=]*)", src, flags=re.M):
            if "PyVal" in m.group(2):
                (asis if m.group(1).endswith("AsIsOp") else users).append(m.group(1))
    lst = lambda xs: "[" + ", ".join('"%s"' % x for x in xs) + "]"  # noqa
    text = ("/-! REGENERATED on every run by harness/props/C08.py from lean/RxModel/Ops*.lean — do not edit.\n"
            "Which L1 model definitions ask for Python truthiness / `is None` of an *element* (`[PyVal α]`). -/\n"
            "namespace OpsPyVal\n"
            "/-- model definitions of operators as they are (after the proposed fixes) that need `[PyVal α]` -/\n"
            f"def users : List String := {lst(users)}\n"
            "/-- `…AsIsOp` replicas of pinned defects that need it -/\n"
            f"def asIs : List String := {lst(asis)}\n"
            "end OpsPyVal\n")
    out = fw.LEAN / "RxGen" / "OpsPyVal.lean"
    if not out.exists() or out.read_text() != text:
        out.write_text(text)
    sites = scan_sites()
    q = lambda x: '"' + x.replace("\\", "\\\\").replace('"', '\\"') + '"'  # noqa
    rows = ",\n  ".join("(%s, %s, %s, %s)" % tuple(q(x) for x in site_key(st)) for st in sites)
    text2 = ("/-! REGENERATED on every run by harness/props/C08.py from /repo/reactivex/{operators,subject,observable} — do not edit.\n"
             "Truthiness / `is None` / `or default` / None-sentinel tests on variables fed from `on_next` arguments\n"
             "(file, function, kind, expression). -/\n"
             "namespace OpsTruthiness\n"
             f"def sites : List (String × String × String × String) := [{rows}]\n"
             "end OpsTruthiness\n")
    out2 = fw.LEAN / "RxGen" / "OpsTruthiness.lean"
    if not out2.exists() or out2.read_text() != text2:
        out2.write_text(text2)
    return {"pyval_users": users, "pyval_asis": asis, "truthiness_sites": [list(site_key(st)) for st in sites]}


# ===================================================================================== part 2: the two worlds
class Tok:
    """an opaque, truthy, hashable stand-in for a domain value"""
    __slots__ = ("i",)

    def __init__(self, i):
        self.i = i

    def __repr__(self):
        return f"<tok{self.i}>"

    def __eq__(self, other):
        return isinstance(other, Tok) and other.i == self.i

    def __hash__(self):
        return hash(("tok", self.i))


class UTok(Tok):
    """stand-in for an unhashable domain value ([] and {})"""
    __slots__ = ()
    __hash__ = None


def _hashable(v):
    try:
        hash(v)
        return True
    except TypeError:
        return False


TOKENS = [Tok(i) if _hashable(v) else UTok(i) for i, v in enumerate(FALSY)]
_KEY = {(type(v).__name__, repr(v)): i for i, v in enumerate(FALSY)}


class World:
    def __init__(self, tokens):
        self.tokens = tokens

    def v(self, i):
        if self.tokens:
            return TOKENS[i]
        v = FALSY[i]
        return type(v)() if isinstance(v, (list, dict)) else v  # fresh [] / {} each time, like a literal

    def idx(self, x):
        if self.tokens:
            return x.i if isinstance(x, Tok) else None
        try:
            return _KEY.get((type(x).__name__, repr(x)))
        except Exception:
            return None

    def res(self, spec):
        k, a = spec
        if k == "v":
            return self.v(a)
        if k == "raise":
            raise InjectedError(a)
        return a  # "b" bool / "i" int

    def fn(self, tab, dflt):
        """unary callback given as {domain index: result spec}"""
        def f(x, *_):
            return self.res(tab.get(str(self.idx(x)), dflt))
        return f

    def back(self, x):
        """map tokens back to domain values, through the containers operators build"""
        from reactivex.notification import Notification

        if isinstance(x, Tok):
            return FALSY[x.i]
        if isinstance(x, Notification):
            if x.kind == "N":
                return (".N", self.back(x.value))
            return (".E", err_name(x.exception)) if x.kind == "E" else (".C",)
        if isinstance(x, tuple):
            return tuple(self.back(y) for y in x)
        if isinstance(x, list):
            return [self.back(y) for y in x]
        if isinstance(x, dict):
            return {self._hk(k): self.back(v) for k, v in x.items()}
        if isinstance(x, (set, frozenset)):
            return ("set",) + tuple(sorted((enc(self.back(y)) for y in x), key=fw.key))
        if isinstance(x, BaseException):
            return (".exc", err_name(x))
        return x

    def _hk(self, k):
        b = self.back(k)
        return b if _hashable(b) else ("unhashable", repr(b))


# ---- catalogue: name -> (builder(W, S, P, sched) -> Observable, files it exercises, needs) ---------------------
def _tupacc(acc, x):
    return acc + (x,)


def CATALOGUE():
    import reactivex as rx
    from reactivex import operators as ops

    C = {}

    def add(name, files, build, nsrc=1):
        C[name] = (build, files, nsrc)

    fn = lambda W, P, k: W.fn(P[k]["tab"], P[k]["dflt"])  # noqa
    add("map", ["_map"], lambda W, S, P, s: S[0].pipe(ops.map(fn(W, P, "map"))))
    add("map_indexed", ["_map", "_zip"], lambda W, S, P, s: S[0].pipe(ops.map_indexed(lambda x, i: (x, i))))
    add("filter", ["_filter"], lambda W, S, P, s: S[0].pipe(ops.filter(fn(W, P, "pred"))))
    add("filter_indexed", ["_filter"], lambda W, S, P, s: S[0].pipe(ops.filter_indexed(lambda x, i: i % 2 == 0)))
    add("take", ["_take"], lambda W, S, P, s: S[0].pipe(ops.take(P["n"])))
    add("skip", ["_skip"], lambda W, S, P, s: S[0].pipe(ops.skip(P["n"])))
    add("take_last", ["_takelast"], lambda W, S, P, s: S[0].pipe(ops.take_last(P["n"])))
    add("skip_last", ["_skiplast"], lambda W, S, P, s: S[0].pipe(ops.skip_last(P["n"])))
    add("take_last_buffer", ["_takelastbuffer"], lambda W, S, P, s: S[0].pipe(ops.take_last_buffer(P["n"])))
    add("take_while", ["_takewhile"], lambda W, S, P, s: S[0].pipe(ops.take_while(fn(W, P, "pred"), P["flag"])))
    add("skip_while", ["_skipwhile"], lambda W, S, P, s: S[0].pipe(ops.skip_while(fn(W, P, "pred"))))
    add("distinct", ["_distinct"], lambda W, S, P, s: S[0].pipe(ops.distinct()))
    add("distinct_key", ["_distinct"], lambda W, S, P, s: S[0].pipe(ops.distinct(fn(W, P, "map"))))
    add("distinct_until_changed", ["_distinctuntilchanged"], lambda W, S, P, s: S[0].pipe(ops.distinct_until_changed()))
    add("distinct_until_changed_key", ["_distinctuntilchanged"], lambda W, S, P, s: S[0].pipe(ops.distinct_until_changed(fn(W, P, "map"))))
    add("pairwise", ["_pairwise"], lambda W, S, P, s: S[0].pipe(ops.pairwise()))
    add("start_with", ["_startswith"], lambda W, S, P, s: S[0].pipe(ops.start_with(W.v(P["d"]), W.v(P["d2"]))))
    add("default_if_empty", ["_defaultifempty"], lambda W, S, P, s: S[0].pipe(ops.default_if_empty(W.v(P["d"]))))
    add("element_at", ["_elementatordefault"], lambda W, S, P, s: S[0].pipe(ops.element_at(P["n"])))
    add("element_at_or_default", ["_elementatordefault"], lambda W, S, P, s: S[0].pipe(ops.element_at_or_default(P["n"], W.v(P["d"]))))
    add("find_index", ["_find"], lambda W, S, P, s: S[0].pipe(ops.find_index(lambda x, i, src: fn(W, P, "pred")(x))))
    add("first", ["_first", "_firstordefault"], lambda W, S, P, s: S[0].pipe(ops.first()))
    add("first_pred", ["_first", "_firstordefault"], lambda W, S, P, s: S[0].pipe(ops.first(fn(W, P, "pred"))))
    add("first_or_default", ["_firstordefault"], lambda W, S, P, s: S[0].pipe(ops.first_or_default(None, W.v(P["d"]))))
    add("first_or_default_pred", ["_firstordefault"], lambda W, S, P, s: S[0].pipe(ops.first_or_default(fn(W, P, "pred"), W.v(P["d"]))))
    add("last", ["_last", "_lastordefault"], lambda W, S, P, s: S[0].pipe(ops.last()))
    add("last_pred", ["_last", "_lastordefault"], lambda W, S, P, s: S[0].pipe(ops.last(fn(W, P, "pred"))))
    add("last_or_default", ["_lastordefault"], lambda W, S, P, s: S[0].pipe(ops.last_or_default(W.v(P["d"]))))
    add("single", ["_single", "_singleordefault"], lambda W, S, P, s: S[0].pipe(ops.single()))
    add("single_or_default", ["_singleordefault"], lambda W, S, P, s: S[0].pipe(ops.single_or_default(None, W.v(P["d"]))))
    add("single_or_default_pred", ["_singleordefault"], lambda W, S, P, s: S[0].pipe(ops.single_or_default(fn(W, P, "pred"), W.v(P["d"]))))
    add("to_list", ["_toiterable"], lambda W, S, P, s: S[0].pipe(ops.to_list()))
    add("to_set", ["_toset"], lambda W, S, P, s: S[0].pipe(ops.to_set()))
    add("to_dict", ["_todict"], lambda W, S, P, s: S[0].pipe(ops.to_dict(fn(W, P, "map"))))
    add("to_dict_elem", ["_todict"], lambda W, S, P, s: S[0].pipe(ops.to_dict(lambda x: 7, lambda x: x)))
    add("count", ["_count"], lambda W, S, P, s: S[0].pipe(ops.count()))
    add("count_pred", ["_count"], lambda W, S, P, s: S[0].pipe(ops.count(fn(W, P, "pred"))))
    add("some", ["_some"], lambda W, S, P, s: S[0].pipe(ops.some()))
    add("some_pred", ["_some"], lambda W, S, P, s: S[0].pipe(ops.some(fn(W, P, "pred"))))
    add("all", ["_all"], lambda W, S, P, s: S[0].pipe(ops.all(fn(W, P, "pred"))))
    add("contains", ["_contains"], lambda W, S, P, s: S[0].pipe(ops.contains(W.v(P["d"]))))
    add("is_empty", ["_isempty"], lambda W, S, P, s: S[0].pipe(ops.is_empty()))
    add("sequence_equal", ["_sequenceequal"], lambda W, S, P, s: S[0].pipe(ops.sequence_equal(S[1])), 2)
    add("sequence_equal_iter", ["_sequenceequal"], lambda W, S, P, s: S[0].pipe(ops.sequence_equal([W.v(i) for i in P["seq"]])))
    add("reduce", ["_reduce", "_scan", "_lastordefault"], lambda W, S, P, s: S[0].pipe(ops.reduce(lambda a, x: (a, x))))
    add("reduce_seed", ["_reduce", "_scan"], lambda W, S, P, s: S[0].pipe(ops.reduce(_tupacc, ())))
    add("reduce_seed_falsy", ["_reduce", "_scan"], lambda W, S, P, s: S[0].pipe(ops.reduce(lambda a, x: x, W.v(P["d"]))))
    add("scan", ["_scan"], lambda W, S, P, s: S[0].pipe(ops.scan(lambda a, x: (a, x))))
    add("scan_seed", ["_scan"], lambda W, S, P, s: S[0].pipe(ops.scan(_tupacc, ())))
    add("scan_keep_first", ["_scan"], lambda W, S, P, s: S[0].pipe(ops.scan(lambda a, x: a)))
    add("scan_seed_falsy", ["_scan"], lambda W, S, P, s: S[0].pipe(ops.scan(lambda a, x: a, W.v(P["d"]))))
    add("min_by", ["_minby"], lambda W, S, P, s: S[0].pipe(ops.min_by(fn(W, P, "ikey"))))
    add("max_by", ["_maxby", "_minby"], lambda W, S, P, s: S[0].pipe(ops.max_by(fn(W, P, "ikey"))))
    add("group_by", ["_groupby", "_groupbyuntil"], lambda W, S, P, s: S[0].pipe(
        ops.group_by(fn(W, P, "map")), ops.flat_map(lambda g: g.pipe(ops.to_list(), ops.map(lambda l: (g.key, l))))))
    add("group_by_elem", ["_groupby", "_groupbyuntil"], lambda W, S, P, s: S[0].pipe(
        ops.group_by(lambda x: 1, fn(W, P, "map")), ops.flat_map(lambda g: g.pipe(ops.to_list()))))
    add("partition", ["_partition"], lambda W, S, P, s: rx.merge(*[o.pipe(ops.map(lambda x, k=k: (k, x)))
                                                                 for k, o in enumerate(S[0].pipe(ops.partition(fn(W, P, "pred"))))]))
    add("buffer_with_count", ["_buffer", "_windowwithcount"], lambda W, S, P, s: S[0].pipe(ops.buffer_with_count(P["n"] + 1)))
    add("buffer_with_count_skip", ["_buffer", "_windowwithcount"], lambda W, S, P, s: S[0].pipe(ops.buffer_with_count(P["n"] + 1, P["n2"] + 1)))
    add("window_with_count", ["_windowwithcount"], lambda W, S, P, s: S[0].pipe(ops.window_with_count(P["n"] + 1), ops.flat_map(lambda w: w.pipe(ops.to_list()))))
    add("zip", ["zip"], lambda W, S, P, s: S[0].pipe(ops.zip(S[1])), 2)
    add("zip_with_iterable", ["_zip"], lambda W, S, P, s: S[0].pipe(ops.zip_with_iterable([W.v(i) for i in P["seq"]])))
    add("combine_latest", ["combinelatest"], lambda W, S, P, s: S[0].pipe(ops.combine_latest(S[1])), 2)
    add("with_latest_from", ["withlatestfrom"], lambda W, S, P, s: S[0].pipe(ops.with_latest_from(S[1])), 2)
    add("fork_join", ["forkjoin"], lambda W, S, P, s: S[0].pipe(ops.fork_join(S[1])), 2)
    dur = lambda s, t: (lambda _: rx.timer(t, scheduler=s))  # noqa  a duration window that closes t ticks after its element
    add("join", ["_join"], lambda W, S, P, s: S[0].pipe(ops.join(S[1], dur(s, P["t"]), dur(s, P["t2"]))), 2)
    add("join_swapped", ["_join"], lambda W, S, P, s: S[1].pipe(ops.join(S[0], dur(s, P["t2"]), dur(s, P["t"]))), 2)
    add("group_join", ["_groupjoin"], lambda W, S, P, s: S[0].pipe(
        ops.group_join(S[1], dur(s, P["t"]), dur(s, P["t2"])),
        ops.flat_map(lambda t: t[1].pipe(ops.to_list(), ops.map(lambda l: (t[0], l))))), 2)
    add("buffer_toggle", ["_buffer", "_window", "_groupjoin"], lambda W, S, P, s: S[0].pipe(ops.buffer_toggle(S[1], dur(s, P["t"]))), 2)
    add("window_toggle", ["_window", "_groupjoin"], lambda W, S, P, s: S[0].pipe(
        ops.window_toggle(S[1], dur(s, P["t"])), ops.flat_map(lambda w: w.pipe(ops.to_list()))), 2)
    add("buffer_when", ["_buffer", "_window"], lambda W, S, P, s: S[0].pipe(ops.buffer_when(lambda: rx.timer(P["t"] + 5, scheduler=s))))
    add("last_pred_none_default", ["_last", "_lastordefault"], lambda W, S, P, s: S[0].pipe(ops.last_or_default(None, fn(W, P, "pred"))))
    add("merge", ["_merge", "merge"], lambda W, S, P, s: S[0].pipe(ops.merge(S[1])), 2)
    add("concat", ["concat"], lambda W, S, P, s: S[0].pipe(ops.concat(S[1])), 2)
    add("amb", ["_amb"], lambda W, S, P, s: S[0].pipe(ops.amb(S[1])), 2)
    add("switch_latest", ["_switchlatest"], lambda W, S, P, s: S[0].pipe(ops.map(lambda x: S[1]), ops.switch_latest()), 2)
    add("flat_map", ["_flatmap", "_merge"], lambda W, S, P, s: S[0].pipe(ops.flat_map(lambda x: rx.of(x, x))))
    add("flat_map_iterable", ["_flatmap"], lambda W, S, P, s: S[0].pipe(ops.flat_map(lambda x: [x, x])))
    add("concat_map", ["_concatmap"], lambda W, S, P, s: S[0].pipe(ops.concat_map(lambda x: rx.return_value(x))))
    add("switch_map", ["_switchmap"], lambda W, S, P, s: S[0].pipe(ops.switch_map(lambda x: rx.return_value(x))))
    add("catch", ["_catch", "catch"], lambda W, S, P, s: S[0].pipe(ops.catch(S[1])), 2)
    add("on_error_resume_next", ["onerrorresumenext"], lambda W, S, P, s: S[0].pipe(ops.on_error_resume_next(S[1])), 2)
    add("retry", ["_retry"], lambda W, S, P, s: S[2].pipe(ops.retry(2)), 3)
    add("repeat", ["_repeat"], lambda W, S, P, s: S[2].pipe(ops.repeat(2)), 3)
    add("do_action", ["_do"], lambda W, S, P, s: S[0].pipe(ops.do_action(lambda x: None)))
    add("delay", ["_delay"], lambda W, S, P, s: S[0].pipe(ops.delay(P["t"])))
    add("delay_subscription", ["_delaysubscription", "_delaywithmapper"], lambda W, S, P, s: S[2].pipe(ops.delay_subscription(P["t"])), 3)
    add("debounce", ["_debounce"], lambda W, S, P, s: S[0].pipe(ops.debounce(P["t"])))
    add("throttle_first", ["_throttlefirst"], lambda W, S, P, s: S[0].pipe(ops.throttle_first(P["t"])))
    add("sample", ["_sample"], lambda W, S, P, s: S[0].pipe(ops.sample(P["t"] + 5)))
    add("sample_obs", ["_sample"], lambda W, S, P, s: S[0].pipe(ops.sample(S[1])), 2)
    add("timestamp", ["_timestamp"], lambda W, S, P, s: S[0].pipe(ops.timestamp(), ops.map(lambda t: t.value)))
    add("time_interval", ["_timeinterval"], lambda W, S, P, s: S[0].pipe(ops.time_interval(), ops.map(lambda t: t.value)))
    add("timeout", ["_timeout"], lambda W, S, P, s: S[0].pipe(ops.timeout(P["t"] + 10, S[1])), 2)
    add("take_until", ["_takeuntil"], lambda W, S, P, s: S[0].pipe(ops.take_until(S[1])), 2)
    add("skip_until", ["_skipuntil"], lambda W, S, P, s: S[0].pipe(ops.skip_until(S[1])), 2)
    add("take_with_time", ["_takewithtime"], lambda W, S, P, s: S[0].pipe(ops.take_with_time(P["t"] + 20)))
    add("skip_with_time", ["_skipwithtime"], lambda W, S, P, s: S[0].pipe(ops.skip_with_time(P["t"] + 20)))
    add("take_last_with_time", ["_takelastwithtime"], lambda W, S, P, s: S[0].pipe(ops.take_last_with_time(P["t"] + 20)))
    add("skip_last_with_time", ["_skiplastwithtime"], lambda W, S, P, s: S[0].pipe(ops.skip_last_with_time(P["t"] + 20)))
    add("buffer_with_time", ["_bufferwithtime", "_windowwithtime"], lambda W, S, P, s: S[0].pipe(ops.buffer_with_time(P["t"] + 20)))
    add("buffer_with_time_or_count", ["_bufferwithtimeorcount", "_windowwithtimeorcount"], lambda W, S, P, s: S[0].pipe(ops.buffer_with_time_or_count(P["t"] + 30, P["n"] + 1)))
    add("buffer_boundaries", ["_buffer", "_window"], lambda W, S, P, s: S[0].pipe(ops.buffer(S[1])), 2)
    add("materialize", ["_materialize"], lambda W, S, P, s: S[0].pipe(ops.materialize()))
    add("materialize_dematerialize", ["_materialize", "_dematerialize"], lambda W, S, P, s: S[0].pipe(ops.materialize(), ops.dematerialize()))
    add("share", ["_publish", "_refcount", "_multicast"], lambda W, S, P, s: S[0].pipe(ops.share()))
    add("publish_value", ["_publishvalue"], lambda W, S, P, s: S[0].pipe(ops.publish_value(W.v(P["d"])), ops.ref_count()))
    add("replay", ["_replay"], lambda W, S, P, s: S[0].pipe(ops.replay(buffer_size=P["n"] + 1), ops.ref_count()))
    add("pluck", ["_pluck"], lambda W, S, P, s: S[0].pipe(ops.map(lambda x: {"k": x}), ops.pluck("k")))
    add("starmap", ["_map"], lambda W, S, P, s: S[0].pipe(ops.map(lambda x: (x, x)), ops.starmap(lambda a, b: (b, a))))
    add("slice", ["_slice"], lambda W, S, P, s: S[0].pipe(ops.slice(P["n"] - 2, None if P["flag"] else P["n2"], None)))
    add("ignore_elements", ["_ignoreelements"], lambda W, S, P, s: S[0].pipe(ops.ignore_elements()))
    add("as_observable", ["_asobservable"], lambda W, S, P, s: S[0].pipe(ops.as_observable()))
    add("finally_action", ["_finallyaction"], lambda W, S, P, s: S[0].pipe(ops.finally_action(lambda: None)))
    # factories
    add("of", ["fromiterable"], lambda W, S, P, s: rx.of(*[W.v(i) for i in P["seq"]]))
    add("from_iterable", ["fromiterable"], lambda W, S, P, s: rx.from_iterable([W.v(i) for i in P["seq"]]))
    add("return_value", ["returnvalue"], lambda W, S, P, s: rx.return_value(W.v(P["d"])))
    add("repeat_value", ["repeat"], lambda W, S, P, s: rx.repeat_value(W.v(P["d"]), P["n"]))
    add("start", ["start", "toasync"], lambda W, S, P, s: rx.start(lambda: W.v(P["d"]), s))
    add("from_callable", ["returnvalue"], lambda W, S, P, s: rx.from_callable(lambda: W.v(P["d"])))
    add("generate", ["generate"], lambda W, S, P, s: rx.generate(0, lambda i: i < len(P["seq"]), lambda i: i + 1).pipe(ops.map(lambda i: W.v(P["seq"][i]))))
    # marble sources whose lookup VALUES range over the domain (a marble mapped to a falsy element is still that element)
    def marbles(P):
        names = ["a", "b", "c", "d", "e", "1", "2"]
        return "-" + "-".join(names[k % len(names)] for k in range(len(P["seq"]))) + ("-|" if P["flag"] else "-")

    def lookup(W, P):
        names = ["a", "b", "c", "d", "e", 1, 2]  # numeric marbles are looked up as numbers
        return {names[k % len(names)]: W.v(i) for k, i in enumerate(P["seq"][:7])}

    add("from_marbles", ["marbles"], lambda W, S, P, s: rx.from_marbles(marbles(P), timespan=10, lookup=lookup(W, P), scheduler=s))
    add("cold_marbles", ["marbles"], lambda W, S, P, s: rx.cold(marbles(P), timespan=10, lookup=lookup(W, P), scheduler=s))
    add("hot_marbles", ["marbles"], lambda W, S, P, s: rx.hot(marbles(P), timespan=10, duetime=205, lookup=lookup(W, P), scheduler=s))
    add("if_then", ["ifthen", "case"], lambda W, S, P, s: rx.if_then(lambda: P["flag"], S[0], S[1]), 2)
    add("defer", ["defer"], lambda W, S, P, s: rx.defer(lambda sch: S[0]))
    return C


SUBJECTS = ["Subject", "BehaviorSubject", "ReplaySubject", "ReplaySubject_window", "AsyncSubject", "run_last", "to_future_like_first", "to_future"]


def _rand_timeline(rng, alphabet, hot=True):
    n = rng.choice([0, 1, 2, 3, 4, 6])
    t = 205 if hot else 5
    out = []
    for _ in range(n):
        t += rng.choice([5, 10, 10, 20])
        out.append([t, ["N", rng.choice(alphabet)]])
    if out and rng.random() < 0.5:
        # the LAST element before the terminal is where "no value yet" sentinels show: make it falsy, None first
        fa = [i for i in alphabet if i < 8]
        if fa:
            out[-1][1] = ["N", 0 if (0 in alphabet and rng.random() < 0.6) else rng.choice(fa)]
    k = rng.choice(["C", "C", "C", "E", "open"])
    t += rng.choice([5, 10])
    if k == "C":
        out.append([t, ["C"]])
    elif k == "E":
        out.append([t, ["E", "src"]])
    return out


def gen_nat_case(rng, weights=None):
    names = sorted(CATALOGUE_NAMES)
    entry = rng.choices(names, weights=[(weights or {}).get(n, 1) for n in names])[0] if rng.random() < 0.75 else "subject:" + rng.choice(SUBJECTS)
    zero = rng.choice(ZEROISH)
    pool = [i for i in range(len(FALSY)) if i not in ZEROISH or i == zero]
    alphabet = rng.sample(pool, rng.choice([1, 2, 3, 4]))
    if 0 not in alphabet and rng.random() < 0.4:
        alphabet[rng.randrange(len(alphabet))] = 0  # None is the value most often confused with "absent"
    spec_v = lambda: ["v", rng.choice(pool)]  # noqa

    def table(result):
        return {"tab": {str(i): result() for i in alphabet}, "dflt": result()}

    P = {"n": rng.choice([0, 1, 1, 2, 3]), "n2": rng.choice([0, 1, 2, 5]), "t": rng.choice([5, 10, 20, 30]), "t2": rng.choice([5, 10, 15, 30]),
         "flag": rng.random() < 0.5,
         "d": rng.choice(pool), "d2": rng.choice(pool), "seq": [rng.choice(alphabet) for _ in range(rng.choice([0, 1, 2, 4, 6]))],
         "pred": table(lambda: (["raise", "cb"] if rng.random() < 0.04 else ["b", rng.random() < 0.6])),
         "map": table(spec_v), "ikey": table(lambda: ["i", rng.randrange(3)])}
    case = {"op": "nat", "entry": entry, "alphabet": alphabet, "P": P,
            "srcs": [_rand_timeline(rng, alphabet), _rand_timeline(rng, alphabet), _rand_timeline(rng, alphabet, hot=False)]}
    if entry.startswith("subject:"):
        # observers subscribed BEFORE and AFTER the terminal; the last value before the terminal (and the
        # BehaviorSubject's initial value) is biased towards the falsy values, None first
        falsy = [i for i in pool if i < 8]
        if rng.random() < 0.6 and 0 not in alphabet:
            alphabet[rng.randrange(len(alphabet))] = 0
        if rng.random() < 0.5:
            P["d"] = 0 if rng.random() < 0.5 else rng.choice(falsy)
        case["alphabet"] = alphabet
        script, nobs = [], 0
        for _ in range(rng.choice([0, 1, 1, 2])):
            script.append(["sub", nobs]); nobs += 1
        for _ in range(rng.choice([0, 1, 2, 3, 5])):
            r = rng.random()
            if r < 0.7:
                script.append(["next", rng.choice(alphabet)])
            elif r < 0.85 and nobs < 4:
                script.append(["sub", nobs]); nobs += 1
            elif nobs:
                script.append(["unsub", rng.randrange(nobs)])
        if rng.random() < 0.75:
            fa = [i for i in alphabet if i < 8]
            script.append(["next", 0 if (0 in alphabet and rng.random() < 0.5) else rng.choice(fa or alphabet)])
        term = rng.choice(["done", "done", "done", "done", "err", None])
        if term:
            script.append([term])
        for _ in range(rng.choice([1, 1, 2])):
            if rng.random() < 0.3:
                script.append(["next", rng.choice(alphabet)])
            script.append(["sub", nobs]); nobs += 1
        if rng.random() < 0.2:
            script.append(["done"])
            script.append(["sub", nobs]); nobs += 1
        case["script"] = script
    return case


CATALOGUE_NAMES = None


def _init_names():
    global CATALOGUE_NAMES
    if CATALOGUE_NAMES is None:
        CATALOGUE_NAMES = list(CATALOGUE().keys())


_init_names()


def run_world(case, tokens):
    from reactivex.scheduler import VirtualTimeScheduler
    from reactivex.testing import ReactiveTest, TestScheduler

    W = World(tokens)
    if case["entry"].startswith("subject:"):
        return run_subject(case, W)
    build, files, nsrc = CATALOGUE()[case["entry"]]
    sched = TestScheduler()

    def mk(tl, hot):
        rec = []
        for t, n in tl:
            if n[0] == "N":
                rec.append(ReactiveTest.on_next(t, W.v(n[1])))
            elif n[0] == "E":
                rec.append(ReactiveTest.on_error(t, InjectedError(n[1])))
            else:
                rec.append(ReactiveTest.on_completed(t))
        return sched.create_hot_observable(*rec) if hot else sched.create_cold_observable(*rec)

    S = [mk(case["srcs"][0], True), mk(case["srcs"][1], True), mk(case["srcs"][2], False)]
    out = []
    try:
        obs = build(W, S, case["P"], sched)
    except Exception as e:
        return {"build": err_name(e)}
    disp = []

    def sub(s, st):
        disp.append(obs.subscribe(lambda v: out.append([int(sched.clock), ["N", enc(W.back(v))]]),
                                  lambda e: out.append([int(sched.clock), ["E", err_name(e)]]),
                                  lambda: out.append([int(sched.clock), ["C"]]), scheduler=sched))
    sched.schedule_absolute(TSUB, sub)
    sched.schedule_absolute(1000, lambda s, st: [d.dispose() for d in disp])
    esc = []
    for _ in range(30):
        try:
            VirtualTimeScheduler.start(sched)
            break
        except Exception as e:
            esc.append([int(sched.clock), err_name(e)])
            sched._is_enabled = False
    return {"out": out, "esc": esc}


def run_subject(case, W):
    import reactivex as rx
    from reactivex import operators as ops
    from reactivex.subject import AsyncSubject, BehaviorSubject, ReplaySubject, Subject
    from reactivex.testing import TestScheduler

    kind = case["entry"].split(":")[1]
    P = case["P"]
    if kind == "run_last":
        try:
            return {"out": enc(W.back(rx.of(*[W.v(i) for i in P["seq"]]).run()))}
        except Exception as e:
            return {"out": ["raised", err_name(e)]}
    if kind == "to_future":
        import concurrent.futures

        try:
            fut = rx.of(*[W.v(i) for i in P["seq"]]).pipe(ops.to_future(lambda: concurrent.futures.Future()))
            return {"out": enc(W.back(fut.result(timeout=5)))}
        except Exception as e:
            return {"out": ["raised", err_name(e)]}
    if kind == "to_future_like_first":
        try:
            return {"out": enc(W.back(rx.of(*[W.v(i) for i in P["seq"]]).pipe(ops.first()).run()))}
        except Exception as e:
            return {"out": ["raised", err_name(e)]}
    sched = TestScheduler()
    subj = {"Subject": lambda: Subject(), "BehaviorSubject": lambda: BehaviorSubject(W.v(P["d"])),
            "ReplaySubject": lambda: ReplaySubject(P["n"] + 1, scheduler=sched), "ReplaySubject_window": lambda: ReplaySubject(window=100, scheduler=sched),
            "AsyncSubject": lambda: AsyncSubject()}[kind]()
    logs, subs = {}, {}
    for step in case["script"]:
        try:
            if step[0] == "sub":
                k = step[1]
                logs[k] = []
                subs[k] = subj.subscribe(lambda v, k=k: logs[k].append(["N", enc(W.back(v))]), lambda e, k=k: logs[k].append(["E", err_name(e)]),
                                         lambda k=k: logs[k].append(["C"]), scheduler=sched)
            elif step[0] == "next":
                subj.on_next(W.v(step[1]))
            elif step[0] == "done":
                subj.on_completed()
            elif step[0] == "err":
                subj.on_error(InjectedError("subj"))
            elif step[0] == "unsub":
                subs[step[1]].dispose()
            sched.advance_by(1)
        except Exception as e:
            logs.setdefault("raised", []).append([step[0], err_name(e)])
    if kind == "BehaviorSubject":
        try:
            logs["value"] = enc(W.back(subj.value))
        except Exception as e:
            logs["value"] = ["raised", err_name(e)]
    return {"out": {str(k): v for k, v in logs.items()}}


# ===================================================================================== property-module interface
def cases(rng, tier):
    for _ in range(fw.tier_scale(tier, 2000, 30000)):
        yield C05.gen_case(rng, vals=FALSY)
    weights = _site_weights()
    for _ in range(fw.tier_scale(tier, 3000, 40000)):
        yield gen_nat_case(rng, weights)


def impl(case):
    if case["op"] == "nat":
        return {"A": run_world(case, False), "B": run_world(case, True)}
    return C05.impl(case)


def model_request(case):
    return None if case["op"] == "nat" else case


def canon_impl(case, out):
    return out if case["op"] == "nat" else C05.canon_impl(case, out)


def oracle(case, out):
    if case["op"] != "nat":
        return C05.oracle(case, out)
    if fw.key(out["A"]) != fw.key(out["B"]):
        return (f"{case['entry']}: falsy-domain run differs from the token run mapped back — falsy: {str(out['A'])[:400]} "
                f"tokens: {str(out['B'])[:400]}")
    if isinstance(out["A"], dict) and out["A"].get("esc"):
        return None  # exceptions escaping to the scheduler identically in both worlds are C09's subject
    return None


def nontrivial(case, out):
    if case["op"] != "nat":
        return C05.nontrivial(case, out)
    a = out["A"].get("out")
    falsy_in = any(i < 8 for i in case["alphabet"])
    return bool(a) and falsy_in


def bucket(case, out):
    if case["op"] != "nat":
        yield "model:" + case["name"]
        return
    yield "nat:" + case["entry"]
    if "build" in out["A"]:
        yield "nat-build-failed:" + case["entry"]


def shrink(case):
    if case["op"] != "nat":
        yield from C05.shrink(case)
        return
    for s in range(len(case["srcs"])):
        for i in range(len(case["srcs"][s])):
            c = dict(case)
            c["srcs"] = [list(x) for x in case["srcs"]]
            del c["srcs"][s][i]
            yield c
    if "script" in case:
        for i in range(len(case["script"]) - 1):
            c = dict(case)
            c["script"] = case["script"][:i] + case["script"][i + 1:]
            if all(st[0] != "unsub" or any(x == ["sub", st[1]] for x in c["script"][:j]) for j, st in enumerate(c["script"])):
                yield c


# ===================================================================================== part 3: AST scan
# Reviewed sites are listed (with their justification) in lean/RxProofs/C08.lean `allowedTruthinessSites`; the scan
# itself already leaves out tests that are not about an element's value: emptiness tests of containers that hold
# elements (`while q:`), tests of freshly built tuples (`pair = (previous, x) … if pair:`), results of user predicates.
from pathlib import Path

SEED_FUNCS = ("on_next", "_on_next", "projection")

def expr_key(e):
    """tracked name of an expression: Name -> 'x'; x[...] -> 'x'; self.a -> 'self.a'; self.a[...] -> 'self.a'"""
    if isinstance(e, ast.Name):
        return e.id
    if isinstance(e, ast.Subscript):
        return expr_key(e.value)
    if isinstance(e, ast.Attribute) and isinstance(e.value, ast.Name) and e.value.id == "self":
        return "self." + e.attr
    if isinstance(e, ast.Starred):
        return expr_key(e.value)
    return None

def scan_scope(rel, scope_name, funcs, sites):
    """funcs: all FunctionDef/Lambda nodes of one closure scope (an outer function with its nested handlers, or a class)"""
    tainted, containers, containers2, none_names = set(), set(), set(), set()  # containers2: X where X[i] is itself a container of elements
    seeds = []
    sub_first = set()
    for f in funcs:
        for node in ast.walk(f):
            if isinstance(node, ast.Call) and isinstance(node.func, ast.Attribute) and node.func.attr in ("subscribe", "subscribe_safe") and node.args:
                a = node.args[0]
                if isinstance(a, ast.Name):
                    sub_first.add(a.id)
    for f in funcs:
        name = getattr(f, "name", "<lambda>")
        if name.startswith(SEED_FUNCS) or name in sub_first:
            ps = [a.arg for a in f.args.args if a.arg not in ("self", "scheduler", "state", "_", "i", "index")]
            if name in sub_first and not name.startswith(SEED_FUNCS):
                ps = ps[:1]
            seeds.append((f, ps))
            tainted.update(ps[:1] if ps else [])
    if not seeds:
        return

    def holds_elements(e):
        """e denotes a container whose ITEMS are elements: a tracked container, or X[i] for a container of containers"""
        if isinstance(e, ast.Subscript):
            k = expr_key(e.value)
            return isinstance(e.value, (ast.Name, ast.Attribute)) and k is not None and k in containers2
        k = expr_key(e)
        return k is not None and k in containers

    def is_t(e):
        """can the value of `e` BE an element?  (a container of elements tested for emptiness is not)"""
        if e is None:
            return False
        if isinstance(e, ast.IfExp):
            return is_t(e.body) or is_t(e.orelse)
        if isinstance(e, ast.Call) and isinstance(e.func, ast.Name) and e.func.id == "cast" and len(e.args) == 2:
            return is_t(e.args[1])
        if isinstance(e, ast.Call) and isinstance(e.func, ast.Attribute) and e.func.attr in ("pop", "popleft", "get"):
            return holds_elements(e.func.value) or is_t(e.func.value)
        if isinstance(e, (ast.Tuple, ast.List)):
            return False  # a freshly built container is never falsy-by-element
        if isinstance(e, ast.Subscript):
            return holds_elements(e.value) or (isinstance(e.value, (ast.Name, ast.Attribute)) and expr_key(e.value) in tainted)
        k = expr_key(e)
        return k is not None and k in tainted

    for f in funcs:  # parameters that default to None act as None sentinels (`value[0] is default_value`)
        a = f.args
        pos = a.posonlyargs + a.args
        for arg, dflt in list(zip(pos[len(pos) - len(a.defaults):], a.defaults)) + list(zip(a.kwonlyargs, a.kw_defaults)):
            if isinstance(dflt, ast.Constant) and dflt.value is None:
                none_names.add(arg.arg)
    for _ in range(4):
        for f in funcs:
            for node in ast.walk(f):
                if isinstance(node, (ast.Assign, ast.AnnAssign, ast.AugAssign)):
                    tgts = node.targets if isinstance(node, ast.Assign) else [node.target]
                    val = node.value
                    if val is None:
                        continue
                    flat = []
                    for t in tgts:
                        if isinstance(t, (ast.Tuple, ast.List)) and isinstance(val, (ast.Tuple, ast.List)) and len(t.elts) == len(val.elts):
                            flat += list(zip(t.elts, val.elts))
                        else:
                            flat.append((t, val))
                    for t, v in flat:
                        k = expr_key(t)
                        if k is None:
                            continue
                        if is_t(v):
                            if isinstance(t, ast.Subscript):
                                (containers2 if isinstance(t.value, ast.Subscript) else containers).add(k)
                            else:
                                tainted.add(k)
                        if isinstance(v, ast.Constant) and v.value is None and isinstance(t, ast.Name):
                            none_names.add(k)
                if isinstance(node, (ast.For, ast.comprehension)) and isinstance(node.target, ast.Name) and holds_elements(node.iter):
                    tainted.add(node.target.id)  # a loop variable over a container of elements is an element
                if isinstance(node, ast.Call) and isinstance(node.func, ast.Attribute) and node.func.attr in ("append", "add", "put", "appendleft", "insert"):
                    if any(is_t(a) for a in node.args):
                        k = expr_key(node.func.value)
                        if k:
                            (containers2 if isinstance(node.func.value, ast.Subscript) else containers).add(k)
        # what a seed function returns / what is emitted downstream is element-like
        for f, ps in seeds:
            for node in ast.walk(f):
                if isinstance(node, ast.Return) and node.value is not None:
                    k = expr_key(node.value)
                    if k and isinstance(node.value, (ast.Name,)):
                        tainted.add(k)
    none_names -= {k for k in none_names if False}

    def add(kind, fn, node, e):
        sites.append({"file": rel, "scope": scope_name, "function": getattr(fn, "name", "<lambda>"), "kind": kind,
                      "expr": ast.unparse(e), "line": node.lineno})

    for f in funcs:
        own = [n for n in ast.walk(f)]
        for node in own:
            tests = []
            if isinstance(node, (ast.If, ast.While, ast.IfExp)):
                tests.append(node.test)
            if isinstance(node, ast.Assert):
                tests.append(node.test)
            for t in tests:
                stack = [t]
                while stack:
                    x = stack.pop()
                    if isinstance(x, ast.UnaryOp) and isinstance(x.op, ast.Not):
                        stack.append(x.operand)
                    elif isinstance(x, ast.BoolOp):
                        stack += x.values
                    elif is_t(x) and (not isinstance(x, ast.Call) or (isinstance(x.func, ast.Attribute) and x.func.attr in ("get", "pop", "popleft"))):
                        add("truthiness", f, node, x)  # incl. `if d.get(k):` / `if q.pop():` on a container that holds elements
            if isinstance(node, ast.Compare) and len(node.ops) == 1:
                l, r, op = node.left, node.comparators[0], node.ops[0]
                def is_none(e):
                    return (isinstance(e, ast.Constant) and e.value is None) or (isinstance(e, ast.Name) and e.id in none_names and e.id not in tainted)
                if isinstance(op, (ast.Is, ast.IsNot, ast.Eq, ast.NotEq)):
                    if (is_t(l) and is_none(r)) or (is_t(r) and is_none(l)):
                        add("is-none", f, node, node)
                if isinstance(op, (ast.In, ast.NotIn)) and is_none(l) and (is_t(r) or holds_elements(r)):
                    add("none-sentinel", f, node, node)
            if isinstance(node, ast.BoolOp) and isinstance(node.op, ast.Or) and is_t(node.values[0]):
                add("or-default", f, node, node)

def scan_sites(repo=None):
    sites = []
    base = Path(repo or fw.REPO) / "reactivex"
    for d in ("operators", "subject", "observable"):
        for p in sorted((base / d).rglob("*.py")):
            try:
                tree = ast.parse(p.read_text())
            except SyntaxError:
                continue
            rel = str(p.relative_to(base))
            # scopes: every top-level function (with everything nested) and every class
            for top in tree.body:
                if isinstance(top, (ast.FunctionDef, ast.ClassDef)):
                    funcs = [n for n in ast.walk(top) if isinstance(n, (ast.FunctionDef, ast.Lambda))]
                    scan_scope(rel, top.name, funcs, sites)
    best = {}
    for s in sites:  # the same node is seen from every enclosing function: keep the innermost (walked last)
        best[(s["file"], s["kind"], s["expr"], s["line"])] = s
    seen, out = set(), []
    for s in best.values():
        k = (s["file"], s["function"], s["kind"], s["expr"])
        if k not in seen:
            seen.add(k); out.append(s)
    return sorted(out, key=lambda s: (s["file"], s["line"]))



def site_key(s):
    return (s["file"], s["function"], s["kind"], s["expr"])


def allowed_sites():
    """the allow-list, read from the Lean source (the obligation itself is checked by `decide` at lake build)"""
    src = (fw.LEAN / "RxProofs" / "C08.lean").read_text()
    m = re.search(r"def allowedTruthinessSites[^\n]*:=\s*\[(.*?)\]\s*\n\s*\ntheorem", src, flags=re.S)
    return set(tuple(t) for t in re.findall(r'\("([^"]*)",\s*"([^"]*)",\s*"([^"]*)",\s*"([^"]*)"\)', m.group(1))) if m else set()


_SITES = None


def _site_weights():
    """catalogue entries exercising a file with an unreviewed candidate site are sampled 4x as often"""
    global _SITES
    if _SITES is None:
        try:
            _SITES = scan_sites()
        except Exception:
            _SITES = []
    ok = allowed_sites()
    hot = {re.sub(r"\.py$", "", s["file"].split("/")[-1]) for s in _SITES if site_key(s) not in ok}
    w = {}
    for n, (b, files, k) in CATALOGUE().items():
        if any(f in hot for f in files):
            w[n] = 4
    return w


def extra(rng, tier):
    sites = scan_sites()
    ok = allowed_sites()
    unreviewed = [s for s in sites if site_key(s) not in ok]
    cat = CATALOGUE()
    covered_files = sorted({f for b, files, k in cat.values() for f in files})
    return {"failures": [], "proof_failures": [],
            "coverage": {"ast_candidate_sites": sites, "ast_unreviewed_sites": unreviewed, "catalogue_entries": len(cat) + len(SUBJECTS),
                         "catalogue_files": covered_files, "falsy_domain": [repr(v) for v in FALSY]}}


def search(rng, tier, disagreeing):
    """failing-input search when an obligation broke (typically: a new truthiness site in the regenerated table):
    aim the naturality oracle at the catalogue entries / subject scripts that exercise the flagged files."""
    try:
        sites = [s for s in scan_sites() if site_key(s) not in allowed_sites()]
    except Exception:
        sites = []
    hot = {re.sub(r"\.py$", "", s["file"].split("/")[-1]) for s in sites}
    subj = any(s["file"].startswith("subject/") for s in sites)
    w = {n: (200 if any(f in hot for f in files) else 1) for n, (b, files, k) in CATALOGUE().items()}
    for i in range(fw.tier_scale(tier, 6000, 30000)):
        c = gen_nat_case(rng, w)
        if subj and i % 2 == 0 and not c["entry"].startswith("subject:"):
            continue
        out = impl(c)
        v = oracle(c, out)
        if v:
            f = fw.shrink_failure(sys.modules[__name__], fw.Failure("oracle", c, v))
            return f
    for c in disagreeing[:50]:
        v = oracle(c, impl(c))
        if v:
            return fw.Failure("oracle", c, v)
    return None


LEVEL_TEXT = ("Lean theorems: naturality — renaming the elements (injective only where the operator compares elements; callbacks transported "
              "along the renaming) commutes with the operator, for every input: (Ops family, corollaries of the C05 op_eq theorems, any raw input, "
              "with/without lagging disposal) take, skip, take_last, skip_last (fixed), take_last_buffer, pairwise, start_with, default_if_empty, "
              "ignore_elements, element_at(_or_default), map, map_indexed, filter(+indexed), take_while(+indexed), skip_while(+indexed), distinct, "
              "distinct_until_changed, find, find_index, materialize, dematerialize; (Timed/Win families' models) timestamp, time_interval, delay, "
              "throttle_first, debounce, sample, window_with_count/buffer_with_count contents; (subject family's theorems, audited here too) Subject, "
              "BehaviorSubject, ReplaySubject, AsyncSubject; (Agg family's theorems, module C08Agg, audited here too) scan, reduce, count, sum/average "
              "by key, min/max(_by), to_list, to_set, to_dict, first/last/single (+_or_default, predicate forms), some, all, is_empty, contains. Structural obligations re-checked on every run: truthiness_sites_reviewed (AST scan of "
              "/repo: no truthiness / is-None / or-default / None-sentinel test on a variable fed from on_next arguments outside the allow-list, "
              "`decide` over the regenerated table) and pyval_models_empty. Real code: C05 differential runs on the falsy domain + a "
              "model-independent naturality oracle over ~125 operators/factories/subject scripts (observers before and after the terminal).")
LEVEL_NOTE = ("Proof-level catalogue = the operators named above. sequence_equal and the unhashable to_set/to_dict variants, combinators (merge/zip/combine_latest/…), grouping, "
              "timeout/take_until-style operators, the other window kinds and connectables have no naturality theorem here: they are covered by the "
              "truthiness-site obligation (static) and the real-code naturality oracle (exploration, not proof). delay_natural needs non-decreasing "
              "times (as C15.delay_shift does); timed naturality goes through the Timed family's Run=Spec theorems (imports RxProofs.C15/C16/C18, "
              "models read-only). scan (used only by slice) has no separate naturality theorem. skip_last is the fixed one; "
              "skip_last_asis_not_natural shows the pinned one is not natural. The PyVal table is regenerated from the Lean model sources; the "
              "truthiness table from /repo (fail closed: a new site breaks `lake build`; `search` then aims the oracle at the flagged files).")

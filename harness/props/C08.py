"""C08 — falsy values are ordinary elements (DESIGN.md §5 C08).

Three parts:

1. *Model correspondence on the falsy domain*: the C05 generators re-run with every element drawn from
   `{None, 0, 0.0, False, '', (), [], {}, 1, 'a'}`; real operator vs Lean model, compared by (type, repr);
   C05's list-computation oracle on the same cases.
2. *Real-code naturality oracle* (independent of the Lean model, covers operators of every family and the
   subjects): a pipeline is run on a timeline over the falsy domain (world A) and on the same timeline with
   every domain value replaced by an opaque, truthy token (world B; `[]`/`{}` become *unhashable* tokens; user
   callbacks are the same index-level tables in both worlds).  Mapping the tokens in B's output back must give
   A's output exactly — otherwise some value was treated specially.
3. *AST scan* of `reactivex/operators`, `reactivex/subject`, `reactivex/observable` for truthiness / `is None` /
   `or default` tests on variables fed from `on_next` arguments: candidate sites are listed in the evidence
   and the catalogue entries touching those files are sampled more often.
"""
import ast
import re

import fw
from fw import InjectedError, enc, err_name

from props import C05

LEAN_TARGETS = ["RxProofs.C08"]
DRIVER = "drv_ops"
DRIVER_ROOT = "Ops"
THEOREMS = [
    "C08.take_natural", "C08.skip_natural", "C08.take_last_natural", "C08.skip_last_natural", "C08.take_last_buffer_natural",
    "C08.pairwise_natural", "C08.start_with_natural", "C08.default_if_empty_natural", "C08.ignore_elements_natural",
    "C08.element_at_natural", "C08.map_natural", "C08.map_indexed_natural", "C08.filter_natural", "C08.filter_indexed_natural",
    "C08.take_while_natural", "C08.skip_while_natural", "C08.take_while_indexed_natural", "C08.skip_while_indexed_natural", "C08.dematerialize_natural", "C08.distinct_natural", "C08.distinct_natural_inj",
    "C08.distinct_until_changed_natural", "C08.distinct_until_changed_natural_inj", "C08.find_natural", "C08.find_index_natural",
    "C08.materialize_natural", "C08.pyval_models_empty", "C08.pyval_asis_only_skip_last", "C08.skip_last_asis_not_natural",
]
RULE = ("(1) C05's generator with every element, default, start value and callback result drawn from the falsy domain "
        "{None,0,0.0,False,'',(),[],{},1,'a'}; (2) naturality cases: one catalogue entry (operators of all families, subjects, factories), "
        "1-3 hot timelines over a ==-collision-free alphabet of the domain, run in the falsy world and in the token world, outputs compared "
        "after mapping tokens back. Non-trivial = at least one falsy element reaches the operator and the output is non-empty.")
ASSUMPTIONS = [
    "single-threaded / virtual-time execution",
    "naturality oracle: alphabets contain at most one of {0, 0.0, False} (they are == in Python, tokens are not); operators with built-in "
    "arithmetic/ordering on elements (sum, average, min, max without key) are outside the quantifier (not value-agnostic by design)",
    "find() yields None both for 'not found' and for a found None element: the API's own ambiguity, not counted",
    "Lean side: restricted to the operators of the Ops family (C05 catalogue); subjects and other families are covered by the real-code oracle only",
]
FALSY = [None, 0, 0.0, False, "", (), [], {}, 1, "a"]
ZEROISH = (1, 2, 3)  # indices of 0, 0.0, False
TSUB = 200


# ===================================================================================== part 0: regenerate
def regenerate():
    """RxGen/OpsPyVal.lean: which L1 model definitions ask for `[PyVal α]` (truthiness / is-None of an element)."""
    users, asis = [], []
    for p in sorted((fw.LEAN / "RxModel").glob("Ops*.lean")):
        src = fw.strip_lean_comments(p.read_text())
        for m in re.finditer(r"^def\s+(\w+)([^:=]*)", src, flags=re.M):
            if "PyVal" in m.group(2):
                (asis if m.group(1).endswith("AsIsOp") else users).append(m.group(1))
    lst = lambda xs: "[" + ", ".join('"%s"' % x for x in xs) + "]"  # noqa
    text = ("/-! REGENERATED on every run by harness/props/C08.py from lean/RxModel/Ops*.lean — do not edit.\n"
            "Which L1 model definitions ask for Python truthiness / `is None` of an *element* (`[PyVal α]`). -/\n"
            "namespace OpsPyVal\n"
            "/-- model definitions of operators as they are (after the proposed fixes) that need `[PyVal α]` -/\n"
            f"def users : List String := {lst(users)}\n"
            "/-- `…AsIsOp` replicas of pinned defects that need it -/\n"
            f"def asIs : List String := {lst(asis)}\n"
            "end OpsPyVal\n")
    out = fw.LEAN / "RxGen" / "OpsPyVal.lean"
    if not out.exists() or out.read_text() != text:
        out.write_text(text)
    return {"pyval_users": users, "pyval_asis": asis}


# ===================================================================================== part 2: the two worlds
class Tok:
    """an opaque, truthy, hashable stand-in for a domain value"""
    __slots__ = ("i",)

    def __init__(self, i):
        self.i = i

    def __repr__(self):
        return f"<tok{self.i}>"

    def __eq__(self, other):
        return isinstance(other, Tok) and other.i == self.i

    def __hash__(self):
        return hash(("tok", self.i))


class UTok(Tok):
    """stand-in for an unhashable domain value ([] and {})"""
    __slots__ = ()
    __hash__ = None


def _hashable(v):
    try:
        hash(v)
        return True
    except TypeError:
        return False


TOKENS = [Tok(i) if _hashable(v) else UTok(i) for i, v in enumerate(FALSY)]
_KEY = {(type(v).__name__, repr(v)): i for i, v in enumerate(FALSY)}


class World:
    def __init__(self, tokens):
        self.tokens = tokens

    def v(self, i):
        if self.tokens:
            return TOKENS[i]
        v = FALSY[i]
        return type(v)() if isinstance(v, (list, dict)) else v  # fresh [] / {} each time, like a literal

    def idx(self, x):
        if self.tokens:
            return x.i if isinstance(x, Tok) else None
        try:
            return _KEY.get((type(x).__name__, repr(x)))
        except Exception:
            return None

    def res(self, spec):
        k, a = spec
        if k == "v":
            return self.v(a)
        if k == "raise":
            raise InjectedError(a)
        return a  # "b" bool / "i" int

    def fn(self, tab, dflt):
        """unary callback given as {domain index: result spec}"""
        def f(x, *_):
            return self.res(tab.get(str(self.idx(x)), dflt))
        return f

    def back(self, x):
        """map tokens back to domain values, through the containers operators build"""
        from reactivex.notification import Notification

        if isinstance(x, Tok):
            return FALSY[x.i]
        if isinstance(x, Notification):
            if x.kind == "N":
                return (".N", self.back(x.value))
            return (".E", err_name(x.exception)) if x.kind == "E" else (".C",)
        if isinstance(x, tuple):
            return tuple(self.back(y) for y in x)
        if isinstance(x, list):
            return [self.back(y) for y in x]
        if isinstance(x, dict):
            return {self._hk(k): self.back(v) for k, v in x.items()}
        if isinstance(x, (set, frozenset)):
            return ("set",) + tuple(sorted((enc(self.back(y)) for y in x), key=fw.key))
        if isinstance(x, BaseException):
            return (".exc", err_name(x))
        return x

    def _hk(self, k):
        b = self.back(k)
        return b if _hashable(b) else ("unhashable", repr(b))


# ---- catalogue: name -> (builder(W, S, P, sched) -> Observable, files it exercises, needs) ---------------------
def _tupacc(acc, x):
    return acc + (x,)


def CATALOGUE():
    import reactivex as rx
    from reactivex import operators as ops

    C = {}

    def add(name, files, build, nsrc=1):
        C[name] = (build, files, nsrc)

    fn = lambda W, P, k: W.fn(P[k]["tab"], P[k]["dflt"])  # noqa
    add("map", ["_map"], lambda W, S, P, s: S[0].pipe(ops.map(fn(W, P, "map"))))
    add("map_indexed", ["_map", "_zip"], lambda W, S, P, s: S[0].pipe(ops.map_indexed(lambda x, i: (x, i))))
    add("filter", ["_filter"], lambda W, S, P, s: S[0].pipe(ops.filter(fn(W, P, "pred"))))
    add("filter_indexed", ["_filter"], lambda W, S, P, s: S[0].pipe(ops.filter_indexed(lambda x, i: i % 2 == 0)))
    add("take", ["_take"], lambda W, S, P, s: S[0].pipe(ops.take(P["n"])))
    add("skip", ["_skip"], lambda W, S, P, s: S[0].pipe(ops.skip(P["n"])))
    add("take_last", ["_takelast"], lambda W, S, P, s: S[0].pipe(ops.take_last(P["n"])))
    add("skip_last", ["_skiplast"], lambda W, S, P, s: S[0].pipe(ops.skip_last(P["n"])))
    add("take_last_buffer", ["_takelastbuffer"], lambda W, S, P, s: S[0].pipe(ops.take_last_buffer(P["n"])))
    add("take_while", ["_takewhile"], lambda W, S, P, s: S[0].pipe(ops.take_while(fn(W, P, "pred"), P["flag"])))
    add("skip_while", ["_skipwhile"], lambda W, S, P, s: S[0].pipe(ops.skip_while(fn(W, P, "pred"))))
    add("distinct", ["_distinct"], lambda W, S, P, s: S[0].pipe(ops.distinct()))
    add("distinct_key", ["_distinct"], lambda W, S, P, s: S[0].pipe(ops.distinct(fn(W, P, "map"))))
    add("distinct_until_changed", ["_distinctuntilchanged"], lambda W, S, P, s: S[0].pipe(ops.distinct_until_changed()))
    add("distinct_until_changed_key", ["_distinctuntilchanged"], lambda W, S, P, s: S[0].pipe(ops.distinct_until_changed(fn(W, P, "map"))))
    add("pairwise", ["_pairwise"], lambda W, S, P, s: S[0].pipe(ops.pairwise()))
    add("start_with", ["_startswith"], lambda W, S, P, s: S[0].pipe(ops.start_with(W.v(P["d"]), W.v(P["d2"]))))
    add("default_if_empty", ["_defaultifempty"], lambda W, S, P, s: S[0].pipe(ops.default_if_empty(W.v(P["d"]))))
    add("element_at", ["_elementatordefault"], lambda W, S, P, s: S[0].pipe(ops.element_at(P["n"])))
    add("element_at_or_default", ["_elementatordefault"], lambda W, S, P, s: S[0].pipe(ops.element_at_or_default(P["n"], W.v(P["d"]))))
    add("find_index", ["_find"], lambda W, S, P, s: S[0].pipe(ops.find_index(lambda x, i, src: fn(W, P, "pred")(x))))
    add("first", ["_first", "_firstordefault"], lambda W, S, P, s: S[0].pipe(ops.first()))
    add("first_pred", ["_first", "_firstordefault"], lambda W, S, P, s: S[0].pipe(ops.first(fn(W, P, "pred"))))
    add("first_or_default", ["_firstordefault"], lambda W, S, P, s: S[0].pipe(ops.first_or_default(None, W.v(P["d"]))))
    add("first_or_default_pred", ["_firstordefault"], lambda W, S, P, s: S[0].pipe(ops.first_or_default(fn(W, P, "pred"), W.v(P["d"]))))
    add("last", ["_last", "_lastordefault"], lambda W, S, P, s: S[0].pipe(ops.last()))
    add("last_pred", ["_last", "_lastordefault"], lambda W, S, P, s: S[0].pipe(ops.last(fn(W, P, "pred"))))
    add("last_or_default", ["_lastordefault"], lambda W, S, P, s: S[0].pipe(ops.last_or_default(W.v(P["d"]))))
    add("single", ["_single", "_singleordefault"], lambda W, S, P, s: S[0].pipe(ops.single()))
    add("single_or_default", ["_singleordefault"], lambda W, S, P, s: S[0].pipe(ops.single_or_default(None, W.v(P["d"]))))
    add("single_or_default_pred", ["_singleordefault"], lambda W, S, P, s: S[0].pipe(ops.single_or_default(fn(W, P, "pred"), W.v(P["d"]))))
    add("to_list", ["_toiterable"], lambda W, S, P, s: S[0].pipe(ops.to_list()))
    add("to_set", ["_toset"], lambda W, S, P, s: S[0].pipe(ops.to_set()))
    add("to_dict", ["_todict"], lambda W, S, P, s: S[0].pipe(ops.to_dict(fn(W, P, "map"))))
    add("to_dict_elem", ["_todict"], lambda W, S, P, s: S[0].pipe(ops.to_dict(lambda x: 7, lambda x: x)))
    add("count", ["_count"], lambda W, S, P, s: S[0].pipe(ops.count()))
    add("count_pred", ["_count"], lambda W, S, P, s: S[0].pipe(ops.count(fn(W, P, "pred"))))
    add("some", ["_some"], lambda W, S, P, s: S[0].pipe(ops.some()))
    add("some_pred", ["_some"], lambda W, S, P, s: S[0].pipe(ops.some(fn(W, P, "pred"))))
    add("all", ["_all"], lambda W, S, P, s: S[0].pipe(ops.all(fn(W, P, "pred"))))
    add("contains", ["_contains"], lambda W, S, P, s: S[0].pipe(ops.contains(W.v(P["d"]))))
    add("is_empty", ["_isempty"], lambda W, S, P, s: S[0].pipe(ops.is_empty()))
    add("sequence_equal", ["_sequenceequal"], lambda W, S, P, s: S[0].pipe(ops.sequence_equal(S[1])), 2)
    add("sequence_equal_iter", ["_sequenceequal"], lambda W, S, P, s: S[0].pipe(ops.sequence_equal([W.v(i) for i in P["seq"]])))
    add("reduce", ["_reduce", "_scan", "_lastordefault"], lambda W, S, P, s: S[0].pipe(ops.reduce(lambda a, x: (a, x))))
    add("reduce_seed", ["_reduce", "_scan"], lambda W, S, P, s: S[0].pipe(ops.reduce(_tupacc, ())))
    add("reduce_seed_falsy", ["_reduce", "_scan"], lambda W, S, P, s: S[0].pipe(ops.reduce(lambda a, x: x, W.v(P["d"]))))
    add("scan", ["_scan"], lambda W, S, P, s: S[0].pipe(ops.scan(lambda a, x: (a, x))))
    add("scan_seed", ["_scan"], lambda W, S, P, s: S[0].pipe(ops.scan(_tupacc, ())))
    add("scan_keep_first", ["_scan"], lambda W, S, P, s: S[0].pipe(ops.scan(lambda a, x: a)))
    add("scan_seed_falsy", ["_scan"], lambda W, S, P, s: S[0].pipe(ops.scan(lambda a, x: a, W.v(P["d"]))))
    add("min_by", ["_minby"], lambda W, S, P, s: S[0].pipe(ops.min_by(fn(W, P, "ikey"))))
    add("max_by", ["_maxby", "_minby"], lambda W, S, P, s: S[0].pipe(ops.max_by(fn(W, P, "ikey"))))
    add("group_by", ["_groupby", "_groupbyuntil"], lambda W, S, P, s: S[0].pipe(
        ops.group_by(fn(W, P, "map")), ops.flat_map(lambda g: g.pipe(ops.to_list(), ops.map(lambda l: (g.key, l))))))
    add("group_by_elem", ["_groupby", "_groupbyuntil"], lambda W, S, P, s: S[0].pipe(
        ops.group_by(lambda x: 1, fn(W, P, "map")), ops.flat_map(lambda g: g.pipe(ops.to_list()))))
    add("partition", ["_partition"], lambda W, S, P, s: rx.merge(*[o.pipe(ops.map(lambda x, k=k: (k, x)))
                                                                 for k, o in enumerate(S[0].pipe(ops.partition(fn(W, P, "pred"))))]))
    add("buffer_with_count", ["_buffer", "_windowwithcount"], lambda W, S, P, s: S[0].pipe(ops.buffer_with_count(P["n"] + 1)))
    add("buffer_with_count_skip", ["_buffer", "_windowwithcount"], lambda W, S, P, s: S[0].pipe(ops.buffer_with_count(P["n"] + 1, P["n2"] + 1)))
    add("window_with_count", ["_windowwithcount"], lambda W, S, P, s: S[0].pipe(ops.window_with_count(P["n"] + 1), ops.flat_map(lambda w: w.pipe(ops.to_list()))))
    add("zip", ["zip"], lambda W, S, P, s: S[0].pipe(ops.zip(S[1])), 2)
    add("zip_with_iterable", ["_zip"], lambda W, S, P, s: S[0].pipe(ops.zip_with_iterable([W.v(i) for i in P["seq"]])))
    add("combine_latest", ["combinelatest"], lambda W, S, P, s: S[0].pipe(ops.combine_latest(S[1])), 2)
    add("with_latest_from", ["withlatestfrom"], lambda W, S, P, s: S[0].pipe(ops.with_latest_from(S[1])), 2)
    add("fork_join", ["forkjoin"], lambda W, S, P, s: S[0].pipe(ops.fork_join(S[1])), 2)
    add("merge", ["_merge", "merge"], lambda W, S, P, s: S[0].pipe(ops.merge(S[1])), 2)
    add("concat", ["concat"], lambda W, S, P, s: S[0].pipe(ops.concat(S[1])), 2)
    add("amb", ["_amb"], lambda W, S, P, s: S[0].pipe(ops.amb(S[1])), 2)
    add("switch_latest", ["_switchlatest"], lambda W, S, P, s: S[0].pipe(ops.map(lambda x: S[1]), ops.switch_latest()), 2)
    add("flat_map", ["_flatmap", "_merge"], lambda W, S, P, s: S[0].pipe(ops.flat_map(lambda x: rx.of(x, x))))
    add("flat_map_iterable", ["_flatmap"], lambda W, S, P, s: S[0].pipe(ops.flat_map(lambda x: [x, x])))
    add("concat_map", ["_concatmap"], lambda W, S, P, s: S[0].pipe(ops.concat_map(lambda x: rx.return_value(x))))
    add("switch_map", ["_switchmap"], lambda W, S, P, s: S[0].pipe(ops.switch_map(lambda x: rx.return_value(x))))
    add("catch", ["_catch", "catch"], lambda W, S, P, s: S[0].pipe(ops.catch(S[1])), 2)
    add("on_error_resume_next", ["onerrorresumenext"], lambda W, S, P, s: S[0].pipe(ops.on_error_resume_next(S[1])), 2)
    add("retry", ["_retry"], lambda W, S, P, s: S[2].pipe(ops.retry(2)), 3)
    add("repeat", ["_repeat"], lambda W, S, P, s: S[2].pipe(ops.repeat(2)), 3)
    add("do_action", ["_do"], lambda W, S, P, s: S[0].pipe(ops.do_action(lambda x: None)))
    add("delay", ["_delay"], lambda W, S, P, s: S[0].pipe(ops.delay(P["t"])))
    add("delay_subscription", ["_delaysubscription", "_delaywithmapper"], lambda W, S, P, s: S[2].pipe(ops.delay_subscription(P["t"])), 3)
    add("debounce", ["_debounce"], lambda W, S, P, s: S[0].pipe(ops.debounce(P["t"])))
    add("throttle_first", ["_throttlefirst"], lambda W, S, P, s: S[0].pipe(ops.throttle_first(P["t"])))
    add("sample", ["_sample"], lambda W, S, P, s: S[0].pipe(ops.sample(P["t"] + 5)))
    add("sample_obs", ["_sample"], lambda W, S, P, s: S[0].pipe(ops.sample(S[1])), 2)
    add("timestamp", ["_timestamp"], lambda W, S, P, s: S[0].pipe(ops.timestamp(), ops.map(lambda t: t.value)))
    add("time_interval", ["_timeinterval"], lambda W, S, P, s: S[0].pipe(ops.time_interval(), ops.map(lambda t: t.value)))
    add("timeout", ["_timeout"], lambda W, S, P, s: S[0].pipe(ops.timeout(P["t"] + 10, S[1])), 2)
    add("take_until", ["_takeuntil"], lambda W, S, P, s: S[0].pipe(ops.take_until(S[1])), 2)
    add("skip_until", ["_skipuntil"], lambda W, S, P, s: S[0].pipe(ops.skip_until(S[1])), 2)
    add("take_with_time", ["_takewithtime"], lambda W, S, P, s: S[0].pipe(ops.take_with_time(P["t"] + 20)))
    add("skip_with_time", ["_skipwithtime"], lambda W, S, P, s: S[0].pipe(ops.skip_with_time(P["t"] + 20)))
    add("take_last_with_time", ["_takelastwithtime"], lambda W, S, P, s: S[0].pipe(ops.take_last_with_time(P["t"] + 20)))
    add("skip_last_with_time", ["_skiplastwithtime"], lambda W, S, P, s: S[0].pipe(ops.skip_last_with_time(P["t"] + 20)))
    add("buffer_with_time", ["_bufferwithtime", "_windowwithtime"], lambda W, S, P, s: S[0].pipe(ops.buffer_with_time(P["t"] + 20)))
    add("buffer_with_time_or_count", ["_bufferwithtimeorcount", "_windowwithtimeorcount"], lambda W, S, P, s: S[0].pipe(ops.buffer_with_time_or_count(P["t"] + 30, P["n"] + 1)))
    add("buffer_boundaries", ["_buffer", "_window"], lambda W, S, P, s: S[0].pipe(ops.buffer(S[1])), 2)
    add("materialize", ["_materialize"], lambda W, S, P, s: S[0].pipe(ops.materialize()))
    add("materialize_dematerialize", ["_materialize", "_dematerialize"], lambda W, S, P, s: S[0].pipe(ops.materialize(), ops.dematerialize()))
    add("share", ["_publish", "_refcount", "_multicast"], lambda W, S, P, s: S[0].pipe(ops.share()))
    add("publish_value", ["_publishvalue"], lambda W, S, P, s: S[0].pipe(ops.publish_value(W.v(P["d"])), ops.ref_count()))
    add("replay", ["_replay"], lambda W, S, P, s: S[0].pipe(ops.replay(buffer_size=P["n"] + 1), ops.ref_count()))
    add("pluck", ["_pluck"], lambda W, S, P, s: S[0].pipe(ops.map(lambda x: {"k": x}), ops.pluck("k")))
    add("starmap", ["_map"], lambda W, S, P, s: S[0].pipe(ops.map(lambda x: (x, x)), ops.starmap(lambda a, b: (b, a))))
    add("slice", ["_slice"], lambda W, S, P, s: S[0].pipe(ops.slice(P["n"] - 2, None if P["flag"] else P["n2"], None)))
    add("ignore_elements", ["_ignoreelements"], lambda W, S, P, s: S[0].pipe(ops.ignore_elements()))
    add("as_observable", ["_asobservable"], lambda W, S, P, s: S[0].pipe(ops.as_observable()))
    add("finally_action", ["_finallyaction"], lambda W, S, P, s: S[0].pipe(ops.finally_action(lambda: None)))
    # factories
    add("of", ["fromiterable"], lambda W, S, P, s: rx.of(*[W.v(i) for i in P["seq"]]))
    add("from_iterable", ["fromiterable"], lambda W, S, P, s: rx.from_iterable([W.v(i) for i in P["seq"]]))
    add("return_value", ["returnvalue"], lambda W, S, P, s: rx.return_value(W.v(P["d"])))
    add("repeat_value", ["repeat"], lambda W, S, P, s: rx.repeat_value(W.v(P["d"]), P["n"]))
    add("start", ["start", "toasync"], lambda W, S, P, s: rx.start(lambda: W.v(P["d"]), s))
    add("from_callable", ["returnvalue"], lambda W, S, P, s: rx.from_callable(lambda: W.v(P["d"])))
    add("generate", ["generate"], lambda W, S, P, s: rx.generate(0, lambda i: i < len(P["seq"]), lambda i: i + 1).pipe(ops.map(lambda i: W.v(P["seq"][i]))))
    add("if_then", ["ifthen", "case"], lambda W, S, P, s: rx.if_then(lambda: P["flag"], S[0], S[1]), 2)
    add("defer", ["defer"], lambda W, S, P, s: rx.defer(lambda sch: S[0]))
    return C


SUBJECTS = ["Subject", "BehaviorSubject", "ReplaySubject", "ReplaySubject_window", "AsyncSubject", "run_last", "to_future_like_first"]


def _rand_timeline(rng, alphabet, hot=True):
    n = rng.choice([0, 1, 2, 3, 4, 6])
    t = 205 if hot else 5
    out = []
    for _ in range(n):
        t += rng.choice([5, 10, 10, 20])
        out.append([t, ["N", rng.choice(alphabet)]])
    k = rng.choice(["C", "C", "C", "E", "open"])
    t += rng.choice([5, 10])
    if k == "C":
        out.append([t, ["C"]])
    elif k == "E":
        out.append([t, ["E", "src"]])
    return out


def gen_nat_case(rng, weights=None):
    names = sorted(CATALOGUE_NAMES)
    entry = rng.choices(names, weights=[(weights or {}).get(n, 1) for n in names])[0] if rng.random() < 0.75 else "subject:" + rng.choice(SUBJECTS)
    zero = rng.choice(ZEROISH)
    pool = [i for i in range(len(FALSY)) if i not in ZEROISH or i == zero]
    alphabet = rng.sample(pool, rng.choice([1, 2, 3, 4]))
    spec_v = lambda: ["v", rng.choice(pool)]  # noqa

    def table(result):
        return {"tab": {str(i): result() for i in alphabet}, "dflt": result()}

    P = {"n": rng.choice([0, 1, 1, 2, 3]), "n2": rng.choice([0, 1, 2, 5]), "t": rng.choice([5, 10, 20, 30]), "flag": rng.random() < 0.5,
         "d": rng.choice(pool), "d2": rng.choice(pool), "seq": [rng.choice(alphabet) for _ in range(rng.choice([0, 1, 2, 4]))],
         "pred": table(lambda: (["raise", "cb"] if rng.random() < 0.04 else ["b", rng.random() < 0.6])),
         "map": table(spec_v), "ikey": table(lambda: ["i", rng.randrange(3)])}
    case = {"op": "nat", "entry": entry, "alphabet": alphabet, "P": P,
            "srcs": [_rand_timeline(rng, alphabet), _rand_timeline(rng, alphabet), _rand_timeline(rng, alphabet, hot=False)]}
    if entry.startswith("subject:"):
        # observers subscribed BEFORE and AFTER the terminal; the last value before the terminal (and the
        # BehaviorSubject's initial value) is biased towards the falsy values, None first
        falsy = [i for i in pool if i < 8]
        if rng.random() < 0.6 and 0 not in alphabet:
            alphabet[rng.randrange(len(alphabet))] = 0
        if rng.random() < 0.5:
            P["d"] = 0 if rng.random() < 0.5 else rng.choice(falsy)
        case["alphabet"] = alphabet
        script, nobs = [], 0
        for _ in range(rng.choice([0, 1, 1, 2])):
            script.append(["sub", nobs]); nobs += 1
        for _ in range(rng.choice([0, 1, 2, 3, 5])):
            r = rng.random()
            if r < 0.7:
                script.append(["next", rng.choice(alphabet)])
            elif r < 0.85 and nobs < 4:
                script.append(["sub", nobs]); nobs += 1
            elif nobs:
                script.append(["unsub", rng.randrange(nobs)])
        if rng.random() < 0.75:
            fa = [i for i in alphabet if i < 8]
            script.append(["next", 0 if (0 in alphabet and rng.random() < 0.5) else rng.choice(fa or alphabet)])
        term = rng.choice(["done", "done", "done", "done", "err", None])
        if term:
            script.append([term])
        for _ in range(rng.choice([1, 1, 2])):
            if rng.random() < 0.3:
                script.append(["next", rng.choice(alphabet)])
            script.append(["sub", nobs]); nobs += 1
        if rng.random() < 0.2:
            script.append(["done"])
            script.append(["sub", nobs]); nobs += 1
        case["script"] = script
    return case


CATALOGUE_NAMES = None


def _init_names():
    global CATALOGUE_NAMES
    if CATALOGUE_NAMES is None:
        CATALOGUE_NAMES = list(CATALOGUE().keys())


_init_names()


def run_world(case, tokens):
    from reactivex.scheduler import VirtualTimeScheduler
    from reactivex.testing import ReactiveTest, TestScheduler

    W = World(tokens)
    if case["entry"].startswith("subject:"):
        return run_subject(case, W)
    build, files, nsrc = CATALOGUE()[case["entry"]]
    sched = TestScheduler()

    def mk(tl, hot):
        rec = []
        for t, n in tl:
            if n[0] == "N":
                rec.append(ReactiveTest.on_next(t, W.v(n[1])))
            elif n[0] == "E":
                rec.append(ReactiveTest.on_error(t, InjectedError(n[1])))
            else:
                rec.append(ReactiveTest.on_completed(t))
        return sched.create_hot_observable(*rec) if hot else sched.create_cold_observable(*rec)

    S = [mk(case["srcs"][0], True), mk(case["srcs"][1], True), mk(case["srcs"][2], False)]
    out = []
    try:
        obs = build(W, S, case["P"], sched)
    except Exception as e:
        return {"build": err_name(e)}
    disp = []

    def sub(s, st):
        disp.append(obs.subscribe(lambda v: out.append([int(sched.clock), ["N", enc(W.back(v))]]),
                                  lambda e: out.append([int(sched.clock), ["E", err_name(e)]]),
                                  lambda: out.append([int(sched.clock), ["C"]]), scheduler=sched))
    sched.schedule_absolute(TSUB, sub)
    sched.schedule_absolute(1000, lambda s, st: [d.dispose() for d in disp])
    esc = []
    for _ in range(30):
        try:
            VirtualTimeScheduler.start(sched)
            break
        except Exception as e:
            esc.append([int(sched.clock), err_name(e)])
            sched._is_enabled = False
    return {"out": out, "esc": esc}


def run_subject(case, W):
    import reactivex as rx
    from reactivex import operators as ops
    from reactivex.subject import AsyncSubject, BehaviorSubject, ReplaySubject, Subject
    from reactivex.testing import TestScheduler

    kind = case["entry"].split(":")[1]
    P = case["P"]
    if kind == "run_last":
        try:
            return {"out": enc(W.back(rx.of(*[W.v(i) for i in P["seq"]]).run()))}
        except Exception as e:
            return {"out": ["raised", err_name(e)]}
    if kind == "to_future_like_first":
        try:
            return {"out": enc(W.back(rx.of(*[W.v(i) for i in P["seq"]]).pipe(ops.first()).run()))}
        except Exception as e:
            return {"out": ["raised", err_name(e)]}
    sched = TestScheduler()
    subj = {"Subject": lambda: Subject(), "BehaviorSubject": lambda: BehaviorSubject(W.v(P["d"])),
            "ReplaySubject": lambda: ReplaySubject(P["n"] + 1, scheduler=sched), "ReplaySubject_window": lambda: ReplaySubject(window=100, scheduler=sched),
            "AsyncSubject": lambda: AsyncSubject()}[kind]()
    logs, subs = {}, {}
    for step in case["script"]:
        try:
            if step[0] == "sub":
                k = step[1]
                logs[k] = []
                subs[k] = subj.subscribe(lambda v, k=k: logs[k].append(["N", enc(W.back(v))]), lambda e, k=k: logs[k].append(["E", err_name(e)]),
                                         lambda k=k: logs[k].append(["C"]), scheduler=sched)
            elif step[0] == "next":
                subj.on_next(W.v(step[1]))
            elif step[0] == "done":
                subj.on_completed()
            elif step[0] == "err":
                subj.on_error(InjectedError("subj"))
            elif step[0] == "unsub":
                subs[step[1]].dispose()
            sched.advance_by(1)
        except Exception as e:
            logs.setdefault("raised", []).append([step[0], err_name(e)])
    if kind == "BehaviorSubject":
        try:
            logs["value"] = enc(W.back(subj.value))
        except Exception as e:
            logs["value"] = ["raised", err_name(e)]
    return {"out": {str(k): v for k, v in logs.items()}}


# ===================================================================================== property-module interface
def cases(rng, tier):
    for _ in range(fw.tier_scale(tier, 2000, 30000)):
        yield C05.gen_case(rng, vals=FALSY)
    weights = _site_weights()
    for _ in range(fw.tier_scale(tier, 3000, 40000)):
        yield gen_nat_case(rng, weights)


def impl(case):
    if case["op"] == "nat":
        return {"A": run_world(case, False), "B": run_world(case, True)}
    return C05.impl(case)


def model_request(case):
    return None if case["op"] == "nat" else case


def oracle(case, out):
    if case["op"] != "nat":
        return C05.oracle(case, out)
    if fw.key(out["A"]) != fw.key(out["B"]):
        return (f"{case['entry']}: falsy-domain run differs from the token run mapped back — falsy: {str(out['A'])[:400]} "
                f"tokens: {str(out['B'])[:400]}")
    if isinstance(out["A"], dict) and out["A"].get("esc"):
        return None  # exceptions escaping to the scheduler identically in both worlds are C09's subject
    return None


def nontrivial(case, out):
    if case["op"] != "nat":
        return C05.nontrivial(case, out)
    a = out["A"].get("out")
    falsy_in = any(i < 8 for i in case["alphabet"])
    return bool(a) and falsy_in


def bucket(case, out):
    if case["op"] != "nat":
        yield "model:" + case["name"]
        return
    yield "nat:" + case["entry"]
    if "build" in out["A"]:
        yield "nat-build-failed:" + case["entry"]


def shrink(case):
    if case["op"] != "nat":
        yield from C05.shrink(case)
        return
    for s in range(len(case["srcs"])):
        for i in range(len(case["srcs"][s])):
            c = dict(case)
            c["srcs"] = [list(x) for x in case["srcs"]]
            del c["srcs"][s][i]
            yield c
    if "script" in case:
        for i in range(len(case["script"]) - 1):
            c = dict(case)
            c["script"] = case["script"][:i] + case["script"][i + 1:]
            if all(st[0] != "unsub" or any(x == ["sub", st[1]] for x in c["script"][:j]) for j, st in enumerate(c["script"])):
                yield c


# ===================================================================================== part 3: AST scan
REVIEWED = {
    # (file, function, test) -> why it is not a test on an element's value
    ("operators/_pairwise.py", "on_next", "pair"): "pair is None or a 2-tuple (always truthy)",
    ("observable/timer.py", "action", "count"): "count is the scheduler state of the periodic action, not an element",
}


def scan_sites():
    """truthiness / `is None` / `or` tests on names fed from on_next-style callback arguments"""
    sites = []
    roots = [fw.REPO / "reactivex" / d for d in ("operators", "subject", "observable")]
    for root in roots:
        for p in sorted(root.rglob("*.py")):
            try:
                tree = ast.parse(p.read_text())
            except SyntaxError:
                continue
            rel = str(p.relative_to(fw.REPO / "reactivex"))
            for fn in ast.walk(tree):
                if not isinstance(fn, (ast.FunctionDef, ast.Lambda)):
                    continue
                name = getattr(fn, "name", "<lambda>")
                if not (name.startswith("on_next") or name in ("_on_next_core", "projection", "action") or name == "<lambda>" and False):
                    continue
                args = [a.arg for a in fn.args.args if a.arg not in ("self", "scheduler", "state", "_")]
                if not args:
                    continue
                tainted = set(args)
                body = fn.body if isinstance(fn.body, list) else [fn.body]
                # containers that receive tainted values, and names popped/read from them
                cont = set()
                for _ in range(3):
                    for node in ast.walk(ast.Module(body=body, type_ignores=[])):
                        if isinstance(node, ast.Call) and isinstance(node.func, ast.Attribute) and node.func.attr in ("append", "add", "put") \
                                and any(isinstance(a, ast.Name) and a.id in tainted for a in node.args) and isinstance(node.func.value, ast.Name):
                            cont.add(node.func.value.id)
                        if isinstance(node, (ast.Assign, ast.AnnAssign)):
                            val = node.value
                            tgts = node.targets if isinstance(node, ast.Assign) else [node.target]
                            src_t = False
                            if isinstance(val, ast.Name) and val.id in tainted:
                                src_t = True
                            if isinstance(val, ast.Call) and isinstance(val.func, ast.Attribute) and val.func.attr in ("pop", "popleft", "get") \
                                    and isinstance(val.func.value, ast.Name) and val.func.value.id in cont:
                                src_t = True
                            if isinstance(val, ast.Subscript) and isinstance(val.value, ast.Name) and val.value.id in cont:
                                src_t = True
                            if isinstance(val, ast.Tuple) and any(isinstance(e, ast.Name) and e.id in tainted for e in val.elts):
                                src_t = True
                            if src_t:
                                for t in tgts:
                                    if isinstance(t, ast.Name):
                                        tainted.add(t.id)

                def is_t(e):
                    return isinstance(e, ast.Name) and e.id in tainted

                def add(kind, node, var):
                    sites.append({"file": rel, "function": name, "line": node.lineno, "kind": kind, "var": var})

                for node in ast.walk(ast.Module(body=body, type_ignores=[])):
                    if isinstance(node, (ast.If, ast.While, ast.IfExp)):
                        t = node.test
                        if isinstance(t, ast.UnaryOp) and isinstance(t.op, ast.Not):
                            t = t.operand
                        if is_t(t):
                            add("truthiness", node, t.id)
                        if isinstance(t, ast.BoolOp):
                            for v in t.values:
                                v2 = v.operand if isinstance(v, ast.UnaryOp) and isinstance(v.op, ast.Not) else v
                                if is_t(v2):
                                    add("truthiness", node, v2.id)
                    if isinstance(node, ast.Compare) and len(node.ops) == 1 and isinstance(node.ops[0], (ast.Is, ast.IsNot)) \
                            and isinstance(node.comparators[0], ast.Constant) and node.comparators[0].value is None and is_t(node.left):
                        add("is-none", node, node.left.id)
                    if isinstance(node, ast.BoolOp) and isinstance(node.op, ast.Or) and is_t(node.values[0]) \
                            and not isinstance(getattr(node, "_parent", None), (ast.If, ast.While)):
                        add("or-default", node, node.values[0].id)
    # de-duplicate (a BoolOp inside an If is reported once)
    seen, out = set(), []
    for s in sites:
        k = (s["file"], s["function"], s["line"], s["var"])
        if k not in seen:
            seen.add(k)
            out.append(s)
    return out


_SITES = None


def _site_weights():
    """catalogue entries exercising a file with an unreviewed candidate site are sampled 4x as often"""
    global _SITES
    if _SITES is None:
        try:
            _SITES = scan_sites()
        except Exception:
            _SITES = []
    hot = {re.sub(r"\.py$", "", s["file"].split("/")[-1]) for s in _SITES if (s["file"], s["function"], s["var"]) not in REVIEWED}
    w = {}
    for n, (b, files, k) in CATALOGUE().items():
        if any(f in hot for f in files):
            w[n] = 4
    return w


def extra(rng, tier):
    sites = scan_sites()
    unreviewed = [s for s in sites if (s["file"], s["function"], s["var"]) not in REVIEWED]
    cat = CATALOGUE()
    covered_files = sorted({f for b, files, k in cat.values() for f in files})
    return {"failures": [], "proof_failures": [],
            "coverage": {"ast_candidate_sites": sites, "ast_unreviewed_sites": unreviewed, "catalogue_entries": len(cat) + len(SUBJECTS),
                         "catalogue_files": covered_files, "falsy_domain": [repr(v) for v in FALSY]}}


LEVEL_TEXT = ("Lean theorems: naturality — for every renaming of the elements (injective where the operator compares elements), every raw input "
              "and callbacks transported along the renaming, take, skip, take_last, skip_last (fixed), take_last_buffer, pairwise, start_with, "
              "default_if_empty, ignore_elements, element_at(_or_default), map, map_indexed, filter(+indexed), take_while, skip_while, distinct, "
              "distinct_until_changed, find, find_index, materialize commute with the renaming (corollaries of the C05 op_eq theorems): no value, "
              "falsy or not, is special. pyval_models_empty: no operator model needs truthiness/is-None of an element (regenerated table). "
              "Real code: C05 differential runs on the falsy domain + a model-independent naturality oracle over ~125 operators/factories/subjects.")
LEVEL_NOTE = ("Lean part covers the Ops family only (the operators modelled for C05); scan (used only by slice) has no separate naturality theorem. Subject, BehaviorSubject and AsyncSubject have their own value-naturality theorems in the subject family (C20.subject_natural, C21.behavior_natural, C23.async_natural over RxProofs/Lemmas/SubjNat.lean, for an arbitrary renaming; audited under C20/C21/C23, cited here, not imported); ReplaySubject and all other operator families are covered by the real-code naturality "
              "oracle only (exploration, not proof). skip_last is the fixed one; skip_last_asis_not_natural shows the pinned one is not natural. "
              "The PyVal table is regenerated from the Lean model sources (not from /repo); the /repo AST scan only lists candidate sites.")

"""C22 — a ReplaySubject replays exactly its retained values, in order (DESIGN.md §5 C22).

Case format
-----------
{"op": "replay", "buffer": null | n, "window": null | w,
 "observers": [{"err": bool, "react": [[n, [action, ...]], ...],             # as in C20, plus re-entrant emission
                "sched": "own" | "immediate" | "other" | "other_ahead"}, ...],  # optional: scheduler= argument of this observer's subscribe()
                                                                             # actions ["next", v] | ["error", name] | ["completed"]
 "calls": [[t, call], ...]}     call = ["sub", i] | ["unsub", i] | ["next", v] | ["error", name] | ["completed"] | ["dispose"]

Every history call is scheduled on a `TestScheduler` at its virtual time `t` (`schedule_absolute`, in list order, so that calls
at the same instant run in list order) and the scheduler is started once; the subject is `ReplaySubject(buffer, window, scheduler)`,
so every delivery goes through the per-subscriber `ScheduledObserver` and the scheduler's queue.  User conventions as in C20.

Output: {"logs": [[[t, entry], ...] per observer], "xs": [[i, name], ...], "raised": [[k, name], ...], "crashed": null | name,
         "order": [["call", k, now, len(subject.observers)] | ["sub", j, now] | ["unsub", j] | ["dispose"] | ["cb", i, now], ...]}
(`t` = virtual time of the callback; `raised` = exceptions seen by the caller of history call k; `crashed` = an exception that
escaped from a scheduled `run` action out of `scheduler.start()`: only possible when an error reaches an observer without `on_error`).
"""
import fw
from fw import InjectedError, enc, err_name
from props import C20 as base

LEAN_TARGETS = ["RxProofs.C22"]
DRIVER = "drv_subj"
DRIVER_ROOT = "Subj"
THEOREMS = [
    "C22.replay_retained_spec",
    "C22.retained_unique",
    "C22.replay_prefix",
    "C22.replay_live",
    "C22.replay_fifo",
    "C22.replay_all_delivered",
    "C22.replay_one_formula",
    "C22.spec_subscription",
    "C22.spec_emission",
    "C22.replay_dispose_stops",
    "C22.replay_natural",
    "C22.run_reachable",
]

VALS = base.VALS


# ------------------------------------------------------------------------------------------- generator
GAPS = [0, 0, 1, 1, 2, 3, 5, 10]


# scheduler= argument of a subscriber's subscribe() call: the subject's own one; ImmediateScheduler (wall clock); another virtual-time
# scheduler that is never started, with its clock at 0 / far ahead of the history
SUB_SCHEDS = ["own", "immediate", "other", "other", "other_ahead", "other_ahead"]


def gen_case(rng, tier):
    big = tier == "thorough"
    nobs = rng.choice([1, 2, 2, 3, 3, 4, 4, 5])
    style = rng.choice(["plain", "plain", "window", "window", "window", "react", "react", "lateterm", "dispose", "sametime",
                        "handlerless", "feedback", "feedback"])
    buffer = rng.choice([None, None, 0, 1, 2, 3, 4])
    ncalls = rng.choice([1, 2, 3, 5, 8, 12, 20, 30] + ([45, 60] if big else []))
    if style == "sametime":
        ncalls = rng.choice([30, 40] + ([60] if big else []))
        nobs = rng.choice([3, 4, 5])
    if style == "window":
        ncalls = max(ncalls, 5)
    # times: non-decreasing list
    t = rng.choice([0, 0, 1, 5])
    times = []
    p_same = rng.choice([0.9, 0.97, 1.0])
    for _ in range(ncalls):
        t += 0 if style == "sametime" and rng.random() < p_same else rng.choice(GAPS)
        times.append(t)
    if style == "sametime" and rng.random() < 0.6:
        # two bursts one tick apart: the spin counter of VirtualTimeScheduler.start pushes the clock past the second burst's due time
        m = rng.randrange(ncalls // 2, ncalls - 2)
        times = [times[0]] * m + [times[0] + 1] * (ncalls - m)
    if rng.random() < 0.08 and style != "sametime":
        rng.shuffle(times)      # schedule_absolute in arbitrary order: the scheduler sorts (stable)
    observers = []
    for i in range(nobs):
        err = True
        if style == "handlerless":
            err = rng.random() < 0.5
        react = []
        if style in ("react", "dispose") and rng.random() < 0.6 or style == "sametime" and rng.random() < 0.2:
            for n in sorted({rng.choice([0, 0, 1, 1, 2, 3, 4]) for _ in range(rng.choice([1, 1, 2]))}):
                acts = base.gen_actions(rng, nobs, i)
                if style != "dispose":
                    acts = [a for a in acts if a[0] != "dispose" or rng.random() < 0.25]
                if acts:
                    react.append([n, acts])
        if style == "feedback" and rng.random() < 0.6:
            # the callback feeds the subject it listens to (re-entrant on_next / on_completed / on_error), possibly
            # while it is processing the last item queued for it
            for n in sorted({rng.choice([0, 0, 1, 1, 2, 3]) for _ in range(rng.choice([1, 1, 2]))}):
                acts = []
                for _ in range(rng.choice([1, 1, 2])):
                    r = rng.random()
                    acts.append(["next", enc(rng.choice(VALS))] if r < 0.7 else ["completed"] if r < 0.85
                                else ["error", f"f{rng.randrange(2)}"] if r < 0.92 else ["unsub", rng.randrange(nobs)])
                react.append([n, acts])
        observers.append({"err": err, "react": react})
    if rng.random() < 0.35:
        # some subscribers hand subscribe() a scheduler of their own (as time-based operators downstream do): the subject must keep
        # measuring ages on ITS scheduler's clock and keep delivering through ITS scheduler
        for o in observers:
            if rng.random() < 0.5:
                o["sched"] = rng.choice(SUB_SCHEDS)
    p_term = {"lateterm": 0.2, "handlerless": 0.1, "sametime": 0.01, "window": 0.03}.get(style, 0.05)
    p_disp = {"dispose": 0.12, "handlerless": 0.08, "sametime": 0.0, "window": 0.01}.get(style, 0.02)
    p_sub = {"window": 0.3, "sametime": 0.03}.get(style, 0.2)
    p_unsub = {"window": 0.05, "sametime": 0.02}.get(style, 0.1)
    unsubbed = list(range(nobs))
    rng.shuffle(unsubbed)
    calls = []
    upfront = nobs if style == "sametime" else 0 if style == "window" else rng.randrange(0, min(nobs, 3) + 1)
    for k in range(ncalls):
        r = rng.random()
        if k < upfront and unsubbed:
            c = ["sub", unsubbed.pop()]
        elif r < p_term:
            c = ["completed"] if rng.random() < 0.5 else ["error", f"e{rng.randrange(3)}"]
        elif r < p_term + p_disp:
            c = ["dispose"]
        elif r < p_term + p_disp + p_sub:
            c = ["sub", unsubbed.pop()] if unsubbed and rng.random() < 0.85 else ["sub", rng.randrange(nobs)]
        elif r < p_term + p_disp + p_sub + p_unsub:
            c = ["unsub", rng.randrange(nobs)]
        else:
            c = ["next", enc(rng.choice(VALS))]
        calls.append([times[k], c])
    # windows shorter and longer than the history; often exactly the age of some value at some subscription
    span = (max(times) - min(times)) if times else 0
    sub_t = [t for t, c in calls if c[0] == "sub"]
    nxt_t = [t for t, c in calls if c[0] == "next"]
    exact = sorted({a - b for a in sub_t for b in nxt_t if a >= b})
    if style == "window" or rng.random() < 0.35:
        pool = [rng.choice([0, 1, 2, 3, 5]), span + 1, span + 50]
        if exact:
            pool += [rng.choice(exact)] * 4
        window = rng.choice(pool)
    else:
        window = None
    return {"op": "replay", "buffer": buffer, "window": window, "observers": observers, "calls": calls}


def gen_tramp_case(rng, tier):
    """the same histories for ReplaySubject() on its default scheduler (CurrentThreadScheduler trampoline): calls made
    directly at top level with a controlled, monotone `now`; every observer has an on_error handler (an exception escaping
    from a run action tears the trampoline down: not part of this variant)"""
    while True:
        c = gen_case(rng, tier)
        if len(c["calls"]) > 40:
            continue
        break
    c["op"] = "replay_tramp"
    for o in c["observers"]:
        o["err"] = True
    c["calls"] = sorted(c["calls"], key=lambda tc: tc[0])   # stable: top-level calls happen in time order
    return c


def gen_backlog_case(rng, tier, op):
    """a long backlog for ONE subscriber: 200..400 values retained by an unbounded (or >= 150-bounded) ReplaySubject, then a late
    subscriber (its whole replay is one drain of its ScheduledObserver), a few live values and usually a terminal; a second
    observer subscribed from the start sees every value live"""
    n = rng.randrange(200, 401)
    early = rng.random() < 0.5
    observers = [{"err": True, "react": []} for _ in range(2 if early else 1)]
    if rng.random() < 0.3:
        # the late subscriber unsubscribes itself in the middle of its replay
        observers[0]["react"] = [[rng.randrange(100, 200), [["unsub", 0]]]]
    t = rng.choice([0, 1, 5])
    calls = []
    if early:
        calls.append([t, ["sub", 1]])
    step = rng.choice([[0], [1], [0, 0, 1], [0, 1, 2]])
    for k in range(n):
        t += rng.choice(step)
        calls.append([t, ["next", enc(k if rng.random() < 0.9 else rng.choice(VALS))]])
    t += rng.choice([0, 1, 10])
    calls.append([t, ["sub", 0]])
    for k in range(rng.randrange(0, 4)):
        t += rng.choice([0, 1, 3])
        calls.append([t, ["next", enc(n + k)]])
    r = rng.random()
    if r < 0.8:
        t += rng.choice([0, 1, 3])
        calls.append([t, ["completed"] if r < 0.55 else ["error", "e0"]])
    buffer = rng.choice([None, None, None, rng.randrange(150, n + 1)])
    window = rng.choice([None, None, t + 1])
    return {"op": op, "buffer": buffer, "window": window, "observers": observers, "calls": calls}


def cases(rng, tier):
    n = fw.tier_scale(tier, 3000, 80000)
    every = n // fw.tier_scale(tier, 8, 40)
    for i in range(n):
        if i % every == every // 2:
            yield gen_backlog_case(rng, tier, "replay_tramp" if (i // every) % 2 else "replay")
        yield gen_tramp_case(rng, tier) if i % 4 == 3 else gen_case(rng, tier)


# ------------------------------------------------------------------------------------------- real code
class _Env(base._Env):
    def __init__(self, case, subject, sched):
        super().__init__(case, subject)
        self.sched = sched
        self.order = []

    def callback(self, i, entry):
        now = int(self.sched.clock)
        self.order.append(["cb", i, now])
        self.logs[i].append([now, entry])
        k = self.cbs[i]
        self.cbs[i] += 1
        for act in self.react[i].get(k, ()):
            try:
                if act[0] in ("next", "error", "completed"):
                    # re-entrant emission: the callback feeds the subject it is listening to
                    self.order.append(["emit", i, int(self.sched.clock), ["N", act[1]] if act[0] == "next"
                                       else ["E", act[1]] if act[0] == "error" else ["C"]])
                    if act[0] == "next":
                        self.subject.on_next(fw.dec(act[1]))
                    elif act[0] == "error":
                        self.subject.on_error(InjectedError(act[1]))
                    else:
                        self.subject.on_completed()
                else:
                    self.do(act)
            except Exception as e:  # noqa  the user's own try/except around each reaction action
                self.xs.append([i, err_name(e)])

    def sub_kwargs(self, i):
        kind = self.case["observers"][i].get("sched")
        if kind is None:
            return {}
        if kind == "own":
            return {"scheduler": self.subject.scheduler}
        if kind == "immediate":
            from reactivex.scheduler import ImmediateScheduler
            return {"scheduler": ImmediateScheduler()}
        from reactivex.testing import TestScheduler
        other = TestScheduler()
        if kind == "other_ahead":
            other.advance_to(1000000)
        elif kind != "other":
            raise ValueError(kind)
        return {"scheduler": other}

    def do(self, act):
        if act[0] == "sub":
            if not self.seen[act[1]]:
                self.order.append(["sub", act[1], int(self.sched.clock)])
        elif act[0] == "unsub":
            if self.handles[act[1]] is not None:
                self.order.append(["unsub", act[1]])
        elif act[0] == "dispose":
            self.order.append(["dispose"])
        super().do(act)


def impl(case):
    # the scheduler loop cannot spin forever on the current code; a generous watchdog turns a hang (e.g. of a mutated tree) into a harness error
    import signal

    import reactivex.subject  # noqa: F401  (first import may be slow under load: keep it outside the watchdog window)
    import reactivex.testing  # noqa: F401

    def on_alarm(signum, frame):
        raise TimeoutError("replay history did not finish within 120 s")

    old = signal.signal(signal.SIGALRM, on_alarm)
    signal.alarm(120)
    try:
        return _impl_tramp(case) if case["op"] == "replay_tramp" else _impl(case)
    finally:
        signal.alarm(0)
        signal.signal(signal.SIGALRM, old)


def _impl(case):
    from reactivex.scheduler import VirtualTimeScheduler
    from reactivex.subject import ReplaySubject
    from reactivex.testing import TestScheduler

    sched = TestScheduler()
    subject = ReplaySubject(case["buffer"], case["window"], sched)
    env = _Env(case, subject, sched)
    raised = []

    def mk(k, c):
        def action(scheduler, state=None):
            env.order.append(["call", k, int(sched.clock), len(subject.observers)])
            try:
                if c[0] == "next":
                    subject.on_next(fw.dec(c[1]))
                elif c[0] == "error":
                    subject.on_error(InjectedError(c[1]))
                elif c[0] == "completed":
                    subject.on_completed()
                else:
                    env.do(c)
            except Exception as e:  # noqa  what the caller of this history call sees
                raised.append([k, err_name(e)])
        return action

    for k, (t, c) in enumerate(case["calls"]):
        sched.schedule_absolute(t, mk(k, c))
    crashed = None
    try:
        VirtualTimeScheduler.start(sched)
    except Exception as e:  # noqa  escaped from a ScheduledObserver.run action
        crashed = err_name(e)
    return {"logs": env.logs, "xs": env.xs, "raised": raised, "crashed": crashed, "order": env.order}


def _impl_tramp(case):
    """ReplaySubject() with its DEFAULT scheduler (CurrentThreadScheduler: a trampoline shared with Observable.subscribe),
    which is what most users run.  The history calls are made directly at top level; the wall clock the scheduler reads
    is replaced by a controlled clock set to the call's time (reactivex.scheduler.scheduler.default_now is patched)."""
    from datetime import datetime, timedelta, timezone

    import reactivex.scheduler.scheduler as schedmod
    from reactivex.subject import ReplaySubject

    epoch = datetime(1970, 1, 1, tzinfo=timezone.utc)

    class Clock:
        clock = 0

    clk = Clock()
    orig = schedmod.default_now
    schedmod.default_now = lambda: epoch + timedelta(seconds=clk.clock)
    try:
        subject = ReplaySubject(case["buffer"], case["window"])
        env = _Env(case, subject, clk)
        raised = []
        for k, (t, c) in enumerate(case["calls"]):
            clk.clock = max(clk.clock, t)
            env.order.append(["call", k, int(clk.clock), len(subject.observers)])
            try:
                if c[0] == "next":
                    subject.on_next(fw.dec(c[1]))
                elif c[0] == "error":
                    subject.on_error(InjectedError(c[1]))
                elif c[0] == "completed":
                    subject.on_completed()
                else:
                    env.do(c)
            except Exception as e:  # noqa
                raised.append([k, err_name(e)])
        return {"logs": env.logs, "xs": env.xs, "raised": raised, "crashed": None, "order": env.order}
    finally:
        schedmod.default_now = orig


def model_request(case):
    return case


def canon_model(case, resp):
    if isinstance(resp, dict) and resp.get("idle") is True:
        resp = {k: v for k, v in resp.items() if k != "idle"}
    return resp


# ------------------------------------------------------------------------------------------- oracle
# From the property text, on the real code's own record of what happened when (`order`: the global sequence of history calls,
# subscription attempts, unsubscriptions, disposals and callbacks, each with the virtual time the code itself reported):
# "a new subscriber first receives, in order, the retained values (the last buffer_size values whose age at subscription is
# within the window) followed by the terminal notification if one occurred, and then every later notification, with nothing
# duplicated or reordered".  Deliveries are asynchronous (scheduler actions), so an observer that is unsubscribed may have seen
# only a prefix of that sequence, and must see nothing after the unsubscription; everybody else must have seen all of it when
# the scheduler has drained.
def analyse(case, out):
    calls = case["calls"]
    buffer, window = case["buffer"], case["window"]
    err = [o["err"] for o in case["observers"]]
    n = len(err)
    raised = {k: e for k, e in out["raised"]}
    values, terminal, disposed = [], None, False
    subscribed, cut = set(), set()
    expected = [None] * n
    stats = set()
    last_now = 0
    cur_call = None
    problems = []
    for ev in out["order"]:
        if ev[0] == "call":
            k, now = ev[1], ev[2]
            cur_call = k
            t, c = calls[k]
            if now < t:
                problems.append(f"call {k} ran at {now}, before its due time {t}")
            if now < last_now:
                problems.append(f"clock went backwards at call {k}")
            if now > t:
                stats.add("call-later-than-due")
            last_now = now
            if c[0] in ("next", "error", "completed"):
                if disposed:
                    if raised.get(k) != "DisposedException":
                        problems.append(f"call {k}: emitting after dispose did not raise DisposedException")
                    continue
                if k in raised:
                    problems.append(f"call {k}: emitting raised {raised[k]}")
                if terminal is not None:
                    continue
                if c[0] == "next":
                    values.append((now, c[1]))
                    for i in subscribed:
                        expected[i].append(["N", c[1]])
                else:
                    terminal = ["C"] if c[0] == "completed" else ["E", c[1]]
                    for i in subscribed:
                        expected[i].append(terminal)
                    subscribed = set()
        elif ev[0] == "emit":
            # a callback of observer ev[1] emits into the subject: accepted like any other emission
            who, now, n = ev[1], ev[2], ev[3]
            stats.add("reentrant-emission")
            if disposed or terminal is not None:
                continue
            if n[0] == "N":
                values.append((now, n[1]))
                for i in subscribed:
                    expected[i].append(["N", n[1]])
            else:
                terminal = n
                for i in subscribed:
                    expected[i].append(terminal)
                subscribed = set()
            if who in subscribed or (n[0] != "N"):
                stats.add("feedback(emitter is a live subscriber)")
        elif ev[0] == "sub":
            j, now = ev[1], ev[2]
            if disposed:
                expected[j] = [["E", "DisposedException"]] if err[j] else []
                stats.add("sub-after-dispose")
                continue
            kept = values if buffer is None else (values[-buffer:] if buffer > 0 else [])
            if len(kept) < len(values):
                stats.add("trimmed-by-count")
            if window is not None:
                if any(now - t == window for t, _ in kept):
                    stats.add("age==window")
                if any(now - t > window for t, _ in kept):
                    stats.add("trimmed-by-age")
                kept = [(t, v) for t, v in kept if now - t <= window]
            if kept:
                stats.add("replayed-values")
            expected[j] = [["N", v] for _, v in kept]
            if terminal is not None:
                expected[j].append(terminal)
                stats.add("late-subscribe")
            else:
                subscribed.add(j)
            if cur_call is not None and calls[cur_call][1][0] != "sub":
                stats.add("sub-in-callback")
        elif ev[0] == "unsub":
            subscribed.discard(ev[1])
            if expected[ev[1]] is not None and ev[1] not in cut:
                stats.add("unsub")
            cut.add(ev[1])
        elif ev[0] == "dispose":
            disposed = True
            subscribed = set()
        elif ev[0] == "cb":
            i, now = ev[1], ev[2]
            if now < last_now:
                problems.append("clock went backwards at a callback")
            if now > last_now:
                stats.add("spin-bump(clock advanced by the scheduler's spin counter)")
            last_now = now
            if i in cut:
                problems.append(f"observer {i} got a callback after it was unsubscribed")
    return expected, cut, stats, problems


def oracle(case, out):
    expected, cut, stats, problems = analyse(case, out)
    if problems:
        return problems[0]
    for i, log in enumerate(out["logs"]):
        seen = [e for _, e in log]
        times = [t for t, _ in log]
        if times != sorted(times):
            return f"observer {i}: callback times not monotone {times}"
        exp = expected[i] or []
        if not case["observers"][i]["err"]:
            # an error reaching an observer without on_error handler is raised by default_error, not recorded
            if any(e[0] == "E" for e in exp):
                exp = exp[:[e[0] for e in exp].index("E")]
        if fw.key(seen) != fw.key(exp[:len(seen)]):
            return f"observer {i}: saw {seen}, which is not a prefix of the expected {exp}"
        if i not in cut and out["crashed"] is None and len(seen) != len(exp):
            return f"observer {i}: saw only {seen} of the expected {exp} although it was never unsubscribed"
    return None


def nontrivial(case, out):
    kinds = {c[1][0] for c in case["calls"]}
    return len(kinds) >= 2 and any(out["logs"])


def bucket(case, out):
    yield "scheduler:" + ("trampoline(default)" if case["op"] == "replay_tramp" else "virtual-time")
    yield "buffer:" + ("None" if case["buffer"] is None else str(case["buffer"]))
    yield "window:" + ("None" if case["window"] is None else "set")
    n = len(case["calls"])
    yield "calls:" + ("1-5" if n <= 5 else "6-12" if n <= 12 else "13-30" if n <= 30 else "31-100" if n <= 100 else ">100")
    if any(len(log) >= 129 and sum(1 for t, _ in log if t == log[0][0]) >= 129 for log in out["logs"]):
        yield "long-backlog(>=129 notifications delivered to one subscriber in one drain)"
    yield f"nobs:{len(case['observers'])}"
    expected, cut, stats, problems = analyse(case, out)
    for s in sorted(stats):
        yield s
    subs = [ev[1] for ev in out["order"] if ev[0] == "sub"]
    foreign = [j for j in subs if case["observers"][j].get("sched") not in (None, "own")]
    for kind in sorted({case["observers"][j].get("sched") for j in subs if case["observers"][j].get("sched")}):
        yield "subscribe(scheduler=" + kind + ")"
    if foreign and case["window"] is not None:
        yield "foreign-scheduler-subscription-with-window"
        if any(j not in foreign for j in subs[subs.index(foreign[0]) + 1:]):
            yield "plain-subscription-after-foreign-scheduler-subscription"
    if out["crashed"]:
        yield "crashed(handlerless error in a run action)"
    if out["xs"]:
        yield "reaction-raised"
    if any(o["react"] for o in case["observers"]):
        yield "has-reactions"
    ts = [t for t, _ in case["calls"]]
    if ts != sorted(ts):
        yield "unsorted-schedule"
    if any(c[0] == "next" and not fw.dec(c[1]) for _, c in case["calls"]):
        yield "falsy-value"
    for i in cut:
        if expected[i] is not None and len(out["logs"][i]) < len(expected[i]):
            yield "unsubscribed-with-replay-pending"
            break


def shrink(case):
    for i in range(len(case["calls"])):
        c = dict(case)
        c["calls"] = case["calls"][:i] + case["calls"][i + 1:]
        yield c
    for i, o in enumerate(case["observers"]):
        for k in range(len(o["react"])):
            c = dict(case)
            c["observers"] = [dict(x) for x in case["observers"]]
            c["observers"][i]["react"] = o["react"][:k] + o["react"][k + 1:]
            yield c
    for i, o in enumerate(case["observers"]):
        if "sched" in o:
            c = dict(case)
            c["observers"] = [dict(x) for x in case["observers"]]
            del c["observers"][i]["sched"]
            yield c
    if case["window"] is not None:
        c = dict(case); c["window"] = None; yield c
    if case["buffer"] is not None:
        c = dict(case); c["buffer"] = None; yield c


RULE = ("timed call histories of 1..30 calls (thorough: ..60) of sub/unsub/next/error/completed/dispose over 1..5 observers with reaction scripts (unsubscribe / subscribe / dispose / "
        "re-entrant on_next, on_error, on_completed into the same subject from inside a callback), "
        "plus a few long-backlog histories (200..400 values retained, then a late subscriber, live values and a terminal; both schedulers), "
        "in about a third of the cases with subscribers that pass subscribe() a scheduler of their own (the subject's one, ImmediateScheduler, or another never-started "
        "virtual-time scheduler whose clock is at 0 or far ahead), "
        "scheduled on a TestScheduler (3/4 of the cases; arbitrary, also unsorted and equal, virtual times; bursts of >100 same-instant actions that trigger the "
        "scheduler's spin counter) or made directly on ReplaySubject() with its default CurrentThreadScheduler trampoline and a controlled clock (1/4 of the cases), "
        "against ReplaySubject(buffer_size in {None,0..4}, window in {None, shorter / longer than the history, exactly the "
        "age of a value at a subscription}); values incl. None/0/False/''/0.0/()/[]/{}; compared: per-observer timed notification sequence, "
        "exceptions per call, exception escaping start(), and the global order of calls / subscriptions / unsubscriptions / callbacks; "
        "non-trivial = at least two call kinds and at least one delivery")
ASSUMPTIONS = ["single-threaded execution on a virtual-time scheduler (what the property quantifies over); integer virtual times",
               "virtual-time cases: every history call is scheduled up front with schedule_absolute and start() is called once; "
               "default-scheduler cases: calls made at top level, Scheduler.now replaced by a controlled monotone clock, every observer has on_error",
               "user conventions as in C20 (one subscription per observer id, reaction actions individually wrapped in try/except); "
               "callbacks MAY emit into the subject re-entrantly (feedback loops are generated, modelled and judged by the oracle)",
               "the scheduler= argument of a subscriber's subscribe() call is not a parameter of the model or of the oracle: retained values are "
               "determined by the SUBJECT's scheduler clock and deliveries happen on the SUBJECT's scheduler, whatever a subscriber passes"]
TRUSTED_EXTRA = ["the model of VirtualTimeScheduler.start / PriorityQueue inside RxModel/SubjReplay.lean (stable (due, insertion) order, clock, "
                 "spin counter) is tied to the code by this correspondence only; C28/C29 own the scheduler's theorems"]
LEVEL_TEXT = ("Lean theorems over a model of ReplaySubject + per-subscriber ScheduledObserver/AutoDetachObserver + the virtual-time scheduler's queue: "
              "(1) in every reachable state the queue is the longest suffix of everything accepted with <= buffer_size items whose age is within the "
              "window, and _trim(now) at any later instant yields exactly the part retained at `now` (age == window retained, as the code does); "
              "(2) a new subscriber is queued exactly retained(now) ++ terminal-if-any, an accepted notification is queued exactly once for exactly the "
              "current observers and nothing else queues anything; (3) the ScheduledObserver is a FIFO (handed-over ++ still-queued = queued) and the "
              "user has seen exactly what was handed over while live, a prefix afterwards; (4) when start() returns normally every undisposed "
              "ScheduledObserver is drained (liveness invariant over the scheduler queue); (5) a stopped observer sees nothing more; (6) one formula: queued-for-i equals the expected sequence computed by the property text from the observable "
              "event order; (7) value-naturality of whole runs. All by induction "
              "over the scheduler's steps for unbounded histories, any buffer_size/window (0 and None included), any reaction scripts including re-entrant emission (feedback).")
LEVEL_NOTE = ("replay_one_formula ties the model to a specification fold over the observable event order (the list compared with the real code): queued-for-i = "
              "retained(T_sub) ++ terminal-if-any ++ notifications accepted while subscribed; user log = a prefix of it, equal at quiescence for live observers. "
              "The default CurrentThreadScheduler (trampoline) variant `ReplaySubject()` is modelled (RxModel/SubjReplayTramp.lean: nested immediate drain when "
              "idle, enqueue when active, handle only after the drain) and compared on 1/4 of the cases with a controlled clock, but has no theorems of its own "
              "(it reuses the proven primitives; its scheduling discipline is covered by correspondence only). An error reaching "
              "an observer without on_error handler escapes from the run action out of start(): modelled (`crashed`) and compared, outside the theorems' "
              "liveness claim. Thread interleavings of ScheduledObserver belong to C32.")

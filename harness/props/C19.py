"""C19 — grouping routes each element to exactly one live group; partition (DESIGN.md §5 C19).

Instrument: every source is a *hot* TestScheduler observable created up front (the source and a pool of
duration observables; the g-th created group gets the g-th pool entry), all harness actions (subscribe at 200,
dispose of the outer subscription, late group subscriptions, group-subscriber disposals) are scheduled up front
too.  Hence the global order of same-instant events is static (virtual-time queue = (time, scheduling order)),
the merged tagged-event list is computed in Python and handed to the Lean trace machine, which decides itself
which sources are live.  Compared: the globally ordered, timed log of outer / writer-tap / group-subscriber
notifications, the subscription interval of the source and of every duration observable, the final writer logs.
"""
import fw
from fw import FnTab, InjectedError, enc, err_name

LEAN_TARGETS = ["RxProofs.C19"]
DRIVER = "drv_win"
DRIVER_ROOT = "Win"
THEOREMS = [
    "C19.group_new_iff_unseen_or_expired",
    "C19.new_group_announced",
    "C19.group_routes_to_key_partial",
    "C19.groups_end_with_source",
    "C19.partition_exactly_one",
    "C19.partition_indexed_exactly_one",
    "C19.expire_never_keyerror",
    "C19.duration_expires_group",
    "C19.group_log_wellformed",
    "C19.group_log_monotone",
    "C19.sync_duration_drops_element",
    "C19.source_released_iff",
    "C19.source_kept_while_holder",
    "C19.source_released_with_last_holder",
    "C19.live_subscriber_keeps_receiving",
    "C19.stepN_eq_stepD",
    "C19.runN_eq_runD",
    "C19.nested_same_key_element_routed",
    "C19.stepD_eq_step",
    "C19.runD_eq_run",
    "C19.group_announced_before_duration_before_element",
    "C19.derived_duration_counts",
    "C19.derived_duration_expires_with_element",
]

SUB_AT = 200


# ------------------------------------------------------------------------------------------ events
def merged_events(case):
    """static global order of the input events after the subscription at 200: [(time, event)]"""
    items = []
    seq = 0
    if case["op"] == "grp_part":
        for t, n in case["src"]:
            items.append((t, seq, ["src", n])); seq += 1
        for a in case["acts"]:
            items.append((a[0], seq, [a[1], a[2]])); seq += 1
        items.sort(key=lambda it: (it[0], it[1]))
        return [(t, ev) for t, _, ev in items]
    for h in case["hots"]:
        msgs = case["src"] if h == "s" else case["durs"][h]["hot"]
        for t, n in msgs:
            items.append((t, seq, ["src", n] if h == "s" else ["dur", h, n])); seq += 1
    sub_seq = seq; seq += 1
    for a in case["acts"]:
        items.append((a[0], seq, ["dispose"] if a[1] == "dispose" else [a[1], a[2]])); seq += 1
    items = [it for it in items if (it[0], it[1]) > (SUB_AT, sub_seq)]
    items.sort(key=lambda it: (it[0], it[1]))
    return [(t, ev) for t, _, ev in items]


def model_request(case):
    if case["op"] == "grp_resub":
        return None          # oracle only: the same grouped observable subscribed twice vs. a fresh pipeline
    evs = [ev for _, ev in merged_events(case)]
    if case["op"] == "grp_part":
        return {"op": "grp_part", "indexed": case["indexed"], "pred": case["pred"], "slots": case["slots"], "events": evs}
    durs = case["durs"] if case["op"] == "grp_until" else []
    return {"op": "grp_run", "events": evs, "key": case["key"], "elem": case["elem"],
            "subj_raise": case["subj_raise"], "dur_raise": case["dur_raise"] if case["op"] == "grp_until" else [],
            "dsync": [d.get("sync") for d in durs], "dgrp": [d.get("grp") for d in durs], "imm": case["imm"],
            "nest": case.get("nest") or []}


# ------------------------------------------------------------------------------------------ real code
def _mk_hot(sched, msgs):
    from reactivex.testing import ReactiveTest
    rec = []
    for t, n in msgs:
        if n[0] == "N":
            rec.append(ReactiveTest.on_next(t, fw.dec(n[1]) if len(n) > 1 else None))
        elif n[0] == "C":
            rec.append(ReactiveTest.on_completed(t))
        else:
            rec.append(ReactiveTest.on_error(t, InjectedError(n[1])))
    return sched.create_hot_observable(*rec)


def _run(sched, escaped):
    from reactivex.scheduler import VirtualTimeScheduler
    for _ in range(200):
        try:
            VirtualTimeScheduler.start(sched)
            break
        except InjectedError as e:
            escaped.append(e.name)
        except Exception as e:  # noqa: library exception escaping into the scheduler
            escaped.append(type(e).__name__)
        finally:
            sched._is_enabled = False


def _resub_run(case, sub_times, dispose_first):
    """one scheduler, ONE grouped observable over a cold source, subscribed at each of sub_times with fresh recorders
    (outer and per group); returns one record per subscription"""
    import reactivex as rx
    from reactivex import operators as ops
    from reactivex.testing import ReactiveTest, TestScheduler

    sched = TestScheduler()
    now = lambda: int(sched.clock)

    def cold(msgs):
        rec = []
        for t, n in msgs:
            rec.append(ReactiveTest.on_next(t, fw.dec(n[1])) if n[0] == "N" else
                       ReactiveTest.on_completed(t) if n[0] == "C" else ReactiveTest.on_error(t, InjectedError(n[1])))
        return sched.create_cold_observable(*rec)

    src = cold(case["src"])
    keyf = FnTab.from_json(case["key"])
    elemf = FnTab.from_json(case["elem"]) if case["elem"] is not None else None
    durs = [cold(d["cold"]) if "cold" in d else None for d in case["durs"]]
    durf = FnTab.from_json(case["dur_of_key"])       # key -> index into the duration pool (or -1: never)

    def duration_mapper(grp):
        i = durf(grp.key)
        d = case["durs"][i] if 0 <= i < len(durs) else {"never": 1}
        if "cold" in d:
            return durs[i]
        if "sync" in d:
            return rx.empty()
        return rx.never()

    if case["until"]:
        xs = src.pipe(ops.group_by_until(keyf, elemf, duration_mapper))
    else:
        xs = src.pipe(ops.group_by(keyf, elemf))
    records, subs = [], []

    def mk_sub(i):
        log = []
        records.append(log)
        cnt = [0]

        def on_group(grp):
            g = cnt[0]; cnt[0] += 1
            log.append([now(), "O", ["G", g, enc(grp.key)]])
            grp.subscribe(lambda v: log.append([now(), "S", g, ["N", enc(v)]]),
                          lambda e: log.append([now(), "S", g, ["E", err_name(e)]]),
                          lambda: log.append([now(), "S", g, ["C"]]))

        def act(*_):
            subs.append(xs.subscribe(on_group, lambda e: log.append([now(), "O", ["E", err_name(e)]]),
                                     lambda: log.append([now(), "O", ["C"]])))
        return act

    for i, t in enumerate(sub_times):
        sched.schedule_absolute(t, mk_sub(i))
    if dispose_first is not None:
        sched.schedule_absolute(dispose_first, lambda *_: subs[0].dispose() if subs else None)
    escaped = []
    _run(sched, escaped)
    return records, escaped


def impl_resub(case):
    both, esc1 = _resub_run(case, [SUB_AT, case["sub2"]], case["dispose1"])
    fresh, esc2 = _resub_run(case, [case["sub2"]], None)
    return {"first": both[0], "second": both[1], "fresh": fresh[0], "escaped": esc1 + esc2}


def impl(case):
    if case["op"] == "grp_part":
        return impl_part(case)
    if case["op"] == "grp_resub":
        return impl_resub(case)
    import reactivex as rx
    from reactivex import operators as ops
    from reactivex.subject import Subject
    from reactivex.testing import TestScheduler

    sched = TestScheduler()
    log = []
    now = lambda: int(sched.clock)
    until = case["op"] == "grp_until"
    hots = {}
    nest = case.get("nest")          # re-entrancy cases: the source is a Subject fed by scheduled actions and by the outer observer
    depth = [0]

    def feed(subj, n):
        def act(*_):
            if n[0] == "N":
                subj.on_next(fw.dec(n[1]))
            elif n[0] == "C":
                subj.on_completed()
            else:
                subj.on_error(InjectedError(n[1]))
        return act

    for h in case["hots"]:
        if h == "s" and nest is not None:
            hots[h] = Subject()
            for t, n in case["src"]:
                sched.schedule_absolute(t, feed(hots[h], n))
        else:
            hots[h] = _mk_hot(sched, case["src"] if h == "s" else case["durs"][h]["hot"])
    src = hots["s"]
    keyf = FnTab.from_json(case["key"])
    elemf = FnTab.from_json(case["elem"]) if case["elem"] is not None else None
    tap = case["subj"] == "tap"
    st = {"ng": 0, "last": None, "sub": None}
    groups = {}   # g -> GroupedObservable (announced)
    gsubs = {}    # g -> subscription

    def key_mapper(x):
        log.append([now(), "K", enc(x)])     # arrival of a source element at the operator
        return keyf(x)

    def subject_mapper():
        g = st["ng"]
        if g in case["subj_raise"]:
            raise InjectedError(f"subj{g}")
        st["ng"] = g + 1
        st["last"] = g
        s = Subject()
        log.append([now(), "M", g])
        s.subscribe(lambda v: log.append([now(), "W", g, ["N", enc(v)]]),
                    lambda e: log.append([now(), "W", g, ["E", err_name(e)]]),
                    lambda: log.append([now(), "W", g, ["C"]]))
        return s

    def duration_mapper(dgroup):
        if tap:
            g = st["last"]
        else:
            g = st["ng"]; st["ng"] = g + 1; st["last"] = g
        if g in case["dur_raise"]:
            raise InjectedError(f"durmap{g}")
        d = case["durs"][g] if g < len(case["durs"]) else {"never": 1}
        if "hot" in d:
            return hots[g]
        if "sync" in d:
            n = d["sync"]
            return rx.empty() if n[0] == "C" else (rx.return_value(0) if n[0] == "N" else rx.throw(InjectedError(n[1])))
        if "grp" in d:       # duration derived from the group itself: fires on its (n+1)-th element
            return dgroup.pipe(ops.take(1)) if d.get("style") == "take" and d["grp"] == 0 else dgroup.pipe(ops.skip(d["grp"]))
        return rx.never()

    def subscribe_group(g):
        grp = groups[g]
        gsubs[g] = grp.subscribe(lambda v: log.append([now(), "S", g, ["N", enc(v)]]),
                                 lambda e: log.append([now(), "S", g, ["E", err_name(e)]]),
                                 lambda: log.append([now(), "S", g, ["C"]]))

    def outer_next(grp):
        if until or tap:
            g = st["last"]
        else:
            g = st["ng"]; st["ng"] = g + 1
        groups[g] = grp
        log.append([now(), "O", ["G", g, enc(grp.key)]])
        if g >= len(case["imm"]) or case["imm"][g]:
            subscribe_group(g)
        if nest is not None and depth[0] == 0 and g < len(nest):
            depth[0] = 1                  # feedback: push follow-up elements into the source from inside on_next(group)
            try:
                for y in nest[g]:
                    src.on_next(fw.dec(y))
            finally:
                depth[0] = 0

    sm = subject_mapper if tap else None
    if until:
        xs = src.pipe(ops.group_by_until(key_mapper, elemf, duration_mapper, sm))
    else:
        xs = src.pipe(ops.group_by(key_mapper, elemf, sm))

    def act_sub(*_):
        st["sub"] = xs.subscribe(outer_next, lambda e: log.append([now(), "O", ["E", err_name(e)]]),
                                 lambda: log.append([now(), "O", ["C"]]))

    sched.schedule_absolute(SUB_AT, act_sub)

    def mk_act(a):
        def act(*_):
            if a[1] == "dispose":
                if st["sub"] is not None:
                    st["sub"].dispose()
            elif a[1] == "gsub":
                if a[2] in groups and a[2] not in gsubs:
                    subscribe_group(a[2])
            elif a[1] == "gdisp":
                if a[2] in gsubs:
                    gsubs[a[2]].dispose()
        return act

    for a in case["acts"]:
        sched.schedule_absolute(a[0], mk_act(a))
    escaped = []
    _run(sched, escaped)
    dur_subs = []
    for g in range(len(case["durs"]) if until else 0):
        dur_subs.append(fw.subs_json(hots[g].subscriptions) if g in hots else [])
    return {"log": log, "src_sub": fw.subs_json(src.subscriptions) if nest is None else [], "dur_subs": dur_subs, "escaped": escaped}


def impl_part(case):
    from reactivex import operators as ops
    from reactivex.testing import TestScheduler

    sched = TestScheduler()
    log = []
    now = lambda: int(sched.clock)
    src = _mk_hot(sched, case["src"])
    predf = FnTab.from_json(case["pred"])
    outs = src.pipe(ops.partition_indexed(predf) if case["indexed"] else ops.partition(predf))
    subs = {}

    def mk_act(a):
        def act(*_):
            j = a[2]
            if a[1] == "sub":
                if j not in subs:
                    subs[j] = None
                    subs[j] = outs[1 if case["slots"][j] else 0].subscribe(
                        lambda v: log.append([now(), "got", j, ["N", enc(v)]]),
                        lambda e: log.append([now(), "got", j, ["E", err_name(e)]]),
                        lambda: log.append([now(), "got", j, ["C"]]))
            elif subs.get(j) is not None:
                subs[j].dispose()
        return act

    for a in case["acts"]:
        sched.schedule_absolute(a[0], mk_act(a))
    escaped = []
    _run(sched, escaped)
    return {"log": log, "src_sub": fw.subs_json(src.subscriptions), "escaped": escaped}


# ------------------------------------------------------------------------------------------ canonical forms
def canon_impl(case, out):
    if case["op"] in ("grp_part", "grp_resub"):
        return out
    log = [e for e in out["log"] if e[1] not in ("K", "M")]
    wl = {}
    for e in out["log"]:
        if e[1] == "M":
            wl[e[2]] = []
        elif e[1] == "W":
            wl[e[2]].append(e[3])
    res = {"log": log, "src_sub": out["src_sub"], "dur_subs": out["dur_subs"], "escaped": out["escaped"]}
    if case["subj"] == "tap":
        res["wlogs"] = [wl[g] for g in sorted(wl)]
    return res


def canon_model(case, resp):
    if "error" in resp:
        return resp
    evs = merged_events(case)
    if case["op"] == "grp_part":
        log, subs = [], []
        for (t, _), effs in zip(evs, resp["effects"]):
            for e in effs:
                if e[0] == "got":
                    log.append([t, "got", e[1], e[2]])
                elif e[0] == "subSrc":
                    subs.append([t, None])
                else:
                    subs[-1][1] = t
        return {"log": log, "src_sub": subs, "escaped": []}
    tap = case["subj"] == "tap"
    until = case["op"] == "grp_until"
    log = []
    src_sub = [[SUB_AT, None]]
    dur_subs = [[] for _ in (case["durs"] if until else [])]
    escaped = []
    for (t, _), effs in zip(evs, resp["effects"]):
        for e in effs:
            if e[0] == "O":
                log.append([t, "O", e[1]])
            elif e[0] == "W":
                if tap:
                    log.append([t, "W", e[1], e[2]])
            elif e[0] == "S":
                log.append([t, "S", e[1], e[2]])
            elif e[0] == "unsubSrc":
                src_sub[0][1] = t
            elif e[0] == "subDur":       # only hot pool entries record their subscriptions
                if e[1] < len(dur_subs) and "hot" in case["durs"][e[1]]:
                    dur_subs[e[1]].append([t, None])
            elif e[0] == "unsubDur":
                if e[1] < len(dur_subs) and "hot" in case["durs"][e[1]]:
                    dur_subs[e[1]][-1][1] = t
            elif e[0] == "escaped":
                escaped.append(e[1])
    if case.get("nest") is not None:
        src_sub = []           # a Subject source records no subscription interval
    res = {"log": log, "src_sub": src_sub, "dur_subs": dur_subs, "escaped": escaped}
    if tap:
        res["wlogs"] = resp["wlogs"]
    return res


# ------------------------------------------------------------------------------------------ generators
FALSY = [None, 0, False, "", 0.0]
MIXED = [None, 0, False, "", 0.0, 1, True, "a", (), 2]


def _fn(rng, dom, rng_vals, p_raise, name, dflt=None):
    tab = []
    for v in dom:
        if rng.random() < p_raise:
            tab.append([enc(v), {"raise": name}])
        else:
            tab.append([enc(v), enc(rng.choice(rng_vals))])
    return {"tab": tab, "dflt": enc(dflt if dflt is not None else rng_vals[0])}


def gen_src(rng, pool, nmax=None):
    n = rng.choice([0, 1, 2, 3, 4, 5, 6, 8, 12]) if nmax is None else rng.randrange(0, nmax + 1)
    t = SUB_AT + rng.choice([-10, 0, 1, 5, 10, 10])
    msgs = []
    for _ in range(n):
        msgs.append([t, ["N", enc(rng.choice(pool))]])
        t += rng.choice([0, 5, 10, 10, 20, 30])
    r = rng.random()
    if r < 0.45:
        msgs.append([t, ["C"]])
    elif r < 0.75:
        msgs.append([t, ["E", f"s{rng.randrange(3)}"]])
    if msgs and msgs[-1][1][0] != "N" and rng.random() < 0.15:   # non-conforming tail
        for _ in range(rng.randrange(1, 4)):
            t += rng.choice([0, 5, 10])
            msgs.append([t, rng.choice([["N", enc(rng.choice(pool))], ["C"], ["E", "late"]])])
    return msgs


def gen_group(rng):
    until = rng.random() < 0.75
    style = rng.choice(["few", "few", "falsy", "many", "mixed"])
    if style == "few":
        pool, keys = list(range(6)), rng.choice([["a", "b"], ["a", "b", "c"], [0, 1]])
    elif style == "falsy":
        pool, keys = list(range(6)), FALSY
    elif style == "many":
        pool, keys = list(range(8)), list(range(100, 108))
    else:
        pool, keys = MIXED, MIXED
    if style == "many":
        key = {"tab": [[enc(v), enc(100 + v)] for v in pool], "dflt": enc(100)}
    elif style == "mixed" and rng.random() < 0.5:
        key = {"tab": [[enc(v), enc(v)] for v in pool if v != ()], "dflt": enc("z")}       # identity keys: 0 == False == 0.0 collide
    else:
        key = _fn(rng, pool, keys, 0.04 if rng.random() < 0.3 else 0.0, "kerr")
    elem = None
    if rng.random() < 0.5:
        elem = _fn(rng, pool, [("e", 0), ("e", 1), None, 0, "", 7, False], 0.05 if rng.random() < 0.3 else 0.0, "eerr")
    src = gen_src(rng, pool)
    times = sorted({t for t, _ in src}) or [SUB_AT + 10]
    tmax = times[-1]

    def some_time():
        r = rng.random()
        if r < 0.55:
            return rng.choice(times)
        if r < 0.8:
            return rng.choice(times) + rng.choice([-5, 5, 3])
        return tmax + rng.choice([5, 10, 50])

    tap = rng.random() < 0.85
    durs = []
    if until:
        allow_sync = rng.random() < 0.15
        derived = rng.random() < 0.25
        for g in range(rng.choice([1, 2, 3, 4, 6, 8])):
            r = rng.random()
            if derived and rng.random() < 0.7:
                n = rng.choice([0, 0, 1, 1, 2, 3])
                durs.append({"grp": n, "style": rng.choice(["skip", "take"]) if n == 0 else "skip"})
            elif r < 0.2:
                durs.append({"never": 1})
            elif allow_sync and r < 0.4:
                durs.append({"sync": rng.choice([["C"], ["N", 0], ["N", 0], ["E", f"dsync{g}"]])})
            else:
                ms = []
                for _ in range(rng.choice([1, 1, 2])):
                    k = rng.random()
                    ms.append([some_time(), ["N", 0] if k < 0.55 else (["C"] if k < 0.88 else ["E", f"d{g}"])])
                ms.sort(key=lambda m: m[0])
                durs.append({"hot": ms})
    hots = ["s"] + [g for g, d in enumerate(durs) if "hot" in d]
    rng.shuffle(hots)
    acts, imm, subj_raise, dur_raise = [], [], [], []
    outer_only = tap and rng.random() < 0.2     # the consumer stops listening for new groups but keeps its group subscriptions
    if outer_only:
        imm = [True] * 8
        mid = [t for t in times[:-1] if t > SUB_AT] or times
        acts.append([rng.choice(mid) + rng.choice([0, 3, 5]), "dispose"])
        if rng.random() < 0.3:
            acts.append([some_time(), "gdisp", rng.randrange(0, 3)])
    elif tap:
        ng = 8
        imm = [rng.random() < 0.85 for _ in range(ng)]
        if rng.random() < 0.25:
            acts.append([some_time(), "dispose"])
        for g in range(ng):
            if not imm[g] and rng.random() < 0.6:
                acts.append([some_time(), "gsub", g])
            if rng.random() < 0.12:
                acts.append([some_time(), "gdisp", g])
        rng.shuffle(acts)
        if rng.random() < 0.04:
            subj_raise = [rng.randrange(0, 3)]
    if until and rng.random() < 0.05:
        dur_raise = [rng.randrange(0, 3)]
    return {"op": "grp_until" if until else "grp_by", "hots": hots, "src": src, "durs": durs, "key": key, "elem": elem,
            "subj": "tap" if tap else "default", "subj_raise": subj_raise, "dur_raise": dur_raise, "imm": imm, "acts": acts}


TRUTHS = [True, False, 0, 1, "", "x", None, (), (0,)]


def gen_part(rng):
    indexed = rng.random() < 0.4
    pool = rng.choice([list(range(6)), MIXED])
    src = gen_src(rng, pool, nmax=8)
    p_raise = 0.06 if rng.random() < 0.3 else 0.0
    if indexed:
        dom = [(v, i) for v in pool for i in range(9)]
        pred = _fn(rng, dom, TRUTHS, p_raise / 3, "perr")
    else:
        pred = _fn(rng, pool, TRUTHS, p_raise, "perr")
    times = sorted({t for t, _ in src}) or [SUB_AT]
    ns = rng.choice([2, 2, 3, 4])
    slots = [False, True] + [rng.random() < 0.5 for _ in range(ns - 2)]
    acts = []
    for j in range(ns):
        r = rng.random()
        ts = (times[0] - rng.choice([1, 5, 10])) if r < 0.55 else (rng.choice(times) + rng.choice([0, 0, 5, -5]) if r < 0.9 else times[-1] + 10)
        ts = max(ts, 1)
        acts.append([ts, "sub", j])
        if rng.random() < 0.4:
            acts.append([ts + rng.choice([0, 5, 10, 20, 40, 80]), "disp", j])
    rng.shuffle(acts)
    return {"op": "grp_part", "indexed": indexed, "src": src, "pred": pred, "slots": slots, "acts": acts}


def gen_nest(rng):
    """re-entrant feedback cases: Subject source, the outer observer pushes nest[g] into it from inside on_next(group #g)"""
    until = rng.random() < 0.6
    pool = list(range(6))
    keys = rng.choice([["a", "b"], ["a", "b", "c"], [0, False, ""]])
    key = _fn(rng, pool, keys, 0.0, "kerr")
    elem = None if rng.random() < 0.6 else _fn(rng, pool, [("e", 0), None, 0, 7], 0.0, "eerr")
    src, t = [], SUB_AT + rng.choice([5, 10])
    for _ in range(rng.choice([1, 2, 3, 4, 6])):
        src.append([t, ["N", enc(rng.choice(pool))]]); t += rng.choice([0, 5, 10, 20])
    r = rng.random()
    if r < 0.5:
        src.append([t, ["C"]])
    elif r < 0.75:
        src.append([t, ["E", "s0"]])
    times = sorted({m[0] for m in src})
    durs = []
    if until:
        for g in range(5):
            k = rng.random()
            if k < 0.35:
                durs.append({"never": 1})
            elif k < 0.6:
                durs.append({"grp": rng.choice([0, 1, 2]), "style": "skip"})
            else:
                durs.append({"hot": [[rng.choice(times) + rng.choice([0, 0, 5]), rng.choice([["N", 0], ["C"]])]]})
    hots = ["s"] + [g for g, d in enumerate(durs) if "hot" in d]
    rng.shuffle(hots)
    tabk = {fw.key(a): r for a, r in key["tab"]}
    nest = []
    for g in range(4):
        nest.append([enc(rng.choice(pool)) for _ in range(rng.choice([0, 1, 1, 2]))])
    return {"op": "grp_until" if until else "grp_by", "hots": hots, "src": src, "durs": durs, "key": key, "elem": elem,
            "subj": "tap", "subj_raise": [], "dur_raise": [], "imm": [rng.random() < 0.9 for _ in range(6)], "acts": [], "nest": nest}


def gen_resub(rng):
    pool = rng.choice([list(range(6)), MIXED])
    keys = rng.choice([["a", "b"], ["a", "b", "c"], FALSY, [0, 1]])
    key = _fn(rng, pool, keys, 0.03 if rng.random() < 0.2 else 0.0, "kerr")
    elem = None if rng.random() < 0.6 else _fn(rng, pool, [("e", 0), None, 0, "", 7], 0.0, "eerr")
    t, src = rng.choice([1, 5, 10]), []
    for _ in range(rng.choice([1, 2, 3, 4, 6])):
        src.append([t, ["N", enc(rng.choice(pool))]]); t += rng.choice([5, 10, 20])
    r = rng.random()
    if r < 0.6:
        src.append([t, ["C"]])
    elif r < 0.8:
        src.append([t, ["E", "s0"]])
    until = rng.random() < 0.6
    durs, dur_of_key = [], {"tab": [], "dflt": -1}
    if until:
        for g in range(3):
            k = rng.random()
            durs.append({"never": 1} if k < 0.25 else {"sync": ["C"]} if k < 0.3 else
                        {"cold": [[rng.choice([5, 10, 15, 20, 40]), rng.choice([["N", 0], ["C"]])]]})
        dur_of_key = _fn(rng, keys, [0, 1, 2, -1], 0.0, "x", dflt=-1)
    sub2 = rng.choice([1000, 1000, 1000, 230, 205])
    dispose1 = rng.choice([None, None, SUB_AT + rng.choice([3, 12, 30, 300])])
    return {"op": "grp_resub", "until": until, "src": src, "key": key, "elem": elem, "durs": durs, "dur_of_key": dur_of_key,
            "sub2": sub2, "dispose1": dispose1}


def cases(rng, tier):
    for _ in range(fw.tier_scale(tier, 150, 1500)):
        yield gen_resub(rng)
    for _ in range(fw.tier_scale(tier, 300, 3000)):
        yield gen_nest(rng)
    for _ in range(fw.tier_scale(tier, 3000, 30000)):
        yield gen_group(rng)
    for _ in range(fw.tier_scale(tier, 1000, 10000)):
        yield gen_part(rng)


# ------------------------------------------------------------------------------------------ oracle (property text)
SYNC_TAG = "[C19-sync-duration-drops-element]"
SYNC_ID = "C19-sync-duration-drops-element"


def classify(case, why):
    """the known finding, and nothing else: tagged message AND the named group of this case really has a duration that fires
    (value / completion) synchronously inside its own subscribe"""
    import re
    if not isinstance(why, str) or not why.startswith(SYNC_TAG) or case.get("op") != "grp_until":
        return None
    m = re.match(re.escape(SYNC_TAG) + r" group #(\d+):", why)
    if not m:
        return None
    g = int(m.group(1))
    d = case["durs"][g] if g < len(case["durs"]) else {}
    if "sync" in d and d["sync"][0] in ("N", "C"):
        return SYNC_ID
    return None


def _call(f, x):
    try:
        return ("ok", f(x))
    except InjectedError as e:
        return ("raise", e.name)


def oracle(case, out):
    if out["escaped"]:
        return f"exception escaped into the scheduler: {out['escaped'][:3]}"
    if case["op"] == "grp_part":
        return oracle_part(case, out)
    if case.get("nest") is not None:
        return oracle_nest(case, out)
    if case["op"] == "grp_resub":
        if fw.key(out["second"]) != fw.key(out["fresh"]):
            return (f"second subscription of the same grouped observable differs from a fresh one: second (subscribed @{case['sub2']}) "
                    f"recorded {out['second']}, a fresh pipeline subscribed at the same time records {out['fresh']}")
        return None
    return oracle_group(case, out)


def oracle_group(case, out):
    until = case["op"] == "grp_until"
    tap = case["subj"] == "tap"
    keyf = FnTab.from_json(case["key"])
    elemf = FnTab.from_json(case["elem"]) if case["elem"] is not None else (lambda x: x)
    durs = case["durs"] if until else []
    # normalise: without the tap the immediate, never-disposed subscriber's record stands for the writer's
    log = []
    for e in out["log"]:
        if tap:
            log.append(e)
        elif e[1] == "O" and e[2][0] == "G":
            log.append([e[0], "M", e[2][1]]); log.append(e)
        elif e[1] == "S":
            log.append([e[0], "W", e[2], e[3]])
        else:
            log.append(e)
    src_end = out["src_sub"][0][1] if out["src_sub"] else None
    if len(out["src_sub"]) != 1 or out["src_sub"][0][0] != SUB_AT:
        return f"source subscribed {out['src_sub']}, expected once at {SUB_AT}"

    open_ = {}        # key -> g : groups currently open, looked up with Python ==/hash (the property's notion of key)
    gkey, created_at, closed, glog = {}, {}, {}, {}
    arrivals = []
    error_alls = []   # (name, t, groups open then, position)
    outer_term = None
    cur = None
    n_created = 0
    sync_drops = []

    def finish():
        nonlocal cur
        c, cur = cur, None
        if c is None:
            return None
        if c["kraise"] is not None:
            error_alls.append((c["kraise"], c["t"], set(open_.values())))
            return None
        if c["new"] and c["created"] is None:
            if c["wouldbe"] in case["subj_raise"]:
                error_alls.append((f"subj{c['wouldbe']}", c["t"], set(open_.values())))
                return None
            if not tap and until and c["wouldbe"] in case["dur_raise"]:     # created but never announced: invisible without the tap
                error_alls.append((f"durmap{c['wouldbe']}", c["t"], set(open_.values())))
                return None
            return f"element {c['x']!r}@{c['t']} has key {c['k']!r} with no open group, but no new group was created"
        g = c["created"] if c["new"] else c["g"]
        if c["new"] and g in case["dur_raise"] and until:
            error_alls.append((f"durmap{g}", c["t"], set(open_.values()) | {g}))
            return None
        sync = c["new"] and g < len(durs) and "sync" in durs[g]
        if sync and durs[g]["sync"][0] == "E":
            error_alls.append((durs[g]["sync"][1], c["t"], set(open_.values()) | {g}))
            return None
        if c["v"][0] == "raise":      # element_mapper raised: every group still open (a synchronously expired new group is not) fails
            error_alls.append((c["v"][1], c["t"], set(open_.values())))
            return None
        if c["delivered"] == 0:
            if sync and g in closed and closed[g][0] == c["t"] and closed[g][1] == ["C"]:
                # known finding: the duration of the group created by this element fired inside its own subscribe call,
                # the group expired before the element was pushed.  Recorded, checking continues (anything else wins).
                sync_drops.append(f"{SYNC_TAG} group #{g}: element {c['x']!r}@{c['t']} (key {c['k']!r}) created the group, whose "
                                  f"duration fired synchronously inside its own subscribe; the element was delivered to no group")
                return None
            return f"element {c['x']!r}@{c['t']} (key {c['k']!r}) was delivered to no group"
        return None

    for pos, e in enumerate(log):
        t, kind = e[0], e[1]
        if kind == "K":
            r = finish()
            if r:
                return r
            if error_alls:
                return f"element arrived @{t} after the operator failed with {error_alls[0][0]}"
            if outer_term is not None and False:
                pass
            x = fw.dec(e[2])
            arrivals.append([t, e[2]])
            kr = _call(keyf, x)
            if kr[0] == "raise":
                cur = {"t": t, "x": x, "kraise": kr[1]}
                continue
            k = kr[1]
            g = open_.get(k)
            cur = {"t": t, "x": x, "kraise": None, "k": k, "g": g, "new": g is None, "created": None, "wouldbe": n_created,
                   "v": _call(elemf, x), "delivered": 0}
        elif kind == "M":
            g = e[2]
            if cur is None or cur["kraise"] is not None or cur["created"] is not None:
                return f"group #{g} created @{t} outside the handling of a keyed element"
            if not cur["new"]:
                return f"group #{g} created @{t} for key {cur['k']!r} although group #{cur['g']} with that key is open"
            if g != n_created:
                return f"group index {g} out of sequence"
            n_created += 1
            cur["created"] = g
            open_[cur["k"]] = g
            gkey[g], created_at[g], glog[g] = cur["k"], t, []
        elif kind == "O" and e[2][0] == "G":
            g = e[2][1]
            if outer_term is not None:
                return f"outer subscriber received a group after its terminal"
            if cur is None or cur.get("created") != g:
                return f"group #{g} announced @{t} but not created by the current element"
            if fw.key(e[2][2]) != fw.key(enc(cur["k"])):
                return f"group #{g} announced with key {e[2][2]!r}, element's key is {enc(cur['k'])!r}"
        elif kind == "O":
            if outer_term is not None:
                return "outer subscriber received two terminals"
            outer_term = (t, e[2], pos)
            still = [g for g in open_.values()]
            if still:
                return f"outer terminal {e[2]}@{t} delivered while groups {still} are still open"
        elif kind == "W":
            g, n = e[2], e[3]
            if g not in glog:
                return f"notification for unknown group #{g}"
            if g in closed:
                return f"group #{g} received {n} after its terminal"
            glog[g].append([t, n])
            if n[0] == "N":
                if cur is None or cur["kraise"] is not None:
                    return f"group #{g} received {n}@{t} that is no arriving element"
                want = cur["created"] if cur["new"] else cur["g"]
                if g != want:
                    return f"element {cur['x']!r}@{t} with key {cur['k']!r} delivered to group #{g} (key {gkey[g]!r}), expected group #{want}"
                if cur["delivered"]:
                    return f"element {cur['x']!r}@{t} delivered twice"
                if cur["v"][0] != "ok" or fw.key(n[1]) != fw.key(enc(cur["v"][1])):
                    return f"group #{g} received {n[1]!r}, expected element_mapper({cur['x']!r}) = {cur['v']}"
                if not (gkey[g] == cur["k"]):
                    return f"group #{g} has key {gkey[g]!r} but received an element with key {cur['k']!r}"
                cur["delivered"] = 1
            else:
                closed[g] = (t, n, pos)
                if open_.get(gkey[g]) == g:
                    del open_[gkey[g]]
    r = finish()
    if r:
        return r

    # arrivals = the source's elements while the operator was subscribed, in order
    evs = merged_events(case)
    src_evs = [(t, ev[1]) for t, ev in evs if ev[0] == "src"]
    first_term = next(((t, n) for t, n in src_evs if n[0] != "N"), None)
    expect = []
    for t, n in src_evs:
        if n[0] != "N":
            break
        expect.append([t, n[1]])
    must = [a for a in expect if src_end is None or a[0] < src_end]
    may = [a for a in expect if src_end is None or a[0] <= src_end]
    if fw.key(arrivals[:len(must)]) != fw.key(must) or fw.key(arrivals) != fw.key(may[:len(arrivals)]):
        return f"elements that reached the operator {arrivals} are not the source's elements {may} up to the end of its subscription @{src_end}"

    # every closing of a group is justified; operator-wide failures close everything
    for name, t, gs in error_alls:
        for g in gs:
            if g in glog and (g not in closed or closed[g][0] != t or closed[g][1] != ["E", name]):
                return f"callback/duration failure {name}@{t}: open group #{g} ended with {closed.get(g)}"
        stopped_before = any(a[1] == "dispose" and SUB_AT < a[0] < t for a in case["acts"])
        if outer_term is None and not stopped_before and not any(a[1] == "dispose" and a[0] == t for a in case["acts"]):
            return f"callback/duration failure {name}@{t} not delivered to the outer subscriber"
        if outer_term is not None and outer_term[0] == t and outer_term[1] != ["E", name] and not stopped_before:
            return f"callback/duration failure {name}@{t}: outer got {outer_term[1]}"
    fail_names = {(t, name) for name, t, _ in error_alls}
    for g, (t, n, pos) in closed.items():
        ok = False
        d = durs[g] if g < len(durs) else {"never": 1}
        if n == ["C"]:
            if "hot" in d and any(m[0] == t and m[0] >= created_at[g] and m[1][0] in ("N", "C") for m in d["hot"]):
                ok = True          # its duration fired
            if "sync" in d and d["sync"][0] in ("N", "C") and t == created_at[g]:
                ok = True
            if "grp" in d:      # group-derived duration: exactly after the (n+1)-th element, in the same instant
                ns = [m for m in glog[g] if m[1][0] == "N"]
                if len(ns) == d["grp"] + 1 and ns[-1][0] == t and glog[g][-2:] == [ns[-1], [t, n]]:
                    ok = True
        if first_term is not None and first_term[0] == t and first_term[1] == n:
            ok = True              # the source's terminal
        if n[0] == "E" and (t, n[1]) in fail_names:
            ok = True
        if n[0] == "E" and any("hot" in dd and any(m[0] == t and m[1] == n for m in dd["hot"]) for dd in durs):
            ok = True              # a duration observable failed
        if not ok:
            return f"group #{g} ended with {n}@{t} although neither its duration fired nor the source/operator terminated then"
    # groups open at the source's terminal end with it
    # (once the outer subscription is disposed the operator lives on the group subscribers' references only and may
    #  unsubscribe from the source at the very instant of its terminal: nothing is demanded then)
    outer_disposed = any(a[1] == "dispose" and SUB_AT < a[0] < first_term[0] for a in case["acts"]) if first_term else False
    if first_term is not None and src_end is not None and src_end == first_term[0] and not outer_disposed:
        dangling = [g for g in glog if g not in closed]
        if dangling:
            return f"source terminated with {first_term[1]}@{first_term[0]} but groups {dangling} never ended"
        for g, (t, n, pos) in closed.items():
            if t == first_term[0] and n != first_term[1] and n != ["C"] and not fail_names and not any(
                    "hot" in dd and any(m[0] == t and m[1] == n for m in dd["hot"]) for dd in durs):
                return f"group #{g} ended with {n} at the source's terminal {first_term[1]}"
        if outer_term is not None and outer_term[0] == first_term[0] and not fail_names and outer_term[1] != first_term[1] and not any(
                "hot" in dd and any(m[0] == first_term[0] and m[1][0] == "E" for m in dd["hot"]) for dd in durs):
            return f"outer ended with {outer_term[1]}, source terminal is {first_term[1]}"
    # a duration that fires strictly after the creation of its group and strictly before the operator's end expires it
    for g in glog:
        d = durs[g] if g < len(durs) else {"never": 1}
        if "hot" in d:
            fire = next((m for m in d["hot"] if m[0] > created_at[g] and m[0] > SUB_AT), None)
            if fire is not None and fire[1][0] != "E" and (src_end is None or fire[0] < src_end):
                if g not in closed or closed[g][0] > fire[0]:
                    return f"duration of group #{g} fired @{fire[0]} but the group ended {closed.get(g)}"
    for g in glog:
        d = durs[g] if g < len(durs) else {"never": 1}
        if "grp" in d:
            ns = [m for m in glog[g] if m[1][0] == "N"]
            if len(ns) > d["grp"] + 1:
                return f"group #{g} (duration = group.skip({d['grp']})) received {len(ns)} elements, it must expire with its {d['grp'] + 1}-th"
            if len(ns) == d["grp"] + 1 and (g not in closed or closed[g][0] != ns[-1][0]):
                return f"group #{g} (duration = group.skip({d['grp']})) received its {d['grp'] + 1}-th element @{ns[-1][0]} but ended {closed.get(g)}"
    # the source stays subscribed exactly as long as the property needs it (C02 proviso): until its terminal, a failure of the
    # operator, or - once the outer subscription is disposed - until the last group subscriber is gone (terminated / unsubscribed)
    if tap:
        INF = float("inf")
        tl = []        # (time, rank, seq, kind, g): rank 0 = caused by a hot message of that instant, 1.. = harness action order
        for pos, e in enumerate(out["log"]):
            if e[1] == "O" and e[2][0] == "G" and (e[2][1] >= len(case["imm"]) or case["imm"][e[2][1]]):
                tl.append((e[0], 0, pos, "sub", e[2][1]))
            elif e[1] == "S" and e[3][0] != "N":
                tl.append((e[0], 0, pos, "end", e[2]))
        ann_t = {e[2][1]: e[0] for e in out["log"] if e[1] == "O" and e[2][0] == "G"}
        for i, a in enumerate(case["acts"]):
            if a[0] < SUB_AT:      # (actions at 200 are scheduled after the subscription at 200, hence effective)
                continue
            if a[1] == "dispose":
                tl.append((a[0], 1 + i, 0, "dispose", None))
            elif a[1] == "gsub" and a[2] in ann_t and ann_t[a[2]] <= a[0]:
                tl.append((a[0], 1 + i, 0, "sub", a[2]))
            elif a[1] == "gdisp":
                tl.append((a[0], 1 + i, 0, "end", a[2]))
        tl.sort(key=lambda x: (x[0], x[1], x[2]))
        holders, had, primary, release = set(), set(), False, None
        term_t = {}
        for e in out["log"]:
            if e[1] == "S" and e[3][0] != "N":
                term_t.setdefault(e[2], e[0])
        for t, _, _, kind, g in tl:
            if kind == "sub":
                # (a subscriber whose terminal arrives in the instant of its subscription - replay on an ended group, or an
                #  immediately expiring group - is gone at once)
                if g not in had and release is None and not (g in term_t and term_t[g] <= t):
                    holders.add(g)
                had.add(g)
            elif kind == "end":
                holders.discard(g)
            else:
                primary = True
            if primary and not holders and release is None:
                release = t
        stops = [x for x in ([first_term[0]] if first_term else []) + [t for _, t, _ in error_alls] + ([release] if release is not None else [])]
        lenient = {m[0] for dd in durs if "hot" in dd for m in dd["hot"] if m[1][0] == "E"}
        must = min(stops) if stops else None
        if must is None:
            if src_end is not None and src_end not in lenient:
                return f"source unsubscribed @{src_end} although it has not terminated, the operator has not failed and " + (
                    f"group subscribers {sorted(holders)} are still subscribed" if primary else "the outer subscription is not disposed")
        else:
            if src_end is not None and src_end < must and src_end not in lenient:
                return (f"source unsubscribed @{src_end}: too early - outer disposed={primary}, group subscribers still subscribed and open "
                        f"until {release if release is not None else 'the source terminal'} (expected release @{must})")
            if (src_end is None or src_end > must) and not any(x < must for x in lenient):
                return f"source still subscribed after @{must} (terminal / failure / last group subscriber gone after the outer dispose); unsubscribed @{src_end}"
    # subscribers: an immediate, never disposed subscriber sees exactly the writer's record; any other a part of it
    if tap:
        slog = {}
        for e in out["log"]:
            if e[1] == "S":
                slog.setdefault(e[2], []).append([e[0], e[3]])
        for g, sl in slog.items():
            full = (g >= len(case["imm"]) or case["imm"][g]) and not any(a[1] == "gdisp" and a[2] == g for a in case["acts"])
            if full and fw.key(sl) != fw.key(glog[g]):
                return f"subscriber of group #{g} saw {sl}, the group received {glog[g]}"
            it = iter(glog[g])
            for s in sl:
                if s[1][0] == "N":
                    if not any(fw.key(w) == fw.key(s) for w in it):
                        return f"subscriber of group #{g} saw {s} which is not in the group's record in that order"
                elif g not in closed or closed[g][1] != s[1] or closed[g][0] > s[0]:
                    return f"subscriber of group #{g} saw terminal {s}, group ended {closed.get(g)}"
    return sync_drops[0] if sync_drops else None


def oracle_nest(case, out):
    """re-entrant feedback (the outer observer pushes elements into a Subject source from inside on_next(group)): a key has at
    most one live group, every element that reached the operator is delivered exactly once, to a group of its key, and every
    group ends with its duration or with the source's terminal"""
    keyf = FnTab.from_json(case["key"])
    elemf = FnTab.from_json(case["elem"]) if case["elem"] is not None else (lambda x: x)
    durs = case["durs"] if case["op"] == "grp_until" else []
    open_, gkey, closed, glog, created_at = {}, {}, {}, {}, {}
    pending = []          # arrivals not yet delivered: [x, key, value, time]
    outer_term = None
    for e in out["log"]:
        t, kind = e[0], e[1]
        if kind == "K":
            x = fw.dec(e[2])
            pending.append([x, keyf(x), elemf(x), t])
        elif kind == "M":
            if not pending:
                return f"group #{e[2]} created @{t} without an arriving element"
            k = pending[-1][1]
            if k in open_:
                return f"group #{e[2]} created @{t} for key {k!r} although group #{open_[k]} with that key is open (second live group for one key)"
            open_[k] = e[2]; gkey[e[2]] = k; glog[e[2]] = []; created_at[e[2]] = t
        elif kind == "O" and e[2][0] == "G":
            if fw.key(e[2][2]) != fw.key(enc(gkey.get(e[2][1]))):
                return f"group #{e[2][1]} announced with key {e[2][2]!r}, created for key {enc(gkey.get(e[2][1]))!r}"
        elif kind == "O":
            outer_term = (t, e[2])
            if open_:
                return f"outer terminal {e[2]}@{t} delivered while groups {sorted(open_.values())} are still open"
        elif kind == "W":
            g, n = e[2], e[3]
            if g in closed:
                return f"group #{g} received {n} after its terminal"
            glog[g].append([t, n])
            if n[0] == "N":
                hit = next((p for p in pending if p[1] == gkey[g] and fw.key(enc(p[2])) == fw.key(n[1]) and p[3] == t), None)
                if hit is None:
                    return f"group #{g} (key {gkey[g]!r}) received {n[1]!r}@{t}, which is no undelivered arriving element of its key"
                pending.remove(hit)
            else:
                closed[g] = (t, n)
                if open_.get(gkey[g]) == g:
                    del open_[gkey[g]]
    sync_lost = [p for p in pending]
    if sync_lost:
        return f"elements {[(p[0], p[3]) for p in sync_lost]} reached the operator but were delivered to no group"
    evs = merged_events(case)
    src_evs = [(t, ev[1]) for t, ev in evs if ev[0] == "src"]
    first_term = next(((t, n) for t, n in src_evs if n[0] != "N"), None)
    for g, (t, n) in closed.items():
        d = durs[g] if g < len(durs) else {"never": 1}
        ok = first_term is not None and first_term[0] == t and first_term[1] == n
        if n == ["C"] and "hot" in d and any(m[0] == t and m[0] >= created_at[g] and m[1][0] in ("N", "C") for m in d["hot"]):
            ok = True
        if n == ["C"] and "grp" in d:
            ns = [m for m in glog[g] if m[1][0] == "N"]
            # (elements fed back from inside on_next(group) are delivered before the duration subscribes: not counted by it)
            ok = ok or (len(ns) >= d["grp"] + 1 and ns[-1][0] == t)
        if not ok:
            return f"group #{g} ended with {n}@{t} although neither its duration fired nor the source terminated then"
    if first_term is not None:
        dangling = [g for g in glog if g not in closed]
        if dangling:
            return f"source terminated with {first_term[1]}@{first_term[0]} but groups {dangling} never ended"
        if outer_term is None or outer_term[1] != first_term[1]:
            return f"outer subscriber ended with {outer_term}, source terminal is {first_term}"
    return None


def oracle_part(case, out):
    evs = merged_events(case)
    src = [(t, ev[1]) for t, ev in evs if ev[0] == "src"]
    terms = [i for i, (t, n) in enumerate(src) if n[0] != "N"]
    if terms and terms[0] != len(src) - 1:
        return None      # non-conforming source: correspondence only
    predf = FnTab.from_json(case["pred"])
    # position of every event in the static global order
    order = {}
    for i, (t, ev) in enumerate(evs):
        if ev[0] in ("sub", "disp"):
            order.setdefault((ev[0], ev[1]), i)
    src_pos = [i for i, (t, ev) in enumerate(evs) if ev[0] == "src"]
    term_pos = src_pos[terms[0]] if terms else None
    got = {}
    for e in out["log"]:
        got.setdefault(e[2], []).append([e[0], e[3]])
    # was some subscription alive when the source terminated (then publish's Subject saw the terminal)?
    nslots = len(case["slots"])
    exp = {}
    ends = {}
    for j in range(nslots):
        if ("sub", j) not in order:
            continue
        s0 = order[("sub", j)]
        d0 = order.get(("disp", j))
        if d0 is not None and d0 < s0:
            d0 = None            # disposing before subscribing does nothing
        seq, idx, end = [], 0, d0
        for p, (t, n) in zip(src_pos, src):
            if p < s0 or (d0 is not None and p > d0):
                continue
            if n[0] == "N":
                x = fw.dec(n[1])
                r = _call(predf, (x, idx) if case["indexed"] else x)
                if r[0] == "raise":
                    seq.append([t, ["E", r[1]]]); end = p
                    break
                idx += 1
                if bool(r[1]) != case["slots"][j]:
                    seq.append([t, n])
            else:
                seq.append([t, n]); end = p
        exp[j], ends[j] = seq, end
    if term_pos is not None:
        seen_term = any(order[("sub", j)] < term_pos and (ends[j] is None or ends[j] >= term_pos) for j in exp)
        for j in exp:
            if order[("sub", j)] > term_pos and seen_term:
                exp[j] = [[evs[order[("sub", j)]][0], src[terms[0]][1]]]     # replay of the terminal
    for j in exp:
        if fw.key(got.get(j, [])) != fw.key(exp[j]):
            return f"output {'2' if case['slots'][j] else '1'} (subscription {j}) saw {got.get(j, [])}, expected {exp[j]}"
    return None


def nontrivial(case, out):
    if case["op"] == "grp_resub":
        return len(out["fresh"]) >= 3
    if case["op"] == "grp_part":
        return len({e[2] for e in out["log"]}) >= 2
    groups = [e for e in out["log"] if e[1] == "O" and e[2][0] == "G"]
    return len(groups) >= 2 and any(e[1] in ("W", "S") and e[3][0] == "N" for e in out["log"])


def bucket(case, out):
    yield case["op"]
    if case.get("nest") is not None:
        yield "reentrant-feedback"
        ann = {e[2][1]: fw.key(e[2][2]) for e in out["log"] if e[1] == "O" and e[2][0] == "G"}
        kf = FnTab.from_json(case["key"])
        for g, ys in enumerate(case["nest"]):
            if g in ann and any(fw.key(enc(kf(fw.dec(y)))) == ann[g] for y in ys):
                yield "reentrant-feedback:same-key-element-inside-on_next(group)"
                break
    if case["op"] == "grp_resub":
        yield "resubscription"
        yield "resubscription:" + ("overlapping" if case["sub2"] < 600 else "after-first-ended" if case["dispose1"] or any(n[0] != "N" for _, n in case["src"]) else "first-still-open")
        return
    if case["op"] == "grp_part":
        yield "part:indexed" if case["indexed"] else "part:plain"
        if any(e[3][0] == "E" and e[3][1] == "perr" for e in out["log"]):
            yield "part:predicate-raised"
        if any(a[1] == "disp" for a in case["acts"]):
            yield "part:disposal"
        if len(out["src_sub"]) > 1:
            yield "part:reconnected"
        if len(case["slots"]) > 2:
            yield "part:>2-subscriptions"
        return
    ann = [e for e in out["log"] if e[1] == "O" and e[2][0] == "G"]
    n = len(ann)
    yield "groups:" + ("0" if n == 0 else "1" if n == 1 else "2-3" if n <= 3 else "4+")
    keys = [fw.key(e[2][2]) for e in ann]
    if len(set(keys)) < len(keys):
        yield "recreated-group(type-identical key)"
    dk = {}
    try:
        for e in ann:
            dk.setdefault(fw.dec(e[2][2]), set()).add(fw.key(e[2][2]))
        if any(len(v) > 1 for v in dk.values()):
            yield "recreated-group(equal keys of different type, e.g. 0/False)"
    except TypeError:
        pass
    el_times = {e[0] for e in out["log"] if e[1] == "K"}
    for e in out["log"]:
        if e[1] == "W" and e[3] == ["C"] and e[0] in el_times and case["op"] == "grp_until":
            g = e[2]
            d = case["durs"][g] if g < len(case["durs"]) else {}
            if "hot" in d and any(m[0] == e[0] for m in d["hot"]):
                yield "expiry-at-element-instant:" + ("duration-first" if case["hots"].index(g) < case["hots"].index("s") else "source-first")
                break
    ot = [e[2] for e in out["log"] if e[1] == "O" and e[2][0] != "G"]
    if not ot:
        yield "outer-end:" + ("disposed" if any(a[1] == "dispose" for a in case["acts"]) else "none")
    elif ot[0] == ["C"]:
        yield "outer-end:completed"
    else:
        nm = ot[0][1]
        yield "outer-end:error-" + ("source" if nm.startswith("s") and nm[1:].isdigit() else "duration" if nm.startswith("d") and nm[1:2].isdigit()
                                   else "dsync" if nm.startswith("dsync") else nm.rstrip("0123456789"))
    if any("sync" in d for d in case["durs"]) and case["op"] == "grp_until":
        yield "sync-duration-in-pool"
    if case["op"] == "grp_until":
        used = {e[2] for e in out["log"] if e[1] == "M"} | {e[2][1] for e in ann}
        dd = [g for g in used if g < len(case["durs"]) and "grp" in case["durs"][g]]
        if dd:
            yield "group-derived-duration"
            if any(e[1] in ("W", "S") and e[2] in dd and e[3] == ["C"] and any(x[0] == e[0] and x[1] == e[1] and x[2] == e[2] and x[3][0] == "N" for x in out["log"]) for e in out["log"]):
                yield "group-derived-duration:expired-by-its-element"
    if any(a[1] == "gsub" for a in case["acts"]):
        yield "late-group-subscription"
    if any(a[1] == "gdisp" for a in case["acts"]):
        yield "group-subscriber-disposal"
    if any(a[1] == "dispose" for a in case["acts"]):
        yield "outer-disposal"
    if case["subj"] != "tap":
        yield "default-subject"
    open_groups = len({e[2] for e in out["log"] if e[1] == "M"}) - len({e[2] for e in out["log"] if e[1] == "W" and e[3][0] != "N"})
    if ot and open_groups == 0:
        ends = [e for e in out["log"] if e[1] == "W" and e[3][0] != "N" and e[0] == [x for x in out["log"] if x[1] == "O" and x[2][0] != "G"][0][0]]
        if len(ends) >= 2:
            yield "terminal-with-several-groups-open"


def shrink(case):
    def cp(**kw):
        c = dict(case); c.update(kw); return c
    for i in range(len(case["src"])):
        yield cp(src=case["src"][:i] + case["src"][i + 1:])
    if case["op"] == "grp_resub":
        if case["dispose1"] is not None:
            yield cp(dispose1=None)
        if case["until"]:
            yield cp(until=False)
        return
    for i in range(len(case["acts"])):
        yield cp(acts=case["acts"][:i] + case["acts"][i + 1:])
    if case["op"] == "grp_part":
        return
    for g, d in enumerate(case["durs"]):
        if "hot" in d:
            for i in range(len(d["hot"])):
                ds = [dict(x) for x in case["durs"]]
                ds[g] = {"hot": d["hot"][:i] + d["hot"][i + 1:]}
                yield cp(durs=ds)
    if case["elem"] is not None:
        yield cp(elem=None)
    if case["imm"] and not all(case["imm"]):
        yield cp(imm=[True] * len(case["imm"]))
    if case["subj_raise"]:
        yield cp(subj_raise=[])
    if case["dur_raise"]:
        yield cp(dur_raise=[])


RULE = ("group cases: hot source (0..12 elements over value pools incl. None/0/False/''/0.0, terminal C/E/none, 15% non-conforming tail) through the "
        "real group_by_until (75%) / group_by (25%) with key tables over 2..8 keys (few / falsy / many / identity-over-mixed so that 0==False==0.0 collide), "
        "optional element tables, raising key/element/subject/duration mappers, a pool of hot duration observables firing N/C/E at the instants of "
        "elements (both creation orders), between and after, never-firing and synchronously-firing durations, durations derived from the group itself "
        "(g.pipe(skip(n)), n in 0..3, g.pipe(take(1))), outer disposal, late group "
        "subscriptions and group-subscriber disposals at generated times; partition cases: partition / partition_indexed with 2..4 subscriptions "
        "to the two outputs at different times, disposals, raising / non-boolean predicates; re-entrancy cases: a Subject-driven source, the outer observer pushes 0..2 follow-up elements (same or other key) into it from inside "
        "on_next(group); re-subscription cases (oracle only): ONE grouped observable over "
        "a cold source subscribed at 200 and again (after the first ended, or overlapping) must record what a fresh pipeline records. Distinct by canonical JSON; non-trivial = at least two "
        "groups announced and an element delivered (groups), at least two subscriptions received something (partition).")
ASSUMPTIONS = [
    "single-threaded / virtual-time execution: one run is one finite list of tagged events (source, duration #g, disposals, late subscriptions); theorems quantify over all such lists",
    "keys are hashable and Python ==/hash on keys is an equivalence relation (hypotheses hrefl/hsymm/htrans of the theorems; NaN-like keys excluded)",
    "subscribers do not call back into the operator from inside their callbacks other than subscribing to the announced group (the `imm` choice)",
    "known finding C19-sync-duration-drops-element: a duration observable that fires synchronously inside its own subscribe call (rx.empty(), rx.of(..)) "
    "expires its group before the creating element is pushed and that element reaches no group; the oracle flags exactly this shape (KNOWN-FINDING), "
    "C19.group_routes_to_key_partial excludes it (dsync = none for a group created by the element), C19.sync_duration_drops_element is the counter-example",
]
TRUSTED_EXTRA = ["reactivex.testing hot observables / TestScheduler as measuring instruments (static same-instant order = creation order)"]
LEVEL_TEXT = ("Lean theorems over the trace machine of group_by_until/group_by (writers map, expire, Subject terminals, RefCountDisposable, "
              "duration take(1) subscriptions) for ALL event lists, mappers (possibly raising) and subscriber choices, by an invariant proved "
              "preserved by every step: a new group is created iff no live group has an equal key (and subject_mapper does not raise); an "
              "element is appended to the log of exactly the unique live group of its key and to no other (group_routes_to_key_partial: except the known "
              "finding C19-sync-duration-drops-element); a source terminal is appended to every "
              "open group, then delivered to the outer subscriber; a firing duration completes exactly its group; logs are next*(terminal)? and "
              "frozen once stopped; expire() never raises KeyError. partition/partition_indexed (publish+ref_count+two filters): with both outputs "
              "subscribed, output 1 = filter(pred), output 2 = filter(not pred) in source order, both get the terminal, for all element lists. "
              "The model is tied to /repo by differential runs of the real operators on TestScheduler hot timelines (timed global log, "
              "subscription intervals, writer taps) and an independent property oracle.")
LEVEL_NOTE = ("source_released_iff (closed <-> source terminal seen or error-all happened or (outer stopped and no group subscriber holds a reference)), "
              "its 'not earlier' / 'not later' corollaries and live_subscriber_keeps_receiving are proved for every event list of `step`. Re-entrant "
              "feedback from inside the outer on_next (machine `stepN`, Subject-driven source in the correspondence, one level of nesting): "
              "nested_same_key_element_routed is a local theorem for one fed-back element of the same key and a plain duration; other nested shapes "
              "(different key, several elements, group-derived durations) are covered by the correspondence and the oracle only. "
              "Durations derived from the group itself (lambda g: g.pipe(ops.skip(n)) / take(1)) are in the model (`stepD`, re-entrant expire() inside "
              "writer.on_next, nested error-alls, fixed completion loop of fixes/C19_completion_mutates_writers.patch) and in the correspondence; for them "
              "the proved theorems are the ordering theorem group_announced_before_duration_before_element and derived_duration_counts / "
              "derived_duration_expires_with_element (local, any state); the invariant-based theorems are proved for the machine `step` = `stepD` without "
              "group-derived durations (C19.stepD_eq_step / runD_eq_run). "
              "Model = single-threaded trace machine; callbacks are arbitrary total functions alpha -> Except; key equality is assumed to be an "
              "equivalence (hypotheses of the theorems). PARTIAL: group_routes_to_key_partial assumes, for a group created by the element itself, that its "
              "duration does not fire synchronously inside its own subscribe; the full statement is false of the code (known finding "
              "C19-sync-duration-drops-element): C19.sync_duration_drops_element is the decided counter-example, replayed on the real code (rx.empty() durations). The partition theorems cover the scenario 'both outputs subscribed before the first "
              "element, never disposed, predicate not raising'; late subscription / disposal / raising and non-boolean predicates / reconnection "
              "are covered by the correspondence and the oracle only. groups_end_with_source states the order 'groups first, then outer' as: only "
              "unsubscriptions follow the outer terminal in the step's effect log. Trusted: the correspondence harness and the hot-observable instrument.")
